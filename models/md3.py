"""Reference model of MD3's warn / ask-the-oracle / confirm protocol (DESIGN §4 C19).

Written from the C19 statement and the MD3 docstrings, as straight-line Python
over raw rows ``(x0, label)`` in exact rational arithmetic; it does not use
pandas and keeps no fitted classifiers.

Two parts:

* the *environment* the driver hands to MD3 — a deterministic threshold
  classifier on feature 0 (``learn_threshold`` / ``predict_one``) and the user
  margin rule ``|x0 - thr| <= m`` (``in_margin``).  The sklearn stub in
  checks/c19.py is a thin wrapper around these three functions, computing in
  ``Fraction`` as well, so the environment is the same on both sides and has no
  rounding of its own.  Some families use a second stub whose ``fit`` learns
  nothing (fixed threshold): ``MD3Model(..., refit=False)``;
* the *specification*: k-fold reference statistics, margin-density recurrence,
  warning rule, refusal rules, confirmation after exactly L labels, reference
  replacement, lifecycle counters.

Every threshold comparison goes through the Decider ``D`` (mc.numeric), written
as a comparison of O(1) quantities (``MD > MD_ref + T``, not ``|MD-MD_ref| > T``)
so that float cancellation noise in the implementation is recognised as a
numerically undecidable step rather than a disagreement.  A comparison is
declared exact only when every operand is a small dyadic rational and the
forgetting factor is dyadic — then the implementation's float arithmetic is
exact too and ``>`` vs ``>=`` is enforced on ties.

Trusted primitive: ``sklearn.model_selection.KFold(k, shuffle=True,
random_state=42)`` — the fold assignment the code documents.
"""
import math
from fractions import Fraction

import numpy as np
from sklearn.model_selection import KFold


# --------------------------------------------------------------------------
# environment: deterministic threshold classifier + user margin function
# --------------------------------------------------------------------------
def learn_threshold(xs, ys):
    """Threshold on feature 0: midpoint between the two class means; when only
    one class is present in the training rows, the mean of all of them."""
    xs = [Fraction(x) for x in xs]
    one = [x for x, y in zip(xs, ys) if int(y) == 1]
    zero = [x for x, y in zip(xs, ys) if int(y) != 1]
    if one and zero:
        return (sum(one) / len(one) + sum(zero) / len(zero)) / 2
    return sum(xs) / len(xs)


def predict_one(x, thr):
    return 1 if Fraction(x) > thr else 0


def in_margin(x, thr, m):
    return 1 if abs(Fraction(x) - thr) <= Fraction(m) else 0


# --------------------------------------------------------------------------
# helpers
# --------------------------------------------------------------------------
def _isqrt_fraction(q):
    """Exact square root of a non-negative Fraction, or None."""
    n, d = q.numerator, q.denominator
    rn, rd = math.isqrt(n), math.isqrt(d)
    if rn * rn == n and rd * rd == d:
        return Fraction(rn, rd)
    return None


def _dyadic(q, bits=44):
    """True when q is exactly representable with plenty of head-room, so that
    sums/products of a few such numbers are computed exactly in binary64."""
    if not isinstance(q, Fraction):
        return False
    d = q.denominator
    return d & (d - 1) == 0 and d.bit_length() <= bits and abs(q.numerator).bit_length() <= bits


def _mean_std(vals):
    mean = sum(vals) / len(vals)
    var = sum((v - mean) ** 2 for v in vals) / len(vals)  # population variance
    root = _isqrt_fraction(var)
    std = root if root is not None else math.sqrt(float(var))
    return mean, std


def fold_statistics(rows, k, m, fixed_thr=None):
    """Mean and standard deviation, over k cross-validation folds, of the margin
    density and of the accuracy of the classifier trained on the other folds.

    rows: list of (x0, label).  Returns None when the statistic is undefined
    (fewer rows than folds).  ``fixed_thr``: the environment's classifier ignores
    its training rows (``fit`` is a no-op) and always uses this threshold."""
    n = len(rows)
    if k < 2 or n < k:
        return None
    mds, accs = [], []
    for train, test in KFold(n_splits=k, shuffle=True, random_state=42).split(np.zeros((n, 1))):
        if fixed_thr is None:
            thr = learn_threshold([rows[i][0] for i in train], [rows[i][1] for i in train])
        else:
            thr = Fraction(fixed_thr)
        inside = sum(in_margin(rows[i][0], thr, m) for i in test)
        right = sum(1 for i in test if predict_one(rows[i][0], thr) == rows[i][1])
        mds.append(Fraction(inside, len(test)))
        accs.append(Fraction(right, len(test)))
    md, md_std = _mean_std(mds)
    acc, acc_std = _mean_std(accs)
    return {"len": n, "md": md, "md_std": md_std, "acc": acc, "acc_std": acc_std}


UNDEFINED = "undefined"


class MD3Model:
    """Lock-step specification.  Calls:

    update(nrows, x0, D)                 -> expected observation
    label(nrows, columns, x0, y, D)      -> expected observation
    """

    def __init__(self, ref_rows, columns, sensitivity, k, L, clf_thr, clf_margin, refit=True):
        self.columns = list(columns)  # feature columns + target column of the reference
        # refit=False: the environment's classifier is a fixed rule whose fit() learns nothing
        self.refit = bool(refit)
        self.sens = Fraction(sensitivity)
        self.k = k
        self.thr = Fraction(clf_thr)  # the user's fitted classifier (never refitted by MD3)
        self.m = Fraction(clf_margin)
        self.waiting = False
        self.labels = []
        self.state = None
        self.total = 0
        self.since = 0
        # bookkeeping for the non-vacuity counters only
        self.rounds = 0
        self.warnings = 0
        self.last = None
        ok = self._adopt([(Fraction(x), int(y)) for x, y in ref_rows])
        if not ok:
            raise ValueError("reference batch smaller than k")
        self.L = self.stats["len"] if L is None else L

    # -- reference -----------------------------------------------------------
    def _adopt(self, rows):
        st = fold_statistics(rows, self.k, self.m, None if self.refit else self.thr)
        if st is None:
            return False
        self.stats = st
        self.phi = Fraction(st["len"] - 1, st["len"])
        self.md = st["md"]  # the running margin density restarts at the reference value
        return True

    def _all_exact(self, *qs):
        return all(_dyadic(q) for q in qs) and _dyadic(self.phi) and _dyadic(self.sens)

    # -- observation -----------------------------------------------------------
    def obs(self, exc=None):
        s = self.stats
        return {
            "exc": exc,
            "state": self.state,
            "waiting": self.waiting,
            "n_oracle": len(self.labels),
            "md": float(self.md),
            "ref": {
                "len": s["len"],
                "md": float(s["md"]),
                "md_std": float(s["md_std"]),
                "acc": float(s["acc"]),
                "acc_std": float(s["acc_std"]),
            },
            "total": self.total,
            "since": self.since,
        }

    def _refuse(self, kind):
        # a refused call raises ValueError and changes nothing
        self.last = ("refused", kind, self.waiting)
        return self.obs("ValueError")

    # -- update ---------------------------------------------------------------
    def update(self, nrows, x0, D):
        if self.waiting:
            return self._refuse("update_while_waiting")
        if nrows != 1:
            return self._refuse("update_rows")
        if self.state == "drift":
            # lifecycle (C01): the update after a reported drift starts a new epoch
            self.since = 0
            self.state = None
            self.md = self.stats["md"]
        self.total += 1
        self.since += 1
        signal = in_margin(x0, self.thr, self.m)
        self.md = self.phi * self.md + (1 - self.phi) * signal
        ref = self.stats["md"]
        sd = self.stats["md_std"]
        T = self.sens * sd if isinstance(sd, Fraction) else float(self.sens) * sd
        ex = self._all_exact(self.md, ref, sd)
        hi = D.gt(self.md, ref + T, exact=ex)
        lo = D.lt(self.md, ref - T, exact=ex)
        if hi or lo:
            self.state = "warning"
            self.waiting = True
            self.warnings += 1
            self.last = ("warning", "high" if hi else "low", self.rounds)
        else:
            self.state = None
            self.last = ("update", signal, self.rounds)
        return self.obs()

    # -- give_oracle_label ------------------------------------------------------
    def label(self, nrows, columns, x0, y, D):
        if not self.waiting:
            return self._refuse("label_not_waiting")
        if nrows != 1:
            return self._refuse("label_rows")
        if len(columns) != len(self.columns) or set(columns) != set(self.columns):
            return self._refuse("label_columns")
        self.labels.append((Fraction(x0), int(y)))
        self.state = None
        self.last = ("label", len(self.labels), self.rounds)
        if len(self.labels) == self.L:
            right = sum(1 for (x, t) in self.labels if predict_one(x, self.thr) == t)
            acc = Fraction(right, self.L)
            ref = self.stats["acc"]
            sd = self.stats["acc_std"]
            T = self.sens * sd if isinstance(sd, Fraction) else float(self.sens) * sd
            ex = self._all_exact(acc, ref, sd)
            drift = D.gt(ref, acc + T, exact=ex)
            if not self._adopt(list(self.labels)):
                # fewer labelled samples than folds: the k-fold summary of the new
                # reference does not exist, the property cannot be met here
                self.last = (UNDEFINED, self.L, self.k)
                return {UNDEFINED: True, "L": self.L, "k": self.k}
            self.labels = []
            self.waiting = False
            self.rounds += 1
            self.state = "drift" if drift else None
            self.last = ("confirmed" if drift else "rejected", self.stats["md_std"] != 0, self.rounds)
        return self.obs()

    # -- transposition key -------------------------------------------------------
    def canon(self):
        s = self.stats
        return (
            self.waiting,
            tuple(self.labels),
            self.state,
            self.total,
            self.since,
            self.md,
            s["len"],
            s["md"],
            s["md_std"],
            s["acc"],
            s["acc_std"],
            self.rounds,
            self.warnings,
        )
