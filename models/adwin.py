"""Executable specification of ADWIN (DESIGN §4 C03).

Deliberately *not* the implementation's data structure: the model keeps

  * ``xs`` — the raw contents of the adaptive window, oldest first, as exact
    rationals: every fed value is ``Fraction(x)``; the list holds the integer
    numerators over one common denominator ``den`` (floats are dyadic, so
    ``den`` is a power of two; the list is rescaled when a finer value arrives).
    All sums are therefore plain integer sums -- exact, and cheap even for
    non-dyadic-looking data such as 0.1 --, and
  * ``bs`` — the chronological list of bucket sizes, oldest first (always
    non-increasing: the oldest buckets are the largest).

Everything else is recomputed from these two lists at every step:

  add       append a size-1 bucket; then for size = 1, 2, 4, ...: when there are
            ``max_buckets + 1`` buckets of that size, merge the two oldest of them
            into one bucket of twice the size (exponential-histogram rule of the
            class docstring); stop at the first size that does not overflow.
  mean/var  exact mean and *population* variance of ``xs``.
  check     only when ``total_samples % new_sample_thresh == 0`` and
            ``W > window_size_thresh``: scan the bucket boundaries oldest to
            newest (the boundary after the newest bucket is no split).  A split
            (n0 | n1) is admissible iff both parts hold at least
            ``subwindow_size_thresh`` samples; it fires iff
            ``|mean0 - mean1| > eps_cut`` where, with
            m = 1/(n0-s+1) + 1/(n1-s+1) and v the population variance of the
            whole current window,
              eps_cut = sqrt(2 m v d') + (2/3) m d',  d' = ln(2 ln W / delta)
            or, with ``conservative_bound``,
              eps_cut = sqrt(m/2 * ln(4 ln W / delta))
            (formulas documented inline in adwin.py::_check_epsilon).
            On fire: drift is reported, the single oldest bucket is dropped,
            ``retraining_recs = (total - W, total - 1)`` for the retained window,
            and the scan restarts; this repeats until a scan completes.

Every comparison goes through the Decider ``D``: the integer guards with
``exact=True`` (their ties are enforced strictly), the epsilon test with the
margin rule (relative margin <= 1e-9 is numerically undecidable).

``diag`` is a side channel for anti-vacuity counters only (never compared).
"""
import math
from fractions import Fraction

NAN = float("nan")


def exact(x):
    """Exact rational value of a fed number (int when integral)."""
    f = Fraction(x)
    return f.numerator if f.denominator == 1 else f


class ADWINModel:
    def __init__(
        self,
        delta=0.002,
        max_buckets=5,
        new_sample_thresh=32,
        window_size_thresh=10,
        subwindow_size_thresh=5,
        conservative_bound=False,
    ):
        self.delta = delta
        self.max_buckets = max_buckets
        self.new_sample_thresh = new_sample_thresh
        self.window_size_thresh = window_size_thresh
        self.subwindow_size_thresh = subwindow_size_thresh
        self.conservative_bound = conservative_bound
        self.xs = []  # integer numerators over the common denominator ``den``
        self.den = 1
        self.bs = []
        self.total = 0
        self.since = 0
        self.state = None
        self.recs = [None, None]
        self.ndrifts = 0
        # diagnostics only (anti-vacuity counter / violation signature, never part of a
        # prediction): the bucket size a row-based histogram would expect at its old end --
        # the largest size ever created, lowered to s or s/2 when a bucket of size s is dropped
        self.top = 1
        self.diag = {}

    # cheap snapshots: every element of xs/bs is immutable
    def __deepcopy__(self, memo):
        c = ADWINModel.__new__(ADWINModel)
        c.__dict__.update(self.__dict__)
        c.xs = list(self.xs)
        c.bs = list(self.bs)
        c.recs = list(self.recs)
        c.diag = {}
        return c

    # ---- statistics of the raw window -------------------------------------------------
    def width(self):
        return len(self.xs)

    def _append(self, x):
        f = Fraction(x)
        if self.den % f.denominator:
            new = self.den * f.denominator // math.gcd(self.den, f.denominator)
            k = new // self.den
            self.xs = [v * k for v in self.xs]
            self.den = new
        self.xs.append(f.numerator * (self.den // f.denominator))

    def mean_exact(self):
        w = len(self.xs)
        return Fraction(sum(self.xs), w * self.den) if w else Fraction(0)

    def var_exact(self):
        """Population variance of the raw window."""
        w = len(self.xs)
        if not w:
            return Fraction(0)
        s1 = sum(self.xs)
        s2 = sum(v * v for v in self.xs)
        # s2/(w den^2) - (s1/(w den))^2
        return Fraction(w * s2 - s1 * s1, w * w * self.den * self.den)

    # ---- exponential histogram ----------------------------------------------------------
    def _add_bucket(self):
        self.bs.append(1)
        size = 1
        largest_merge = 0
        while True:
            idx = [i for i, b in enumerate(self.bs) if b == size]
            if len(idx) != self.max_buckets + 1:
                break
            i = idx[0]  # the two oldest buckets of this size are adjacent
            self.bs[i : i + 2] = [2 * size]
            size *= 2
            largest_merge = size
            if size > self.top:
                self.top = size
        self.diag["largest_merge"] = largest_merge

    # ---- epsilon cut ----------------------------------------------------------------------
    def _eps_cut(self, n0, n1, w, var):
        s = self.subwindow_size_thresh
        try:
            m = 1 / (n0 - s + 1) + 1 / (n1 - s + 1)
            if not self.conservative_bound:
                d = math.log(2 * math.log(w) / self.delta)
                return math.sqrt(2 * m * var * d) + (2 / 3) * m * d
            d = math.log(4 * math.log(w) / self.delta)
            return math.sqrt(0.5 * m * d)
        except (ValueError, ZeroDivisionError):
            return NAN  # undefined threshold: nothing exceeds it

    def _some_split_fires(self, D):
        xs, bs = self.xs, self.bs
        w = len(xs)
        tot = sum(xs)
        var = float(self.var_exact())
        s = self.subwindow_size_thresh
        n0 = 0
        t0 = 0
        pos = 0
        for sz in bs[:-1]:
            t0 += sum(xs[pos : pos + sz])
            pos += sz
            n0 += sz
            n1 = w - n0
            if D.ge(n0, s, exact=True) and D.ge(n1, s, exact=True):
                # |t0/n0 - (tot-t0)/n1| over the common denominator
                # (int / int is correctly rounded, like float(Fraction))
                diff = abs(t0 * n1 - (tot - t0) * n0) / (n0 * n1 * self.den)
                eps = self._eps_cut(n0, n1, w, var)
                self.diag["splits_tested"] = self.diag.get("splits_tested", 0) + 1
                if eps == eps and max(diff, eps) > 0:
                    mg = abs(diff - eps) / max(diff, eps)
                    if mg < self.diag.get("min_margin", math.inf):
                        self.diag["min_margin"] = mg
                if D.gt(diff, eps):
                    return True
            else:
                self.diag["inadmissible"] = self.diag.get("inadmissible", 0) + 1
        return False

    # ---- one update ---------------------------------------------------------------------------
    def step(self, x, D):
        self.diag = {"dropped": [], "gap_cut": False}
        if self.state is not None:
            # the update after a reported drift starts from a clean drift state;
            # the window itself is kept (ADWIN is excluded from C02 for that reason)
            self.state = None
            self.recs = [None, None]
            self.since = 0
        self.total += 1
        self.since += 1
        self._append(x)
        self._add_bucket()

        scheduled = self.total % self.new_sample_thresh == 0
        self.diag["scheduled"] = scheduled
        self.diag["checked"] = False
        if scheduled and D.gt(len(self.xs), self.window_size_thresh, exact=True):
            self.diag["checked"] = True
            while self._some_split_fires(D):
                self.state = "drift"
                oldest = self.bs.pop(0)
                del self.xs[:oldest]
                if oldest < self.top:
                    # the histogram holds no bucket of the size class(es) right below the one
                    # dropped last (possible only with max_buckets = 1, where a merge empties
                    # its size class): the oldest bucket is smaller than a row-based layout expects
                    self.diag["gap_cut"] = True
                self.top = oldest if (self.bs and self.bs[0] == oldest) else max(oldest // 2, 1)
                self.diag["dropped"].append(oldest)
                self.recs = [self.total - len(self.xs), self.total - 1]
            if self.state == "drift":
                self.ndrifts += 1

        w = len(self.xs)
        return {
            "state": self.state,
            "recs": list(self.recs),
            "total": self.total,
            "since": self.since,
            "mean": float(self.mean_exact()),
            "variance": float(self.var_exact()),
            "W": w,
            "W_internal": w,
        }

    # ---- explicit reset() between two updates ----------------------------------------------
    def reset(self):
        """``ADWIN.reset()`` called by the user: the drift state, the retraining recommendation and
        the samples-since-reset counter are initialised; the adaptive window (hence mean, variance,
        W, the bucket layout) and total_samples are untouched -- W shrinks only in an update that
        reports drift."""
        self.diag = {"dropped": [], "gap_cut": False}
        self.state = None
        self.recs = [None, None]
        self.since = 0
        w = len(self.xs)
        return {
            "state": None,
            "recs": [None, None],
            "total": self.total,
            "since": 0,
            "mean": float(self.mean_exact()),
            "variance": float(self.var_exact()),
            "W": w,
            "W_internal": w,
        }

    def canon(self):
        return (tuple(self.xs), self.den, tuple(self.bs), self.total, self.since, self.state, tuple(self.recs))
