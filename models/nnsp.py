"""Reference model for C10: NN space partitioning and NN-DVI (DESIGN §4 C10).

Plain Python over tuples of ``Fraction`` -- no numpy arrays, no inverse index,
no matrix products.  A *sample* is a list of rows (each row a sequence of
numbers); a *point* is a tuple of Fractions (``Fraction(float)`` is exact, so
comparisons and distances below are exact for any float input).

NNSP part (specification of ``NNSpacePartitioner.build`` / ``compute_nnps_distance``)
  union(s1, s2)        de-duplicated union, lexicographically sorted
  membership(D, s)     1 where the point of D occurs in sample s, else 0
  knn_row_defect(...)  is a 0/1 row a k-nearest-neighbour set of point i (self
                       included, ties at the boundary may be broken either way)?
  weight_normalised()  row i scaled by lcm(row sums)/row sum i
  distance(adj,v1,v2)  sum_j |a_j-b_j|/(a_j+b_j) / |D|,  a = v1.P, b = v2.P

NN-DVI part (``NNDVIModel``): reference batch, lifecycle counters, own
brute-force kNN (the batch menus are chosen tie-free; a boundary tie raises
``KnnTie``), exact distances, permutation threshold through the documented draw
protocol (``sampling_times`` x ``numpy.random.permutation(v_ref)``, v2 = 1 - v1)
and the decision d > theta through the Decider.
"""
import math
from fractions import Fraction

import numpy as np
from scipy.stats import norm


class KnnTie(Exception):
    """k-th and (k+1)-th neighbour are equidistant: the kNN relation is not unique."""


# ----------------------------------------------------------------- points / sets
def point(row):
    if isinstance(row, (int, float, Fraction)):
        row = (row,)
    return tuple(Fraction(x) for x in row)


def points(sample):
    return [point(r) for r in sample]


def union(s1, s2):
    """Sorted list of the distinct points occurring in either sample."""
    return sorted(set(points(s1)) | set(points(s2)))


def membership(D, sample):
    present = set(points(sample))
    return [1 if p in present else 0 for p in D]


def sqdist(p, q):
    return sum((a - b) * (a - b) for a, b in zip(p, q))


# ----------------------------------------------------------------- kNN relation
def knn_row_defect(D, i, row, k):
    """None if ``row`` (0/1 over D) is a valid k-nearest-neighbour set of D[i]
    (the point itself included), else a string saying what is wrong."""
    sel = [j for j, x in enumerate(row) if x == 1]
    if any(x not in (0, 1) for x in row):
        return "row %d has entries other than 0/1: %r" % (i, list(row))
    if len(sel) != k:
        return "row %d selects %d points, k = %d" % (i, len(sel), k)
    if i not in sel:
        return "row %d does not contain the point itself" % i
    uns = [j for j in range(len(D)) if j not in sel]
    if not uns:
        return None
    far = max(sqdist(D[i], D[j]) for j in sel)
    near = min(sqdist(D[i], D[j]) for j in uns)
    if far > near:
        return (
            "row %d selects a point at squared distance %s although an unselected point is at %s"
            % (i, far, near)
        )
    return None


def knn_rows(D, k):
    """The unique kNN relation of D (self included); KnnTie if it is not unique."""
    n = len(D)
    rows = []
    for i in range(n):
        order = sorted(range(n), key=lambda j: (sqdist(D[i], D[j]), j))
        if k < n and sqdist(D[i], D[order[k - 1]]) == sqdist(D[i], D[order[k]]):
            raise KnnTie("point %r: neighbours %d and %d are equidistant" % (D[i], k, k + 1))
        chosen = set(order[:k])
        rows.append([1 if j in chosen else 0 for j in range(n)])
    return rows


def has_boundary_tie(D, k):
    try:
        knn_rows(D, k)
        return False
    except KnnTie:
        return True


# ----------------------------------------------------------------- NNPS matrix / distance
def weight_normalised(adj):
    """Row i of the adjacency scaled by Q / w_i, w_i its row sum, Q = lcm(w)."""
    w = [int(sum(r)) for r in adj]
    q = 1
    for x in w:
        q = q * x // math.gcd(q, x)
    # q is a multiple of every w_i, so the scaled matrix is integral
    return [[(q // wi) * int(x) for x in r] for r, wi in zip(adj, w)]


def distance(adj, v1, v2):
    """NNPS distance as an exact Fraction (None if some shared subspace is empty
    in both samples, i.e. 0/0 -- impossible when v1, v2 cover D)."""
    P = weight_normalised(adj)
    n = len(P)
    total = Fraction(0)
    for j in range(n):
        a = sum(P[i][j] for i in range(n) if v1[i])
        b = sum(P[i][j] for i in range(n) if v2[i])
        if a + b == 0:
            return None
        total += Fraction(abs(a - b), a + b)
    return total / n


# ----------------------------------------------------------------- NN-DVI
class NNDVIModel:
    """Executable specification of NNDVI after ``set_reference``."""

    def __init__(self, k_nn, sampling_times, alpha):
        self.k = k_nn
        self.sampling_times = sampling_times
        self.alpha = alpha
        self.ref = None
        self.state = None
        self.total = 0
        self.since = 0
        self.drifts = 0
        self.last = {}

    def set_reference(self, rows):
        self.ref = [tuple(r) for r in rows]

    def threshold(self, adj, v_ref):
        """(theta, degenerate, c): theta = (1-alpha) quantile of N(mean, population std)
        of the distances under sampling_times random re-assignments; ``degenerate`` when
        all of them are equal (c), where the fitted normal has no spread."""
        base = np.array([float(x) for x in v_ref])
        ds = []
        for _ in range(self.sampling_times):
            v1 = [int(x) for x in np.random.permutation(base)]
            v2 = [1 - x for x in v1]
            ds.append(distance(adj, v1, v2))
        n = len(ds)
        mu = sum(ds) / n
        var = sum((d - mu) * (d - mu) for d in ds) / n
        if var == 0:
            return math.nan, True, float(mu)
        std = math.sqrt(float(var))
        return float(norm.ppf(1 - self.alpha, float(mu), std)), False, float(mu)

    def step(self, rows, D, follow=None):
        """One ``update(rows)``.  ``D`` is the Decider; ``follow`` is the implementation's
        answer, used *only* when the threshold is degenerate and d is not below the common
        permutation distance (then NaN-threshold 'no drift' and 'd > c' are both accepted)."""
        if self.state == "drift":
            self.state = None
            self.since = 0
        self.total += 1
        self.since += 1
        batch = [tuple(r) for r in rows]
        n_ref = len(self.ref)
        U = union(self.ref, batch)
        v_ref = membership(U, self.ref)
        v_test = membership(U, batch)
        adj = knn_rows(U, self.k)
        d = distance(adj, v_ref, v_test)
        theta, degenerate, c = self.threshold(adj, v_ref)
        ambiguous = False
        if degenerate:
            if D.lt(float(d), c):
                drift = False
            else:
                ambiguous = True
                drift = bool(follow) if follow is not None else False
        else:
            drift = D.gt(float(d), theta)
        if drift:
            self.state = "drift"
            self.ref = batch
            self.drifts += 1
        self.last = {
            "d": float(d),
            "theta": theta,
            "degenerate": degenerate,
            "c": c,
            "ambiguous": ambiguous,
            "unequal": len(batch) != n_ref,
            "shared": sum(1 for a, b in zip(v_ref, v_test) if a and b),
            "n_union": len(U),
        }
        return {
            "state": self.state,
            "total": self.total,
            "since": self.since,
            "reference": [[float(x) for x in r] for r in self.ref],
        }
