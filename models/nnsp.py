"""Reference model for C10: NN space partitioning and NN-DVI (DESIGN §4 C10).

Plain Python over tuples of ``Fraction`` -- no numpy arrays, no inverse index,
no matrix products.  A *sample* is a list of rows (each row a sequence of
numbers); a *point* is a tuple of Fractions (``Fraction(float)`` is exact, so
comparisons and distances below are exact for any float input).

NNSP part (specification of ``NNSpacePartitioner.build`` / ``compute_nnps_distance``)
  union(s1, s2)        de-duplicated union, lexicographically sorted
  membership(D, s)     1 where the point of D occurs in sample s, else 0
  knn_row_defect(...)  is a 0/1 row a k-nearest-neighbour set of point i (self
                       included, ties at the boundary may be broken either way)?
  weight_normalised()  row i scaled by lcm(row sums)/row sum i
  distance(adj,v1,v2)  sum_j |a_j-b_j|/(a_j+b_j) / |D|,  a = v1.P, b = v2.P

NN-DVI part (``NNDVIModel``): reference batch, lifecycle counters, own
brute-force kNN (the batch menus are chosen tie-free; a boundary tie raises
``KnnTie``), exact distances, permutation threshold through the documented draw
protocol (``sampling_times`` x ``numpy.random.permutation(v_ref)``, v2 = 1 - v1)
and the decision d > theta through the Decider.

Round-3 extension: data with exact distance ties (integer lattices, rounded
values) and data at a large level (where a correct float implementation cannot
resolve squared distances below ``tol``) have no unique kNN relation.
``knn_relations`` enumerates every valid relation (lazily, canonical one first);
``NNDVIModel.step`` then accepts the implementation's decision when *some* valid
relation yields it (a hint -- the relation the public partitioner produced -- is
tried first), and is strict when every valid relation yields the same decision.
"""
import math
from fractions import Fraction

import numpy as np
from scipy.stats import norm


class KnnTie(Exception):
    """k-th and (k+1)-th neighbour are equidistant: the kNN relation is not unique."""


# ----------------------------------------------------------------- points / sets
def point(row):
    if isinstance(row, (int, float, Fraction)):
        row = (row,)
    return tuple(Fraction(x) for x in row)


def points(sample):
    return [point(r) for r in sample]


def union(s1, s2):
    """Sorted list of the distinct points occurring in either sample."""
    return sorted(set(points(s1)) | set(points(s2)))


def membership(D, sample):
    present = set(points(sample))
    return [1 if p in present else 0 for p in D]


def sqdist(p, q):
    return sum((a - b) * (a - b) for a, b in zip(p, q))


# ----------------------------------------------------------------- kNN relation
def knn_row_defect(D, i, row, k, tol=0):
    """None if ``row`` (0/1 over D) is a valid k-nearest-neighbour set of D[i]
    (the point itself included), else a string saying what is wrong.  ``tol`` is the
    absolute error of a squared distance that a correct float implementation may
    commit at the level of the data (0 = exact)."""
    sel = [j for j, x in enumerate(row) if x == 1]
    if any(x not in (0, 1) for x in row):
        return "row %d has entries other than 0/1: %r" % (i, list(row))
    if len(sel) != k:
        return "row %d selects %d points, k = %d" % (i, len(sel), k)
    if i not in sel:
        return "row %d does not contain the point itself" % i
    uns = [j for j in range(len(D)) if j not in sel]
    if not uns:
        return None
    far = max(sqdist(D[i], D[j]) for j in sel)
    near = min(sqdist(D[i], D[j]) for j in uns)
    if far > near + tol:
        return (
            "row %d selects a point at squared distance %s although an unselected point is at %s"
            % (i, far, near)
        )
    return None


def knn_rows(D, k):
    """The unique kNN relation of D (self included); KnnTie if it is not unique."""
    n = len(D)
    rows = []
    for i in range(n):
        order = sorted(range(n), key=lambda j: (sqdist(D[i], D[j]), j))
        if k < n and sqdist(D[i], D[order[k - 1]]) == sqdist(D[i], D[order[k]]):
            raise KnnTie("point %r: neighbours %d and %d are equidistant" % (D[i], k, k + 1))
        chosen = set(order[:k])
        rows.append([1 if j in chosen else 0 for j in range(n)])
    return rows


class TooManyRelations(Exception):
    pass


def knn_row_options(D, i, k, tol=0):
    """All valid k-nearest-neighbour sets of D[i] (self included), as sorted index
    tuples; the first one breaks ties towards the lower index."""
    import itertools

    n = len(D)
    dist = [sqdist(D[i], D[j]) for j in range(n)]
    order = sorted(range(n), key=lambda j: (dist[j], j))
    if k >= n:
        return [tuple(range(n))]
    dk = dist[order[k - 1]]
    must = [j for j in range(n) if dist[j] < dk - tol]
    cand = [j for j in range(n) if j not in must and dist[j] <= dk + tol]
    need = k - len(must)
    out = []
    for extra in itertools.combinations(cand, need):
        sel = sorted(must + list(extra))
        if i not in sel:
            continue
        row = [1 if j in sel else 0 for j in range(n)]
        if knn_row_defect(D, i, row, k, tol) is None:
            out.append(tuple(sel))
    return out


def knn_relations(D, k, tol=0):
    """Generator over every valid kNN relation of D (list of 0/1 rows).  The first one
    is the canonical relation (ties towards the lower index)."""
    import itertools

    n = len(D)
    opts = [knn_row_options(D, i, k, tol) for i in range(n)]
    for choice in itertools.product(*opts):
        yield [[1 if j in sel else 0 for j in range(n)] for sel in choice]


def count_relations(D, k, tol=0):
    c = 1
    for i in range(len(D)):
        c *= len(knn_row_options(D, i, k, tol))
    return c


def is_relation(D, adj, k, tol=0):
    n = len(D)
    if adj is None or len(adj) != n or any(len(r) != n for r in adj):
        return False
    return all(knn_row_defect(D, i, adj[i], k, tol) is None for i in range(n))


def has_boundary_tie(D, k):
    try:
        knn_rows(D, k)
        return False
    except KnnTie:
        return True


# ----------------------------------------------------------------- NNPS matrix / distance
def weight_normalised(adj):
    """Row i of the adjacency scaled by Q / w_i, w_i its row sum, Q = lcm(w)."""
    w = [int(sum(r)) for r in adj]
    q = 1
    for x in w:
        q = q * x // math.gcd(q, x)
    # q is a multiple of every w_i, so the scaled matrix is integral
    return [[(q // wi) * int(x) for x in r] for r, wi in zip(adj, w)]


def distance(adj, v1, v2):
    """NNPS distance as an exact Fraction (None if some shared subspace is empty
    in both samples, i.e. 0/0 -- impossible when v1, v2 cover D)."""
    P = weight_normalised(adj)
    n = len(P)
    total = Fraction(0)
    for j in range(n):
        a = sum(P[i][j] for i in range(n) if v1[i])
        b = sum(P[i][j] for i in range(n) if v2[i])
        if a + b == 0:
            return None
        total += Fraction(abs(a - b), a + b)
    return total / n


# ----------------------------------------------------------------- NN-DVI
RELATION_BUDGET = 1500  # valid kNN relations evaluated per step before giving up (tie data only)


class NNDVIModel:
    """Executable specification of NNDVI after ``set_reference``."""

    def __init__(self, k_nn, sampling_times, alpha):
        self.k = k_nn
        self.sampling_times = sampling_times
        self.alpha = alpha
        self.ref = None
        self.state = None
        self.total = 0
        self.since = 0
        self.drifts = 0
        self.last = {}

    def set_reference(self, rows):
        self.ref = [tuple(r) for r in rows]

    def draw(self, v_ref):
        """The documented draw protocol: sampling_times x numpy.random.permutation(v_ref)."""
        base = np.array([float(x) for x in v_ref])
        return [[int(x) for x in np.random.permutation(base)] for _ in range(self.sampling_times)]

    def threshold(self, adj, v_ref, perms=None):
        """(theta, degenerate, c): theta = (1-alpha) quantile of N(mean, population std)
        of the distances under sampling_times random re-assignments; ``degenerate`` when
        all of them are equal (c), where the fitted normal has no spread."""
        if perms is None:
            perms = self.draw(v_ref)
        ds = []
        for v1 in perms:
            v2 = [1 - x for x in v1]
            ds.append(distance(adj, v1, v2))
        n = len(ds)
        mu = sum(ds) / n
        var = sum((d - mu) * (d - mu) for d in ds) / n
        if var == 0:
            return math.nan, True, float(mu)
        std = math.sqrt(float(var))
        return float(norm.ppf(1 - self.alpha, float(mu), std)), False, float(mu)

    @staticmethod
    def _plain(d, theta, degenerate, c, tie):
        """Decision without a Decider: True / False, or None when either answer is
        acceptable (degenerate fit with d not below the common value, or d within the
        relative margin ``tie`` of the threshold)."""
        d = float(d)
        if degenerate:
            if d < c and abs(d - c) > tie * max(abs(d), abs(c), 1e-300):
                return False
            return None
        if math.isnan(theta):
            return False
        if math.isinf(theta):
            return d > theta
        if abs(d - theta) <= tie * max(abs(d), abs(theta), 1e-300):
            return None
        return d > theta

    def step(self, rows, D, follow=None, hint=None, tol=0):
        """One ``update(rows)``.  ``D`` is the Decider; ``follow`` is the implementation's
        answer, used *only* (a) when the threshold is degenerate and d is not below the
        common permutation distance (then NaN-threshold 'no drift' and 'd > c' are both
        accepted) and (b) when the kNN relation of the pooled points is not unique: the
        step is then accepted iff some valid relation yields ``follow`` (``hint``, a
        candidate relation, is tried first).  ``tol``: see knn_row_defect."""
        if self.state == "drift":
            self.state = None
            self.since = 0
        self.total += 1
        self.since += 1
        batch = [tuple(r) for r in rows]
        n_ref = len(self.ref)
        U = union(self.ref, batch)
        v_ref = membership(U, self.ref)
        v_test = membership(U, batch)
        n_rel = count_relations(U, self.k, tol)
        ambiguous = False
        relation = "unique"
        if n_rel == 1:
            adj = next(knn_relations(U, self.k, tol))
            d = distance(adj, v_ref, v_test)
            theta, degenerate, c = self.threshold(adj, v_ref)
            if degenerate:
                if D.lt(float(d), c):
                    drift = False
                else:
                    ambiguous = True
                    drift = bool(follow) if follow is not None else False
            else:
                drift = D.gt(float(d), theta)
        else:
            perms = self.draw(v_ref)

            def evaluate(adj):
                d = distance(adj, v_ref, v_test)
                theta, degenerate, c = self.threshold(adj, v_ref, perms)
                return d, theta, degenerate, c, self._plain(d, theta, degenerate, c, D.tie)

            def candidates():
                if hint is not None and is_relation(U, hint, self.k, tol):
                    yield "hint", [[int(x) for x in r] for r in hint]
                for adj in knn_relations(U, self.k, tol):
                    yield "enumerated", adj

            first = None
            chosen = None
            complete = True
            for j, (how, adj) in enumerate(candidates()):
                if j >= RELATION_BUDGET:
                    complete = False
                    break
                res = evaluate(adj)
                if first is None:
                    first = (how, res)
                if follow is None or res[4] is None or res[4] == bool(follow):
                    chosen = (how, res)
                    break
            if chosen is None and not complete:
                # more valid relations than can be evaluated: the decision is not judged
                relation = "unjudged"
                d, theta, degenerate, c, pred = first[1]
                drift = bool(follow)
            else:
                how, (d, theta, degenerate, c, pred) = chosen if chosen is not None else first
                relation = how
                if pred is None:
                    ambiguous = degenerate
                    drift = bool(follow) if follow is not None else False
                else:
                    drift = pred
        if drift:
            self.state = "drift"
            self.ref = batch
            self.drifts += 1
        self.last = {
            "d": float(d),
            "theta": theta,
            "degenerate": degenerate,
            "c": c,
            "ambiguous": ambiguous,
            "unequal": len(batch) != n_ref,
            "shared": sum(1 for a, b in zip(v_ref, v_test) if a and b),
            "n_union": len(U),
            "relations": n_rel,
            "relation": relation,
            "same_set": v_ref == v_test,
        }
        return {
            "state": self.state,
            "total": self.total,
            "since": self.since,
            "reference": [[float(x) for x in r] for r in self.ref],
        }
