"""Executable specifications of DDM, EDDM and STEPD (DESIGN §4 C05, §2.5).

Plain Python over the raw outcome list of the current epoch.  ``err`` is 1 for
an incorrect prediction, 0 for a correct one.  Every threshold comparison goes
through the Decider ``D`` so that numerically undecidable steps can be steered.

Exact ties.  Next to the float recurrences each model carries a *rational
shadow* (Fractions; a square root is kept only when it is rational).  A
threshold comparison is declared ``exact`` — and an equality is then enforced
as documented / implemented instead of being steerable — only when both sides
of the comparison, as floats, equal their exact rational values (so every
correct double-precision evaluation of the specification produces the same two
numbers), or when the outcome is fixed for every correct evaluation (EDDM ratio
against a threshold >= 1: the ratio never exceeds 1).  ``exact_enforced`` counts
the equalities decided that way in the last step.

``reset()`` is the user's reset: it starts a new epoch (running statistics,
state and retraining_recs cleared; the stream index keeps counting).
"""
import math
from fractions import Fraction

INF = float("inf")


def _phi_upper(t):
    """1 - Phi(t) for a float t (NaN-propagating)."""
    if math.isnan(t):
        return math.nan
    if math.isinf(t):
        return 0.0 if t > 0 else 1.0
    # same formulation as the detector's documentation: 1 - cdf
    return 1.0 - 0.5 * math.erfc(-t / math.sqrt(2.0))


def _qsqrt(q):
    """Exact square root of a Fraction, or None when it is irrational / undefined."""
    if q is None or q < 0:
        return None
    a = math.isqrt(q.numerator)
    b = math.isqrt(q.denominator)
    if a * a == q.numerator and b * b == q.denominator:
        return Fraction(a, b)
    return None


def _is(x, q):
    """The float x is exactly the rational q."""
    if q is None:
        return False
    x = float(x)
    if math.isnan(x) or math.isinf(x):
        return False
    return Fraction(x) == q


def _q(x):
    """Fraction of a parameter (int / float), None when not finite."""
    try:
        x = float(x) if not isinstance(x, int) else x
        if isinstance(x, float) and (math.isnan(x) or math.isinf(x)):
            return None
        return Fraction(x)
    except (TypeError, ValueError):
        return None


class _Recs:
    """[first warning index of the epoch (sticky), drift index]."""

    def __init__(self):
        self.v = [None, None]

    def note(self, state, idx):
        if state == "warning" and self.v[0] is None:
            self.v[0] = idx
        if state == "drift":
            self.v[1] = idx
            if self.v[0] is None:
                self.v[0] = idx


class _Base:
    exact_enforced = 0

    def _cmp(self, D, op, a, b, exact):
        if exact and float(a) == float(b):
            self.exact_enforced += 1
        return getattr(D, op)(a, b, exact=bool(exact))

    def reset(self, D=None):
        """The user's reset(): a new epoch begins; nothing else is remembered."""
        self.exact_enforced = 0
        self._epoch()
        return self.obs()


class DDMModel(_Base):
    def __init__(self, n_threshold=30, warning_scale=2, drift_scale=3):
        self.n_threshold = n_threshold
        self.warning_scale = warning_scale
        self.drift_scale = drift_scale
        self.total = 0
        self.epochs = 0
        self._epoch()

    def _epoch(self):
        self.epochs += 1
        self.n = 0
        self.errors = 0
        self.p = 0.0
        self.s = 0.0
        self.s_q = Fraction(0)  # rational shadow of s (None once irrational)
        self.pmin = INF
        self.smin = INF
        self.pmin_q = None
        self.state = None
        self.recs = _Recs()

    def obs(self):
        return {
            "state": self.state,
            "recs": list(self.recs.v),
            "total": self.total,
            "since": self.n,
        }

    def step(self, err, D):
        self.exact_enforced = 0
        if self.state == "drift":
            self._epoch()
        self.total += 1
        self.n += 1
        prev_q = Fraction(self.errors, self.n - 1) if self.n > 1 else Fraction(0)
        self.errors += err
        p_q = Fraction(self.errors, self.n)
        prev = self.p
        # running error rate == errors / n
        self.p = prev + (err - prev) / self.n
        # the detector's own running deviation (taken as the definition, §2.5)
        self.s = math.sqrt((self.s + (err - self.p) * (err - prev)) / self.n)
        if self.s_q is not None:
            self.s_q = _qsqrt((self.s_q + (err - p_q) * (err - prev_q)) / self.n)
        if self.n >= self.n_threshold:
            degenerate = self.s == 0.0  # both sides exactly representable
            # (which of two equal-sum minima is kept is not fixed by the property: ties stay steerable
            # except in the degenerate case, where both candidates are identical)
            if D.le(self.p + self.s, self.pmin + self.smin, exact=degenerate):
                self.pmin, self.smin = self.p, self.s
                self.pmin_q = p_q if _is(self.p, p_q) else None
            lhs = self.p + self.s
            s_ok = _is(self.s, self.s_q)
            lhs_ok = s_ok and _is(self.p, p_q) and _is(lhs, p_q + self.s_q)

            def exact_for(scale, rhs):
                if degenerate:
                    return True
                sq = _q(scale)
                if not lhs_ok or sq is None or self.pmin_q is None:
                    return False
                return _is(self.pmin, self.pmin_q) and _is(rhs, self.pmin_q + sq * self.s_q)

            rhs_d = self.pmin + self.drift_scale * self.s
            rhs_w = self.pmin + self.warning_scale * self.s
            if self._cmp(D, "ge", lhs, rhs_d, exact_for(self.drift_scale, rhs_d)):
                self.state = "drift"
            elif self._cmp(D, "ge", lhs, rhs_w, exact_for(self.warning_scale, rhs_w)):
                self.state = "warning"
            else:
                self.state = None
            if self.state is not None:
                self.recs.note(self.state, self.total - 1)
        return self.obs()

    def canon(self):
        return (self.n, self.errors, self.p, self.s, self.pmin, self.smin, self.state, tuple(self.recs.v))


class EDDMModel(_Base):
    def __init__(self, n_threshold=30, warning_thresh=0.95, drift_thresh=0.9):
        self.n_threshold = n_threshold
        self.warning_thresh = warning_thresh
        self.drift_thresh = drift_thresh
        self.total = 0
        self.epochs = 0
        self._epoch()

    def _epoch(self):
        self.epochs += 1
        self.n = 0
        self.n_err = 0
        self.last_err_pos = 0
        self.mean = 0.0
        self.sd = 0.0
        self.best = 0.0
        self.mean_q = Fraction(0)
        self.sd_q = Fraction(0)  # None once irrational
        self.best_q = Fraction(0)  # None when the stored maximum is not exactly known
        self.state = None
        self.recs = _Recs()

    def obs(self):
        return {
            "state": self.state,
            "recs": list(self.recs.v),
            "total": self.total,
            "since": self.n,
        }

    def step(self, err, D):
        self.exact_enforced = 0
        if self.state == "drift":
            self._epoch()
        self.total += 1
        self.n += 1
        if err:
            self.n_err += 1
            pos = self.n - 1
            dist = pos - self.last_err_pos
            self.last_err_pos = pos
            prev = self.mean
            prev_q = self.mean_q
            self.mean = prev + (dist - prev) / self.n_err
            self.mean_q = prev_q + (dist - prev_q) / self.n_err
            self.sd = math.sqrt((self.sd + (dist - self.mean) * (dist - prev)) / self.n_err)
            if self.sd_q is not None:
                self.sd_q = _qsqrt((self.sd_q + (dist - self.mean_q) * (dist - prev_q)) / self.n_err)
            if self.n_err >= self.n_threshold:
                num = self.mean + 2 * self.sd
                num_q = None
                if self.sd_q is not None and _is(self.mean, self.mean_q) and _is(self.sd, self.sd_q):
                    num_q = self.mean_q + 2 * self.sd_q
                    if not _is(num, num_q):
                        num_q = None
                if self.best < num:
                    self.best = num
                    self.best_q = num_q
                stat = num / self.best if self.best != 0 else math.nan
                rational = (
                    num_q is not None
                    and self.best_q is not None
                    and self.best_q != 0
                    and _is(stat, num_q / self.best_q)
                )

                def exact_for(thresh):
                    # the ratio never exceeds 1 (the maximum includes the current value), so against a
                    # threshold >= 1 the outcome is the same for every correct evaluation
                    return rational or (not math.isnan(stat) and float(thresh) >= 1.0)

                # `<=` as implemented (the docstring writes `<`; see the C05 notes in DESIGN §8)
                if self._cmp(D, "le", stat, self.drift_thresh, exact_for(self.drift_thresh)):
                    self.state = "drift"
                elif self._cmp(D, "le", stat, self.warning_thresh, exact_for(self.warning_thresh)):
                    self.state = "warning"
                else:
                    self.state = None
                if self.state is not None:
                    self.recs.note(self.state, self.total - 1)
        return self.obs()


class STEPDModel(_Base):
    def __init__(self, window_size=30, alpha_warning=0.05, alpha_drift=0.003):
        self.w = window_size
        self.alpha_warning = alpha_warning
        self.alpha_drift = alpha_drift
        self.total = 0
        self.epochs = 0
        self._epoch()

    def _epoch(self):
        self.epochs += 1
        self.outcomes = []  # 1 = correct
        self.state = None
        self.run_start = None

    def obs(self):
        n = len(self.outcomes)
        w = self.w
        recent = self.outcomes[-w:]
        past = self.outcomes[:-w] if n > w else []
        s = sum(recent)
        r = sum(past)
        recs = [None, None] if self.run_start is None or self.state is None else [self.run_start, self.total - 1]
        return {
            "state": self.state,
            "recs": recs,
            "total": self.total,
            "since": n,
            "recent_accuracy": (s / len(recent)) if recent else 0,
            "past_accuracy": (r / len(past)) if past else 0,
            "overall_accuracy": ((r + s) / n) if n else 0,
        }

    def step(self, err, D):
        self.exact_enforced = 0
        if self.state == "drift":
            self._epoch()
        self.total += 1
        self.outcomes.append(1 - err)
        n = len(self.outcomes)
        w = self.w
        recent = self.outcomes[-w:]
        past = self.outcomes[:-w] if n > w else []
        s = sum(recent)
        r = sum(past)
        acc_recent = s / len(recent)
        acc_past = (r / len(past)) if past else 0
        acc_all = (r + s) / n
        if n >= 2 * w:
            inv = 1 / (n - w) + 1 / w
            num = abs(acc_past - acc_recent) - 0.5 * inv
            den2 = acc_all * (1 - acc_all) * inv
            den = math.sqrt(den2) if den2 >= 0 else math.nan
            if den == 0:
                t = math.nan if num == 0 else math.copysign(INF, num)
            else:
                t = num / den
            pval = _phi_upper(t)
            decreased = Fraction(r, len(past)) > Fraction(s, len(recent))
            # T is exactly 0 (in the rationals and in floats): P(T) is exactly 1/2 for every correct normal cdf
            num_q = abs(Fraction(r, len(past)) - Fraction(s, len(recent))) - (Fraction(1, n - w) + Fraction(1, w)) / 2
            half = num_q == 0 and num == 0.0 and den == den and den != 0 and pval == 0.5
            if decreased and self._cmp(D, "lt", pval, self.alpha_drift, half):
                self.state = "drift"
            elif decreased and self._cmp(D, "lt", pval, self.alpha_warning, half):
                self.state = "warning"
            else:
                self.state = None
                self.run_start = None
            if self.state is not None and self.run_start is None:
                self.run_start = self.total - 1
        return self.obs()
