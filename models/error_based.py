"""Executable specifications of DDM, EDDM and STEPD (DESIGN §4 C05, §2.5).

Plain Python over the raw outcome list of the current epoch.  ``err`` is 1 for
an incorrect prediction, 0 for a correct one.  Every threshold comparison goes
through the Decider ``D`` so that numerically undecidable steps can be steered.
"""
import math
from fractions import Fraction

INF = float("inf")


def _phi_upper(t):
    """1 - Phi(t) for a float t (NaN-propagating)."""
    if math.isnan(t):
        return math.nan
    if math.isinf(t):
        return 0.0 if t > 0 else 1.0
    # same formulation as the detector's documentation: 1 - cdf
    return 1.0 - 0.5 * math.erfc(-t / math.sqrt(2.0))


class _Recs:
    """[first warning index of the epoch (sticky), drift index]."""

    def __init__(self):
        self.v = [None, None]

    def note(self, state, idx):
        if state == "warning" and self.v[0] is None:
            self.v[0] = idx
        if state == "drift":
            self.v[1] = idx
            if self.v[0] is None:
                self.v[0] = idx


class DDMModel:
    def __init__(self, n_threshold=30, warning_scale=2, drift_scale=3):
        self.n_threshold = n_threshold
        self.warning_scale = warning_scale
        self.drift_scale = drift_scale
        self.total = 0
        self.epochs = 0
        self._epoch()

    def _epoch(self):
        self.epochs += 1
        self.n = 0
        self.errors = 0
        self.p = 0.0
        self.s = 0.0
        self.pmin = INF
        self.smin = INF
        self.state = None
        self.recs = _Recs()

    def step(self, err, D):
        if self.state == "drift":
            self._epoch()
        self.total += 1
        self.n += 1
        self.errors += err
        prev = self.p
        # running error rate == errors / n
        self.p = prev + (err - prev) / self.n
        # the detector's own running deviation (taken as the definition, §2.5)
        self.s = math.sqrt((self.s + (err - self.p) * (err - prev)) / self.n)
        if self.n >= self.n_threshold:
            degenerate = self.s == 0.0  # both sides exactly representable
            if D.le(self.p + self.s, self.pmin + self.smin, exact=degenerate):
                self.pmin, self.smin = self.p, self.s
            lhs = self.p + self.s
            if D.ge(lhs, self.pmin + self.drift_scale * self.s, exact=degenerate):
                self.state = "drift"
            elif D.ge(lhs, self.pmin + self.warning_scale * self.s, exact=degenerate):
                self.state = "warning"
            else:
                self.state = None
            if self.state is not None:
                self.recs.note(self.state, self.total - 1)
        return {
            "state": self.state,
            "recs": list(self.recs.v),
            "total": self.total,
            "since": self.n,
        }

    def canon(self):
        return (self.n, self.errors, self.p, self.s, self.pmin, self.smin, self.state, tuple(self.recs.v))


class EDDMModel:
    def __init__(self, n_threshold=30, warning_thresh=0.95, drift_thresh=0.9):
        self.n_threshold = n_threshold
        self.warning_thresh = warning_thresh
        self.drift_thresh = drift_thresh
        self.total = 0
        self.epochs = 0
        self._epoch()

    def _epoch(self):
        self.epochs += 1
        self.n = 0
        self.n_err = 0
        self.last_err_pos = 0
        self.mean = 0.0
        self.sd = 0.0
        self.best = 0.0
        self.state = None
        self.recs = _Recs()

    def step(self, err, D):
        if self.state == "drift":
            self._epoch()
        self.total += 1
        self.n += 1
        if err:
            self.n_err += 1
            pos = self.n - 1
            dist = pos - self.last_err_pos
            self.last_err_pos = pos
            prev = self.mean
            self.mean = prev + (dist - prev) / self.n_err
            self.sd = math.sqrt((self.sd + (dist - self.mean) * (dist - prev)) / self.n_err)
            if self.n_err >= self.n_threshold:
                num = self.mean + 2 * self.sd
                if self.best < num:
                    self.best = num
                stat = num / self.best if self.best != 0 else math.nan
                if D.le(stat, self.drift_thresh):
                    self.state = "drift"
                elif D.le(stat, self.warning_thresh):
                    self.state = "warning"
                else:
                    self.state = None
                if self.state is not None:
                    self.recs.note(self.state, self.total - 1)
        return {
            "state": self.state,
            "recs": list(self.recs.v),
            "total": self.total,
            "since": self.n,
        }


class STEPDModel:
    def __init__(self, window_size=30, alpha_warning=0.05, alpha_drift=0.003):
        self.w = window_size
        self.alpha_warning = alpha_warning
        self.alpha_drift = alpha_drift
        self.total = 0
        self.epochs = 0
        self._epoch()

    def _epoch(self):
        self.epochs += 1
        self.outcomes = []  # 1 = correct
        self.state = None
        self.run_start = None

    def step(self, err, D):
        if self.state == "drift":
            self._epoch()
        self.total += 1
        self.outcomes.append(1 - err)
        n = len(self.outcomes)
        w = self.w
        recent = self.outcomes[-w:]
        past = self.outcomes[:-w] if n > w else []
        s = sum(recent)
        r = sum(past)
        acc_recent = s / len(recent)
        acc_past = (r / len(past)) if past else 0
        acc_all = (r + s) / n
        if n >= 2 * w:
            inv = 1 / (n - w) + 1 / w
            num = abs(acc_past - acc_recent) - 0.5 * inv
            den2 = acc_all * (1 - acc_all) * inv
            den = math.sqrt(den2) if den2 >= 0 else math.nan
            if den == 0:
                t = math.nan if num == 0 else math.copysign(INF, num)
            else:
                t = num / den
            pval = _phi_upper(t)
            decreased = Fraction(r, len(past)) > Fraction(s, len(recent))
            if decreased and D.lt(pval, self.alpha_drift):
                self.state = "drift"
            elif decreased and D.lt(pval, self.alpha_warning):
                self.state = "warning"
            else:
                self.state = None
                self.run_start = None
            if self.state is not None and self.run_start is None:
                self.run_start = self.total - 1
        recs = [None, None] if self.run_start is None or self.state is None else [self.run_start, self.total - 1]
        return {
            "state": self.state,
            "recs": recs,
            "total": self.total,
            "since": n,
            "recent_accuracy": acc_recent,
            "past_accuracy": acc_past,
            "overall_accuracy": acc_all,
        }
