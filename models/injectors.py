"""Executable specification of the drift injectors (DESIGN §4 C20).

Everything here works on *plain Python*: a data set is a list of rows, a row a
list of Python scalars (int / float / str), a window is the half-open range
[f, t).  No numpy, no pandas: the implementation's containers are converted to
this view by the check and compared cell by cell.

* exact injectors (feature swap, label swap, label join) -> the expected rows
* FeatureShift   -> expected cells as Fractions (exact arithmetic; the check
                    compares with the usual relative 1e-9 / absolute 1e-12)
* Brownian       -> predicate on the added noise (first value x0, every
                    increment of magnitude 1/sqrt(steps))
* FeatureCover   -> predicate "n rows per group, rows of that group, hidden
                    column removed"
* resampling     -> predicates on the resampled window and on the probability
                    vector that was handed to the random generator (requested
                    mass per listed class, uniform share for un-listed classes
                    of the window, and the documented redistribution of the
                    probability of listed classes that are missing from the
                    window — ``absent_rule_masses``)
"""
import math
from fractions import Fraction
from itertools import combinations_with_replacement

REL = 1e-9
ABS = 1e-12


# ---------------------------------------------------------------- cells / rows
def same_cell(a, b):
    if isinstance(a, float) and isinstance(b, float) and math.isnan(a) and math.isnan(b):
        return True
    if isinstance(a, str) != isinstance(b, str):
        return False
    if isinstance(a, bool) != isinstance(b, bool):
        return False
    try:
        return bool(a == b)
    except Exception:
        return False


def same_row(r, s):
    return len(r) == len(s) and all(same_cell(x, y) for x, y in zip(r, s))


def same_rows(a, b):
    return len(a) == len(b) and all(same_row(r, s) for r, s in zip(a, b))


def close(a, b, rel=REL, abs_=ABS):
    a = float(a)
    b = float(b)
    if math.isnan(a) or math.isnan(b):
        return math.isnan(a) and math.isnan(b)
    if math.isinf(a) or math.isinf(b):
        return a == b
    return abs(a - b) <= max(abs_, rel * max(abs(a), abs(b)))


def copy_rows(rows):
    return [list(r) for r in rows]


def diff_cells(expected, observed, limit=4):
    """[(i, j, expected, observed)] for cells that differ exactly."""
    out = []
    for i, (r, s) in enumerate(zip(expected, observed)):
        for j, (x, y) in enumerate(zip(r, s)):
            if not same_cell(x, y):
                out.append((i, j, x, y))
                if len(out) >= limit:
                    return out
    return out


def split_frame_effect(inp, out, f, t, cols):
    """Cells of ``out`` that differ from ``inp``: (outside, inside) where inside
    means row in [f, t) and column in ``cols`` (None = every column)."""
    outside, inside = [], []
    for i, (r, s) in enumerate(zip(inp, out)):
        for j, (x, y) in enumerate(zip(r, s)):
            if same_cell(x, y):
                continue
            if f <= i < t and (cols is None or j in cols):
                inside.append((i, j, x, y))
            else:
                outside.append((i, j, x, y))
    return outside, inside


# ---------------------------------------------------------------- exact effects
def expect_feature_swap(rows, f, t, c1, c2):
    exp = copy_rows(rows)
    for i in range(f, t):
        exp[i][c1], exp[i][c2] = rows[i][c2], rows[i][c1]
    return exp


def expect_label_swap(rows, f, t, c, a, b):
    exp = copy_rows(rows)
    for i in range(f, t):
        v = rows[i][c]
        if same_cell(v, a):
            exp[i][c] = b
        elif same_cell(v, b):
            exp[i][c] = a
    return exp


def expect_label_join(rows, f, t, c, a, b, new):
    exp = copy_rows(rows)
    for i in range(f, t):
        v = rows[i][c]
        if same_cell(v, a) or same_cell(v, b):
            exp[i][c] = new
    return exp


def expect_shift(rows, f, t, c, shift_factor, alpha):
    """Expected column after ``column + shift_factor * (alpha + window mean)``
    in exact rational arithmetic.  Returns (expected rows with Fractions in the
    shifted cells, delta as Fraction or None for an empty window)."""
    exp = copy_rows(rows)
    if t <= f:
        return exp, None
    vals = [Fraction(rows[i][c]) for i in range(f, t)]
    mean = sum(vals, Fraction(0)) / len(vals)
    delta = (Fraction(alpha) + mean) * Fraction(shift_factor)
    for i in range(f, t):
        exp[i][c] = Fraction(rows[i][c]) + delta
    return exp, delta


# ---------------------------------------------------------------- random walk
def check_walk(in_col, out_col, x0, tol=1e-9):
    """``out_col - in_col`` must be a walk w with w[0] = x0 and
    |w[i] - w[i-1]| = 1/sqrt(steps).  Returns (error or None, ups, downs)."""
    steps = len(in_col)
    if steps == 0:
        return None, 0, 0
    try:
        w = [Fraction(o) - Fraction(i) for i, o in zip(in_col, out_col)]
    except (TypeError, ValueError, OverflowError):
        return "noise is not numeric: %r" % (out_col,), 0, 0
    if abs(float(w[0]) - float(x0)) > tol:
        return "noise starts at %r instead of x0 = %r" % (float(w[0]), x0), 0, 0
    h = 1.0 / math.sqrt(steps)
    ups = downs = 0
    for i in range(1, steps):
        d = float(w[i] - w[i - 1])
        if abs(abs(d) - h) > tol:
            return (
                "noise increment %d is %r, expected magnitude 1/sqrt(%d) = %r (noise %r)"
                % (i, d, steps, h, [float(x) for x in w]),
                ups,
                downs,
            )
        if d > 0:
            ups += 1
        else:
            downs += 1
    return None, ups, downs


# ---------------------------------------------------------------- feature cover
def groups_of(rows, c):
    """value -> row indices (insertion order), values compared by ==."""
    keys = []
    members = []
    for i, r in enumerate(rows):
        for k, key in enumerate(keys):
            if same_cell(key, r[c]):
                members[k].append(i)
                break
        else:
            keys.append(r[c])
            members.append([i])
    return keys, members


def _remove_rows(pool, rows):
    """pool minus rows (multiset); None when some row is not available."""
    pool = list(pool)
    for r in rows:
        for k, p in enumerate(pool):
            if same_row(p, r):
                del pool[k]
                break
        else:
            return None
    return pool


def check_cover(rows, c, n_per, out_rows):
    """Every group of column ``c`` contributes exactly ``n_per`` rows, each of them
    one of its own rows, the column itself removed (whether a row may be drawn
    twice is not part of the property).  None when OK."""
    keys, members = groups_of(rows, c)
    want = n_per * len(keys)
    if len(out_rows) != want:
        return "%d rows returned, expected %d = %d per group x %d groups" % (
            len(out_rows), want, n_per, len(keys))
    reduced = [[v for j, v in enumerate(r) if j != c] for r in rows]
    for r in out_rows:
        if len(r) != len(rows[0]) - 1:
            return "row %r has %d cells, expected %d" % (r, len(r), len(rows[0]) - 1)

    def rec(g, pool):
        if g == len(members):
            return not pool
        for comb in combinations_with_replacement(members[g], n_per):
            rest = _remove_rows(pool, [reduced[i] for i in comb])
            if rest is not None and rec(g + 1, rest):
                return True
        return False

    if rec(0, list(out_rows)):
        return None
    return "returned rows are not %d rows of each group of column %d (hidden column removed)" % (n_per, c)


# ---------------------------------------------------------------- resampling
def window_classes(rows, f, t, c):
    out = []
    for i in range(f, t):
        if not any(same_cell(rows[i][c], k) for k in out):
            out.append(rows[i][c])
    return out


def column_classes(rows, c):
    return window_classes(rows, 0, len(rows), c)


def check_resampled_rows(rows, out_rows, f, t):
    """Outside the window identical; inside every row is a row of the window."""
    for i in range(len(rows)):
        if f <= i < t:
            if not any(same_row(out_rows[i], rows[j]) for j in range(f, t)):
                return "effect", "row %d of the result %r is not a row of the window [%d, %d)" % (
                    i, out_rows[i], f, t)
        elif not same_row(out_rows[i], rows[i]):
            return "frame", "row %d outside the window changed: %r -> %r" % (i, rows[i], out_rows[i])
    return None


def absent_rule_masses(wcls, sizes, request, tol=1e-9):
    """Class masses the documentation asks for when a listed class does not occur in the window.

    Docstring of LabelProbabilityInjector: "When a class is not present in the window specified, but specified in
    class_probabilities, the probability value is uniformly divided into the remaining classes in the window."
    Base mass of a class of the window: its requested probability when listed, otherwise the uniform share of
    1 - sum(request) among the un-listed classes of the window.  The probability L of the absent listed classes is
    then spread "uniformly"; the sentence can be read as an equal share per class (L / number of classes in the
    window) or as an equal share per row (L * class size / window size — what the pinned implementation and the
    comment in test_probability_shift_2 "individual = class prob / class size, + leftover prob" do).  Both readings
    coincide when all classes of the window have the same size; a weight vector is accepted when it follows either.
    -> (masses per class reading, masses per row reading, L), aligned with ``wcls``."""
    listed = [k for k, _ in request]
    total = math.fsum(v for _, v in request)
    unlisted = [w for w in wcls if not any(same_cell(w, k) for k in listed)]
    base = []
    for w in wcls:
        q = None
        for k, v in request:
            if same_cell(k, w):
                q = v
        if q is None:
            q = max(0.0, 1.0 - total) / len(unlisted)
        base.append(q)
    absent_mass = math.fsum(v for k, v in request if not any(same_cell(k, w) for w in wcls))
    width = sum(sizes)
    per_class = [q + absent_mass / len(wcls) for q in base]
    per_row = [q + absent_mass * m / width for q, m in zip(base, sizes)]
    return per_class, per_row, absent_mass


def check_probability_vector(rows, f, t, c, request, a, p, tol=1e-9):
    """``a``: row positions offered to the generator, ``p``: their weights,
    ``request``: [(class, probability)] as asked by the caller.

    Always: positions inside the window, no negative weight, total mass 1.
    If every listed class occurs in the window and the request is satisfiable
    (it sums to 1 or an unlisted class occurs in the window): class c gets mass
    p_c.  If moreover every class of the column occurs in the window: the
    unlisted classes share the rest uniformly (the documented rule).
    If a listed class does NOT occur in the window (and the request is otherwise
    satisfiable): the documented rule "the probability value is uniformly
    divided into the remaining classes in the window" — see
    ``absent_rule_masses`` for the two readings of "uniformly" that are accepted.
    Returns (error or None, info dict)."""
    info = {"listed_absent": False, "satisfiable": False, "all_in_window": False,
            "absent_rule": False, "absent_rule_readings_differ": False, "absent_mass": 0.0}
    if p is None:
        return "no probability vector was handed to the random generator", info
    if len(a) != len(p):
        return "%d candidates but %d weights" % (len(a), len(p)), info
    for i in a:
        if not (isinstance(i, int) and f <= i < t):
            return "candidate row %r lies outside the window [%d, %d)" % (i, f, t), info
    for w in p:
        if not (w == w) or w < -tol:
            return "invalid weight %r in %r" % (w, p), info
    if abs(math.fsum(p) - 1.0) > tol:
        return "weights sum to %r, not 1: %r" % (math.fsum(p), p), info
    wcls = window_classes(rows, f, t, c)
    ccls = column_classes(rows, c)
    listed = [k for k, _ in request]
    present = [any(same_cell(k, w) for w in wcls) for k in listed]
    total = math.fsum(v for _, v in request)
    unlisted_in_window = [w for w in wcls if not any(same_cell(w, k) for k in listed)]
    info["listed_absent"] = not all(present)
    info["all_in_window"] = len(wcls) == len(ccls)

    def mass(k):
        return math.fsum(w for i, w in zip(a, p) if same_cell(rows[i][c], k))

    if not all(present):
        if not (abs(total - 1.0) <= tol or unlisted_in_window):
            return None, info  # nothing is documented for a request that cannot be met anyway
        sizes = [sum(1 for i in range(f, t) if same_cell(rows[i][c], w)) for w in wcls]
        per_class, per_row, absent_mass = absent_rule_masses(wcls, sizes, request, tol)
        got = [mass(w) for w in wcls]
        info["absent_rule"] = True
        info["absent_mass"] = absent_mass
        info["absent_rule_readings_differ"] = any(abs(x - y) > tol for x, y in zip(per_class, per_row))
        ok_class = all(abs(g - e) <= tol for g, e in zip(got, per_class))
        ok_row = all(abs(g - e) <= tol for g, e in zip(got, per_row))
        if not (ok_class or ok_row):
            return (
                "listed class(es) %r do not occur in the window, their probability %r is to be divided uniformly "
                "among the classes of the window %r: expected class masses %r (equal share per class) or %r (equal "
                "share per row), the weights handed to the generator give %r (candidates %r, weights %r)"
                % ([k for k, pr in zip(listed, present) if not pr], absent_mass, wcls, per_class, per_row, got, a, p),
                info,
            )
        return None, info
    if not (abs(total - 1.0) <= tol or unlisted_in_window):
        return None, info
    info["satisfiable"] = True
    for k, v in request:
        m = mass(k)
        if abs(m - v) > tol:
            return (
                "class %r was requested with probability %r but the weights handed to the generator give it %r "
                "(candidates %r, weights %r)" % (k, v, m, a, p),
                info,
            )
    if info["all_in_window"] and unlisted_in_window:
        share = (1.0 - total) / len(unlisted_in_window)
        for k in unlisted_in_window:
            m = mass(k)
            if abs(m - share) > tol:
                return (
                    "unlisted class %r should receive the uniform share %r of the remaining mass but gets %r "
                    "(candidates %r, weights %r)" % (k, share, m, a, p),
                    info,
                )
    return None, info


def check_resample_draw(rows, out_rows, f, t, drawn):
    """The window of the result is exactly the multiset of rows that were drawn."""
    if len(drawn) != t - f:
        return "%d rows were drawn for a window of %d rows" % (len(drawn), t - f)
    rest = _remove_rows([out_rows[i] for i in range(f, t)], [rows[i] for i in drawn])
    if rest is None or rest:
        return "window of the result %r is not the drawn rows %r" % (
            [out_rows[i] for i in range(f, t)], [rows[i] for i in drawn])
    return None
