"""Executable specification of Linear Four Rates (DESIGN §4 C06, §2.3, §2.5).

Plain Python over a literal confusion matrix of the current epoch.  Rates and
test statistics are exact rationals (``fractions.Fraction``); only the
Monte-Carlo bounds are floats, because they are percentiles of simulated
floats.  Events are the four confusion cells, encoded ``2*y_true + y_pred``
(0 = TN, 1 = FP, 2 = FN, 3 = TP).

What the model states
---------------------
* confusion matrix ``C[pred][true]`` of the current epoch, one pseudo-count per
  cell; TPR = TP/(TP+FN), TNR = TN/(TN+FP), PPV = TP/(TP+FP), NPV = TN/(TN+FN)
  with those denominators;
* per *tracked* rate the statistic R (R0 = 1/2) becomes eta*R + (1-eta)*1{y = yhat}
  iff the value of the rate changed with this sample, otherwise it is kept;
* iff ``since > burn_in`` and ``since % subsample == 0`` every tracked rate, in
  ``rates_tracked`` order, is tested against bounds for (rate, denominator):
  taken from a cache keyed by (round(rate, round_val), denominator) that is
  never cleared (it survives resets), else simulated *now* through the
  documented draw protocol: ``num_mc`` times ``numpy.random.binomial(1, rate,
  size=N)`` -> (1-eta) * sum_i eta^(N-i) * b_i; bounds are
  ``numpy.percentile`` (trusted primitive) of those ``num_mc`` values at
  level*100 and 100 - level*100 for the warning and the detect level;
* flag = R < lb or R > ub (strict: a statistic *on* a bound is not outside);
  state = drift if any detect flag, else warning if any warning flag, else None;
* retraining_recs as DDM: [first warning index of the epoch (sticky), drift
  index], both the drift index without a warning;
* untracked rates are not computed at all.

Round-3 widening (parameter regions outside the first alphabets): the decay
factor may be any float in [0, 1] (0: the statistic is the last hit indicator;
1: it never moves and every simulated value is 0), levels anywhere in [0, 1]
(0: bounds are the extreme simulated values, 1/2: both bounds are the median,
above 1/2: the "lower" bound lies above the "upper" one and almost everything is
outside), ``num_mc`` down to 1, ``round_val`` 0 (every rate collapses onto the
keys 0 and 1) up to 12.  The statistic is computed in exact rational arithmetic
on the *binary value* of the decay factor, so that (1 - eta) carries no error of
its own when eta is close to 1.

Round-3b widening (long epochs: hundreds to tens of thousands of samples in one
epoch, where a sample moves a rate by only minority/(N(N+1))): the rates stay
exact rationals of the integer counts, so "the rate changed" is decided exactly
at any N.  The statistic stays an exact rational while its denominator is below
2^R_EXACT_BITS (every history of the short families); beyond that it is rounded
after each update to the grid 2^-R_GRID_BITS.  The rounding error is damped by
the decay factor like the statistic itself, so it stays below
2^-R_GRID_BITS / (1 - eta) -- hundreds of orders of magnitude under the 1e-9
margin at which a comparison is declared numerically undecidable.  Simulated
values for N > FAST_SIM_N are weighted sums taken with numpy.dot (error
~ 1e-16 * log N relative) instead of math.fsum.  ``compact = True`` makes
``step`` return only length and tail of all_drift_states (the caller compares
the complete lists itself at chosen moments).

Round-4 widening (epochs so long -- or decay factors so small -- that eta^N leaves
the range of normal doubles; decay factors 0 and 1): the weights of the simulated
statistic are taken one by one as ``eta ** (N - i)`` with exponents N-1 ... 0, so the
recent draws always carry the weights ..., eta^2, eta, 1 exactly as the property
states, whatever N is; weights of draws further back than ~1075/log2(1/eta) samples
underflow gradually to 0.0, which is their correctly rounded value (Python's float
power does not raise on underflow).  ``0.0 ** 0`` is 1.0: for eta = 0 the simulated
statistic is the last draw.  ``underflow_thresholds`` names the two denominators at
which eta^N becomes subnormal / zero (the regions the ``uflow`` family of the check
is laid out around).  Every step records the bounds it simulated in
``diag["new_bounds"]`` so that the caller can compare them with the detector's own
cache entry.

The caller owns numpy's global RNG: it must seed it immediately before
``step`` with the same value it used before the real ``update`` (§2.3).
Every bound comparison goes through the Decider ``D``.
"""
import math
from fractions import Fraction

import numpy as np

RATES = ("tpr", "tnr", "ppv", "npv")
HALF = Fraction(1, 2)
R_EXACT_BITS = 2048  # statistic denominators up to here are kept exactly (38 updates of a 53-bit decay factor)
R_GRID_BITS = 1024  # afterwards: rounded to multiples of 2^-1024 after every update
FAST_SIM_N = 64  # simulated statistics for larger N use numpy.dot instead of math.fsum
TAIL = 4  # compact observations: how many trailing entries of all_drift_states are returned


def rate_of(C, rate):
    """(value, denominator) of one rate from the literal matrix C[pred][true]."""
    tn, fn, fp, tp = C[0][0], C[0][1], C[1][0], C[1][1]
    if rate == "tpr":  # of the truly positive, how many were predicted positive
        return Fraction(tp, tp + fn), tp + fn
    if rate == "tnr":  # of the truly negative, how many were predicted negative
        return Fraction(tn, tn + fp), tn + fp
    if rate == "ppv":  # of the predicted positive, how many are positive
        return Fraction(tp, tp + fp), tp + fp
    if rate == "npv":  # of the predicted negative, how many are negative
        return Fraction(tn, tn + fn), tn + fn
    raise KeyError(rate)


def rounded_key(p, round_val):
    """round(p, round_val) as the integer p*10^round_val rounded.

    p is an exact Fraction.  Away from a rounding tie the result is unambiguous
    and computed exactly; *on* a tie (p*10^rv = m + 1/2 exactly) the property
    does not say which neighbour is meant and floating point cannot decide it
    reliably (0.15*10), so the model follows numpy's ``round`` of the float
    rate, the primitive the detector's ``round(np.float64, n)`` resolves to.
    Returns (key, was_tie).
    """
    scale = 10 ** round_val
    x = p * scale
    if x.denominator == 2:
        f = np.float64(p.numerator) / np.float64(p.denominator)
        return int(round(float(np.round(f, round_val)) * scale)), True
    return int(round(x)), False


def underflow_thresholds(eta):
    """(Ns, N0) for 0 < eta < 1: the smallest exponents at which the double ``eta ** N`` is
    subnormal (< 2^-1022) and exactly 0.0."""
    assert 0 < eta < 1
    tiny = 2.0 ** -1022

    def first(pred):
        lo, hi = 0, 1
        while not pred(eta ** hi):
            lo, hi = hi, hi * 2
        while hi - lo > 1:  # eta ** n is monotone in n
            mid = (lo + hi) // 2
            if pred(eta ** mid):
                hi = mid
            else:
                lo = mid
        return hi

    return first(lambda x: x < tiny), first(lambda x: x == 0.0)


def simulate_bounds(eta, p, N, num_mc, warning_level, detect_level):
    """Draw protocol + percentiles.  Consumes numpy's global RNG."""
    w = [eta ** (N - i) for i in range(1, N + 1)]
    vals = []
    if N > FAST_SIM_N:
        wa = np.array(w, dtype=np.float64)
        for _ in range(num_mc):
            b = np.random.binomial(1, p, size=N)
            vals.append((1 - eta) * float(np.dot(wa, b)))
    else:
        for _ in range(num_mc):
            b = np.random.binomial(1, p, size=N)
            vals.append((1 - eta) * math.fsum(w[i] for i in range(N) if b[i]))
    return (
        float(np.percentile(vals, warning_level * 100)),
        float(np.percentile(vals, 100 - warning_level * 100)),
        float(np.percentile(vals, detect_level * 100)),
        float(np.percentile(vals, 100 - detect_level * 100)),
    )


def exact_statistic_distribution(eta, p, N):
    """Exact distribution of (1-eta)*sum eta^(N-i) Bernoulli(p): sorted list of
    (value, probability), 2^N outcomes (only for small N; deterministic
    cross-check of the quantile orientation)."""
    w = [eta ** (N - i) for i in range(1, N + 1)]
    out = []
    for mask in range(1 << N):
        ones = [i for i in range(N) if mask >> i & 1]
        v = (1 - eta) * math.fsum(w[i] for i in ones)
        out.append((v, p ** len(ones) * (1 - p) ** (N - len(ones))))
    out.sort()
    return out


def quantile_band(dist, lo_u, hi_u):
    """[Q(lo_u), Q+(hi_u)] of a discrete distribution given as sorted
    (value, prob): Q(u) = inf{x: F(x) >= u}, Q+(u) = sup{x: F(x-) <= u}."""
    lo = hi = None
    acc = 0.0
    for v, pr in dist:
        if hi is None or acc <= hi_u:  # F(v-) = acc
            hi = v
        acc += pr
        if lo is None and acc >= lo_u:
            lo = v
    if lo is None:
        lo = dist[-1][0]
    if lo_u <= 0:
        lo = dist[0][0]
    return lo, hi


class LFRModel:
    def __init__(
        self,
        time_decay_factor=0.9,
        warning_level=0.05,
        detect_level=0.05,
        burn_in=50,
        num_mc=10000,
        subsample=1,
        rates_tracked=RATES,
        round_val=4,
    ):
        self.eta = time_decay_factor
        # the exact binary value of the parameter: what a correct float implementation approximates
        self.eta_q = Fraction(float(time_decay_factor))
        # "dyadic-closed" configurations: a decay factor with a tiny power-of-two denominator
        # (0, 1/4, 1/2, 3/4, 1).  Float arithmetic on it is exact as long as the numbers stay
        # inside 53 bits, which ``_exact_now`` verifies per comparison (long histories leave
        # that regime; comparisons are then ordinary tolerance comparisons).
        self.eta_bits = self.eta_q.denominator.bit_length() - 1
        self.dyadic = self.eta_bits <= 4
        self.warning_level = warning_level
        self.detect_level = detect_level
        self.burn_in = burn_in
        self.num_mc = num_mc
        self.subsample = subsample
        self.tracked = tuple(rates_tracked)
        self.round_val = round_val
        self.cache = {}  # (rounded rate key, N) -> (bounds, epoch created, exact rate used)
        self.total = 0
        self.epochs = 0
        self.drifts = 0
        self.all_states = []
        self.state = None
        self.diag = {}
        self.compact = False
        self._epoch()

    def __deepcopy__(self, memo):
        """Snapshot without walking the (immutable) cache entries and Fractions one by one."""
        new = object.__new__(type(self))
        new.__dict__.update(self.__dict__)
        new.cache = dict(self.cache)  # values are tuples of floats / ints / Fractions
        new.all_states = list(self.all_states)
        new.C = [list(self.C[0]), list(self.C[1])]
        new.R = dict(self.R)
        new.recs = list(self.recs)
        new.diag = dict(self.diag)
        return new

    def next_is_tested(self):
        """Will the next sample be tested against bounds (does the next step take decisions)?"""
        since = 1 if self.state == "drift" else self.since + 1
        return since > self.burn_in and since % self.subsample == 0

    def _epoch(self):
        self.epochs += 1
        self.since = 0
        self.state = None
        self.C = [[1, 1], [1, 1]]  # [pred][true]
        self.R = {r: HALF for r in self.tracked}
        self.recs = [None, None]

    def _exact_now(self, R, N):
        """True when the detector's float arithmetic for this comparison is provably exact:
        dyadic decay factor, the statistic R a dyadic rational of < 50 bits (every earlier
        value of it had fewer), and every simulated value (1-eta)*sum eta^(N-i) b_i a
        multiple of 2^-((N-1)*bits+bits) below 1, i.e. < 50 bits as well.  Then both sides
        hold bit-identical statistics and bounds, and a statistic exactly on a bound is
        enforced as "not outside"."""
        if not self.dyadic:
            return False
        if R.denominator.bit_length() > 50:
            return False
        return N * self.eta_bits <= 48

    def bounds(self, p, N, diag):
        k, tie = rounded_key(p, self.round_val)
        if tie:
            diag["rounding_ties"] += 1
        key = (k, N)
        hit = self.cache.get(key)
        if hit is not None:
            diag["cache_hits"] += 1
            if hit[1] != self.epochs:
                diag["cache_hits_after_reset"] += 1
            if hit[2] != p:
                diag["cache_hits_other_exact_rate"] += 1
            return hit[0]
        diag["simulations"] += 1
        b = simulate_bounds(
            self.eta, p.numerator / p.denominator, N, self.num_mc, self.warning_level, self.detect_level
        )
        self.cache[key] = (b, self.epochs, p)
        # what was simulated at this step (the caller may compare it with the detector's own cache entry)
        diag["new_bounds"] = diag["new_bounds"] + [(k, N, p, b)]
        return b

    def step(self, ev, D):
        yt, yp = ev >> 1, ev & 1
        diag = dict.fromkeys(
            (
                "eligible", "simulations", "cache_hits", "cache_hits_after_reset",
                "cache_hits_other_exact_rate", "rounding_ties", "lb_warn", "ub_warn",
                "lb_detect", "ub_detect", "stat_updates", "stat_kept",
                "tie_lb_warn", "tie_ub_warn", "tie_lb_detect", "tie_ub_detect",
            ),
            0,
        )
        diag["new_bounds"] = []
        if self.state == "drift":
            self._epoch()
        self.total += 1
        self.since += 1
        old = {r: rate_of(self.C, r) for r in self.tracked}
        self.C[yp][yt] += 1
        new = {r: rate_of(self.C, r) for r in self.tracked}
        hit = 1 if yt == yp else 0
        eligible = self.since > self.burn_in and self.since % self.subsample == 0
        warn = alarm = False
        detail = {}
        for r in self.tracked:
            if new[r][0] != old[r][0]:
                R = self.eta_q * self.R[r] + (1 - self.eta_q) * hit
                if R.denominator.bit_length() > R_EXACT_BITS:
                    # long epoch: keep the numbers bounded (module docstring, round-3b)
                    R = Fraction(round(R * (1 << R_GRID_BITS)), 1 << R_GRID_BITS)
                self.R[r] = R
                diag["stat_updates"] += 1
            else:
                diag["stat_kept"] += 1
            if eligible:
                diag["eligible"] = 1
                p, N = new[r]
                lbw, ubw, lbd, ubd = self.bounds(p, N, diag)
                R = float(self.R[r])
                ex = self._exact_now(self.R[r], N)
                f = [
                    D.lt(R, lbw, exact=ex), D.gt(R, ubw, exact=ex),
                    D.lt(R, lbd, exact=ex), D.gt(R, ubd, exact=ex),
                ]
                for name, v, b in zip(("lb_warn", "ub_warn", "lb_detect", "ub_detect"), f, (lbw, ubw, lbd, ubd)):
                    diag[name] += 1 if v else 0
                    if ex and R == b:  # statistic exactly on a bound, exact arithmetic: enforced strictly
                        diag["tie_" + name] += 1
                warn = warn or f[0] or f[1]
                alarm = alarm or f[2] or f[3]
                detail[r] = {"rate": str(p), "N": N, "R": R, "bounds": [lbw, ubw, lbd, ubd], "flags": f}
        self.state = "drift" if alarm else ("warning" if warn else None)
        self.all_states.append(self.state)
        idx = self.total - 1
        if self.state == "warning" and self.recs[0] is None:
            self.recs[0] = idx
        if self.state == "drift":
            self.drifts += 1
            self.recs[1] = idx
            if self.recs[0] is None:
                self.recs[0] = idx
        diag["near"] = len(D.near)
        diag["flipped"] = len(D.flips)
        self.diag = diag
        out = {
            "state": self.state,
            "recs": list(self.recs),
            "total": self.total,
            "since": self.since,
            "_detail": detail,
        }
        if self.compact:
            out["all_len"] = len(self.all_states)
            out["all_tail"] = self.all_states[-TAIL:]
        else:
            out["all_states"] = list(self.all_states)
        return out
