"""Executable specification of the Histogram Density Method (HDDDM / CDBD).

DESIGN §4 C07, §2.5.  Plain Python over the *pooled reference array* and the
list of (distance, per-feature distances) of the current epoch; thresholds are
recomputed from scratch from the epoch's epsilons at every batch (no running
totals, no drift-index bookkeeping): with s = number of batches counted in the
epoch (a detect_batch=1 proxy batch counts), the divisor of the paper's
``1/(t - lambda - 1)`` scaling is simply ``s - 1``.

Trusted primitives: numpy.histogram, scipy.stats.t.ppf, DataFrame.sample (the
documented draw protocol of the bootstrap, DESIGN §2.3).

Every drift decision goes through the Decider ``D``.
"""
import math

import numpy as np
import pandas as pd
import scipy.stats

SQRT2 = math.sqrt(2.0)
SQRTLN2 = math.sqrt(math.log(2.0))
ABS_TIE = 1e-12  # epsilon and beta are O(1) quantities known to ~1e-15 absolute


def hellinger(ref_counts, test_counts):
    r = np.asarray(ref_counts, dtype=float)
    t = np.asarray(test_counts, dtype=float)
    p = r / r.sum()
    q = t / t.sum()
    return math.sqrt(float(np.sum((np.sqrt(q) - np.sqrt(p)) ** 2)))


def _kl(x, m):
    s = 0.0
    for a, b in zip(x.tolist(), m.tolist()):
        if a > 0.0:
            s += a * math.log(a / b)
    return s


def jensen_shannon(ref_counts, test_counts):
    """Jensen-Shannon *distance* (square root of the divergence), natural log."""
    r = np.asarray(ref_counts, dtype=float)
    t = np.asarray(test_counts, dtype=float)
    p = r / r.sum()
    q = t / t.sum()
    m = (p + q) / 2.0
    v = (_kl(p, m) + _kl(q, m)) / 2.0
    return math.sqrt(v) if v > 0.0 else 0.0


def bound_of(divergence):
    if divergence == "H":
        return SQRT2
    if divergence == "KL":
        return SQRTLN2
    return None


class HDMModel:
    """lam_mode "spec": a new epoch starts at every drift *and* at every
    set_reference.  lam_mode "stale-set_reference" reproduces the known
    behaviour of the pinned tree (DESIGN §5 item 6: set_reference on a used
    object keeps the drift index of the previous epoch) and is used only to
    *classify* a disagreement, never to accept one."""

    def __init__(self, detect_batch, statistic, significance, subsets, divergence,
                 lam_mode="spec"):
        self.db = detect_batch
        self.statistic = statistic
        self.sig = significance
        self.subsets = subsets
        self.divergence = divergence
        if divergence == "H":
            self.div = hellinger
        elif divergence == "KL":
            self.div = jensen_shannon
        else:
            self.div = divergence  # the user's function: f(reference_hist, test_hist)
        self.lam_mode = lam_mode
        # argument order inside the bootstrap pairs (undocumented; only matters for an asymmetric user
        # function): False = (earlier subset, later subset) as implemented, True = the other way round
        self.boot_swap = False
        self.total = 0
        self.since = 0
        self.state = None
        self.ref = None
        self.epoch = []  # [(distance, [feature distances])] of the current epoch
        self.eps = []  # true epsilons of the current epoch
        self.e0 = None
        self.distances = {}
        self.epsilon_values = {}
        self.thresholds = {}
        self.last_drift_index = 0  # only for lam_mode "stale-set_reference"
        # coverage bookkeeping (not part of the specification)
        self.drifts = 0
        self.epochs = 0
        self.setrefs = 0
        self.used = False

    # ------------------------------------------------------------------ helpers
    def _hists(self, data, los, his, bins):
        out = []
        for f in range(data.shape[1]):
            if los[f] == his[f]:
                # zero range (a feature that is constant over reference and batch): whatever common
                # edges span the single value, all the mass of both sides lies in one and the same bin
                # (which one is irrelevant to every bin-permutation-invariant divergence)
                out.append(np.array([len(data)] + [0] * (bins - 1)))
            else:
                out.append(np.histogram(data[:, f], bins=bins, range=(los[f], his[f]))[0])
        return out

    def _bootstrap(self, ref, los, his, bins):
        n = len(ref)
        size = ((self.subsets - 1) * n) // self.subsets  # floor((1 - 1/subsets) n)
        frame = pd.DataFrame(ref)
        hs = []
        for _ in range(self.subsets):
            sub = frame.sample(n=size, replace=True).to_numpy()
            hs.append(self._hists(sub, los, his, bins))
        F = ref.shape[1]
        dist = []
        for i in range(len(hs)):
            for j in range(i + 1, len(hs)):
                # NB: the sum over the features, not their mean (as implemented;
                # the estimate is an input of the property, see check assumptions)
                a, b = (j, i) if self.boot_swap else (i, j)
                dist.append(sum(float(self.div(hs[a][f], hs[b][f])) for f in range(F)))
        e = 0.0
        for a in range(len(dist)):
            for b in range(a + 1, len(dist)):
                e += abs(dist[a] - dist[b])
        return e / self.subsets

    def _new_epoch(self):
        self.epochs += 1
        self.since = 0
        self.state = None
        self.epoch = []
        self.eps = []
        self.e0 = None
        info = {}
        if self.db == 1:
            h = len(self.ref) // 2
            proxy = self.ref[h:]
            self.ref = self.ref[:h]
            info = self._batch(proxy, None, None, proxy=True)
        return info

    # ------------------------------------------------------------------ events
    def set_reference(self, X):
        X = np.array(X, dtype=float)
        if X.ndim == 1:
            X = X.reshape(-1, 1)
        self.setrefs += 1
        self.ref = X.copy()
        info = self._new_epoch()
        exp = self._common()
        exp["reference_n"] = len(self.ref)
        if self.db == 1:
            exp["current_distance"] = info["d"]
            exp["_proxy"] = 1
        return exp

    def update(self, X, D, reseed=None):
        X = np.array(X, dtype=float)
        if X.ndim == 1:
            X = X.reshape(-1, 1)
        proxies = 0
        if self.state == "drift":
            self._new_epoch()
            if self.db == 1:
                proxies = 1
        if reseed is not None:
            reseed()
        info = self._batch(X, D, reseed)
        exp = self._common()
        exp["current_distance"] = info["d"]
        if "beta" in info:
            exp["beta"] = info["beta"]
        if self.state != "drift":
            exp["reference_n"] = len(self.ref)
        else:
            # the attribute is refreshed when the next epoch starts; until then either the size of
            # the replaced reference or of the new one is accepted, nothing else
            exp["_reference_n_any_of"] = [info["n_ref"], len(X)]
        if "feps" in info:
            exp["feature_epsilons"] = info["feps"]
        if self.state == "drift" and X.shape[1] > 1:
            exp["_feature_info"] = {
                "Epsilons": info["feps"],
                "Feature_Distances": info["fd"],
                "argmax": info["argmax"],
            }
        exp["_fd"] = info["fd"]
        exp["_proxy"] = proxies
        exp["_n_ref_before"] = info["n_ref"]
        exp["_bins"] = info["bins"]
        if "e0" in info:
            exp["_e0"] = info["e0"]
        if "eps" in info:
            exp["_eps"] = info["eps"]
        exp["_removed_e0"] = info.get("removed_e0", False)
        if "sd" in info:
            exp["_sd"] = info["sd"]
            exp["_dof"] = info["dof"]
        return exp

    def _common(self):
        return {
            "state": self.state,
            "total": self.total,
            "since": self.since,
            "distances": {str(k): v for k, v in self.distances.items()},
            "epsilon_values": {str(k): v for k, v in self.epsilon_values.items()},
            "thresholds": {str(k): v for k, v in self.thresholds.items()},
        }

    # ------------------------------------------------------------------ one batch
    def _batch(self, X, D, reseed, proxy=False):
        self.used = True
        self.total += 1
        self.since += 1
        ref = self.ref
        F = ref.shape[1]
        n_ref = len(ref)
        bins = math.isqrt(n_ref)
        los = [min(float(ref[:, f].min()), float(X[:, f].min())) for f in range(F)]
        his = [max(float(ref[:, f].max()), float(X[:, f].max())) for f in range(F)]
        hr = self._hists(ref, los, his, bins)
        ht = self._hists(X, los, his, bins)
        fd = [float(self.div(hr[f], ht[f])) for f in range(F)]
        d = sum(fd) / F
        self.distances[self.total] = d
        info = {"d": d, "fd": fd, "n_ref": n_ref, "bins": bins}
        drift = False
        s = self.since
        if s >= 2:
            prev_d, prev_fd = self.epoch[-1]
            feps = [a - b for a, b in zip(fd, prev_fd)]
            info["feps"] = feps
            m = max(feps)
            info["argmax"] = [
                i for i, v in enumerate(feps)
                if abs(v - m) <= max(1e-12, 1e-9 * max(abs(v), abs(m)))
            ]
            ce = abs(d - prev_d)
            info["eps"] = ce
            self.epsilon_values[self.total] = ce
            if s == 2 and self.db != 3:
                self.e0 = self._bootstrap(ref, los, his, bins)
                info["e0"] = self.e0
            if s >= max(2, self.db):
                if s == 2:
                    hist = [self.e0]
                else:
                    hist = list(self.eps)  # bootstrap value no longer takes part
                    if s == 3 and self.db != 3:
                        info["removed_e0"] = True
                k = s - 1
                if self.lam_mode != "spec" and not (s == 2 and self.db != 3):
                    k = self.total - self.last_drift_index - 1
                eh = sum(hist) / k
                sd = math.sqrt(sum((e - eh) ** 2 for e in hist) / k)
                if self.statistic == "tstat":
                    q = float(scipy.stats.t.ppf(1.0 - self.sig / 2.0, n_ref + len(X) - 2))
                    beta = eh + q * (sd / math.sqrt(k))
                else:
                    beta = eh + self.sig * sd
                info["beta"] = beta
                info["sd"] = sd
                info["dof"] = n_ref + len(X) - 2
                self.thresholds[self.total] = beta
                all_zero = (
                    ce == 0.0 and beta == 0.0 and d == 0.0
                    and all(x[0] == 0.0 for x in self.epoch)
                )
                if all_zero:
                    # both sides are exactly 0.0 in any faithful evaluation
                    drift = D.gt(ce, beta, exact=True)
                elif abs(ce - beta) <= ABS_TIE:
                    # absolute accuracy of the distances is ~1e-15: undecidable
                    drift = D.gt(beta, beta, exact=False)
                else:
                    drift = D.gt(ce, beta)
            self.eps.append(ce)
        if drift:
            self.state = "drift"
            self.drifts += 1
            self.ref = X.copy()
            self.last_drift_index = self.total
        else:
            self.epoch.append((d, fd))
            self.ref = np.vstack([ref, X])
        return info
