"""Reference model of the kdq-tree partitioner and the kdq-tree detectors
(DESIGN §4 C08 / C09, §2.3 draw protocol, §2.5).

Plain Python, deliberately not mirroring the implementation:

* the tree is a dict ``path -> Split`` (paths are strings over {"L","R"}); node
  counts are obtained by walking **every point individually** from the root;
* midpoints are exact ``Fraction``s of the routed points' range (callers that
  must reproduce the implementation's float midpoints on adversarial data pass
  them in through ``mids``);
* the *shape* (which nodes are leaves) is an input: the properties fix only
  "a node holding count_ubound points or fewer is not split"; everything else
  about the stop rule is left to the implementation.  ``ModelTree`` therefore
  takes the shape observed on the real tree and *validates* it against what the
  property does fix (ShapeError otherwise);
* corrected distributions are exact Fractions, the Kullback-Leibler divergence
  is ``fsum(p * ln(p / q))``;
* the bootstrap critical value consumes ``numpy.random`` through the documented
  draw protocol: ``bootstrap_samples`` draws of ``choice(leaves, 2n, p=ref_dist)``,
  first n against last n, ``np.quantile(., 1 - alpha, method="nearest")``.
"""
import math
from fractions import Fraction

import numpy as np


class ShapeError(Exception):
    """The observed tree shape contradicts what the property fixes."""

    def __init__(self, sub, msg, expected=None, observed=None):
        super().__init__(msg)
        self.sub = sub
        self.msg = msg
        self.expected = expected
        self.observed = observed


# ---------------------------------------------------------------- distributions


def corrected(counts):
    """Dasu's corrected empirical distribution (c_i + 1/2) / (n + L/2), exact."""
    counts = [int(c) for c in counts]
    den = 2 * sum(counts) + len(counts)
    return [Fraction(2 * c + 1, den) for c in counts]


def kl(p, q):
    """Kullback-Leibler divergence sum p_i ln(p_i / q_i) of two Fraction vectors."""
    terms = []
    for a, b in zip(p, q):
        if a == b:
            continue  # p ln 1 = 0 exactly
        terms.append(float(a) * math.log(a / b))
    return math.fsum(terms) if terms else 0.0


def kl_counts(c1, c2):
    return kl(corrected(c1), corrected(c2))


def kss(c_ref, n_ref, c_test, n_test):
    """Kulldorff statistic of one node: corrected KL between the two-cell
    (node vs. rest) distributions of the reference and the test counts."""
    return kl_counts([c_ref, n_ref - c_ref], [c_test, n_test - c_test])


# ------------------------------------------------------------------------ tree


def shape_paths(shape, path=""):
    """All node paths of a shape (None = leaf, (left, right) = internal), pre-order."""
    out = [path]
    if shape is not None:
        out += shape_paths(shape[0], path + "L")
        out += shape_paths(shape[1], path + "R")
    return out


class ModelTree:
    """kdq-tree over ``points`` (list of equal-length tuples of floats).

    shape : None (leaf) or (left_shape, right_shape), as observed on the real tree.
    mids  : optional dict path -> float; when given these split values are used
            for routing (after being validated against the exact midpoint),
            otherwise the exact midpoint Fraction is used.
    """

    def __init__(self, points, dim, count_ubound, shape, mids=None, mid_ok=None):
        """mid_ok : optional predicate (mid, lo, hi, exact) -> bool deciding whether an observed split value
        counts as "the midpoint" of the node's range [lo, hi] (Fractions); families at unusual scales / dtypes
        pass a tolerance that reflects the float error of a correct implementation there.  Default: inside
        [lo, hi] and within relative 1e-9 of the exact midpoint."""
        self.dim = dim
        self.ub = count_ubound
        self.mid_ok = mid_ok
        self.points = [tuple(p) for p in points]
        self.splits = {}  # path -> (axis, mid)
        self.exact_mid = {}  # path -> Fraction
        self.leaves = []  # paths, left to right
        self.nodes = []  # paths, pre-order
        self._grow("", 0, self.points, shape, mids)
        self.ref = self.route_counts(self.points)

    def _grow(self, path, depth, pts, shape, mids):
        self.nodes.append(path)
        if shape is None:
            self.leaves.append(path)
            return
        n = len(pts)
        if n <= self.ub:
            raise ShapeError(
                "small-node-split",
                "node %r holds %d <= count_ubound=%d points but is split" % (path, n, self.ub),
                expected="leaf",
                observed="internal",
            )
        axis = depth % self.dim
        vals = [Fraction(p[axis]) for p in pts]
        lo, hi = min(vals), max(vals)
        exact = (lo + hi) / 2
        self.exact_mid[path] = exact
        if mids is not None:
            mid = mids[path]
            if mid is not None and self.mid_ok is not None:
                good = bool(self.mid_ok(mid, lo, hi, exact))
            else:
                good = mid is not None and (lo <= Fraction(mid) <= hi) and _close_frac(mid, exact)
            if not good:
                raise ShapeError(
                    "midpoint",
                    "node %r (depth %d, axis %d) splits at %r, midpoint of its points' range [%r, %r] is %r"
                    % (path, depth, axis, mid, float(lo), float(hi), float(exact)),
                    expected=float(exact),
                    observed=mid,
                )
            cut = Fraction(mid)
        else:
            cut = exact
        self.splits[path] = (axis, cut)
        left = [p for p in pts if Fraction(p[axis]) <= cut]
        right = [p for p in pts if Fraction(p[axis]) > cut]
        if not left or not right:
            raise ShapeError(
                "empty-side",
                "node %r is split at %r but all %d of its points fall on one side" % (path, float(cut), n),
                expected="both cells non-empty (or a leaf)",
                observed=[len(left), len(right)],
            )
        self._grow(path + "L", depth + 1, left, shape[0], mids)
        self._grow(path + "R", depth + 1, right, shape[1], mids)

    # -- routing of single points
    def leaf_of(self, x):
        path = ""
        while path in self.splits:
            axis, cut = self.splits[path]
            path += "L" if Fraction(x[axis]) <= cut else "R"
        return path

    def route_counts(self, points):
        """dict path -> number of the given points whose cell is inside the node."""
        c = {p: 0 for p in self.nodes}
        for x in points:
            leaf = self.leaf_of(x)
            for k in range(len(leaf) + 1):
                c[leaf[:k]] += 1
        return c

    def leaf_counts(self, node_counts):
        return [node_counts[p] for p in self.leaves]

    def canon(self):
        return (
            tuple(sorted((p, a, m) for p, (a, m) in self.splits.items())),
            tuple(self.ref[p] for p in self.nodes),
        )

    def __deepcopy__(self, memo):
        # never mutated after construction (route_counts / leaf_counts build new dicts): snapshots share it
        return self


def _close_frac(x, exact, rel=1e-9):
    d = abs(Fraction(x) - exact)
    return d <= max(abs(exact) * Fraction(rel), Fraction(1, 10**300))


class Counts:
    """Per tree-id node counts of a ModelTree under a history of fills."""

    def __init__(self, tree):
        self.tree = tree
        self.by_id = {"build": dict(tree.ref)}

    def fill(self, points, tree_id, reset):
        c = self.tree.route_counts([tuple(p) for p in points])
        if reset or tree_id not in self.by_id:
            self.by_id[tree_id] = c
        else:
            old = self.by_id[tree_id]
            self.by_id[tree_id] = {p: old[p] + c[p] for p in old}
        return c

    def leaf_counts(self, tree_id):
        return self.tree.leaf_counts(self.by_id[tree_id])

    def snapshot(self):
        return {k: dict(v) for k, v in self.by_id.items()}

    def restore(self, snap):
        self.by_id = {k: dict(v) for k, v in snap.items()}


# ------------------------------------------------------------- critical value


def critical_value(ref_leaf_counts, n, bootstrap_samples, alpha):
    """Bootstrap bound through the documented draw protocol (consumes the global
    numpy RNG; seed it immediately before calling).

    Returns (critical value, list of (counts1, counts2) pairs attaining it)."""
    L = len(ref_leaf_counts)
    p = np.array([float(f) for f in corrected(ref_leaf_counts)])
    leaves = list(range(L))
    vals = []
    pairs = []
    for _ in range(bootstrap_samples):
        s = np.random.choice(leaves, size=2 * n, p=p)
        c1 = tuple(int(v) for v in np.bincount(s[:n], minlength=L))
        c2 = tuple(int(v) for v in np.bincount(s[n:], minlength=L))
        vals.append(kl_counts(c1, c2))
        pairs.append((c1, c2))
    crit = float(np.quantile(vals, 1 - alpha, method="nearest"))
    wit = [pr for v, pr in zip(vals, pairs) if v == crit]
    return crit, wit


def _tie_is_exact(d, crit, ref_counts, test_counts, witnesses):
    """A tie between the divergence and the bound is mathematically exact (and
    bit-exact for any implementation that computes both sides with one routine)
    when both come from identical count vectors, or both are exactly zero."""
    if d == 0.0 and crit == 0.0:
        return True
    pair = (tuple(ref_counts), tuple(test_counts))
    return any(pair == w for w in witnesses)


# ----------------------------------------------------------------- detectors


class _Reference:
    """Reference tree + bound; adopted from a point list and the observed shape."""

    def __init__(self, points, dim, ub, shape, n, bootstrap_samples, alpha, seed):
        self.tree = ModelTree(points, dim, ub, shape)
        self.ref_leaf = self.tree.leaf_counts(self.tree.ref)
        np.random.seed(seed)
        self.crit, self.wit = critical_value(self.ref_leaf, n, bootstrap_samples, alpha)

    def divergence(self, test_node_counts):
        t = self.tree.leaf_counts(test_node_counts)
        d = kl_counts(self.ref_leaf, t)
        return d, _tie_is_exact(d, self.crit, self.ref_leaf, t, self.wit)

    def __deepcopy__(self, memo):
        # immutable after construction: the per-step model copies of lockstep / the explorer share it
        return self


class KdqBatchModel:
    """KdqTreeBatch: drift iff KL(reference || batch) over the reference leaves
    exceeds the bootstrap bound (sample size = reference size); the drifted
    batch becomes the reference at the next update."""

    def __init__(self, alpha, bootstrap_samples, count_ubound, dim):
        self.alpha = alpha
        self.B = bootstrap_samples
        self.ub = count_ubound
        self.dim = dim
        self.total = 0
        self.since = 0
        self.state = None
        self.R = None
        self.next_ref = None
        self.test = None
        self.d = None
        self.epochs = 0
        self.exact_tie = False

    def _adopt(self, pts, shape, seed):
        if shape is False:
            raise ShapeError("reference-tree", "no reference tree observable where one must exist")
        pts = [tuple(p) for p in pts]
        self.R = _Reference(pts, self.dim, self.ub, shape, len(pts), self.B, self.alpha, seed)
        self.test = None
        self.d = None
        self.epochs += 1

    def set_reference(self, pts, D, shape, seed):
        self.exact_tie = False
        self._adopt(pts, shape, seed)
        self.state = None
        self.since = 0
        return self.obs()

    def update(self, pts, D, shape, seed):
        self.exact_tie = False
        if self.state == "drift":
            self._adopt(self.next_ref, shape, seed)
            self.state = None
            self.since = 0
        self.total += 1
        self.since += 1
        if self.R is None:
            # the first batch doubles as the reference (DESIGN §2.5)
            self._adopt(pts, shape, seed)
            self.since = 0
            return self.obs()
        self.test = self.R.tree.route_counts([tuple(p) for p in pts])
        self.d, exact = self.R.divergence(self.test)
        self.exact_tie = exact and self.d == self.R.crit
        if D.gt(self.d, self.R.crit, exact=exact):
            self.state = "drift"
            self.next_ref = [tuple(p) for p in pts]
        return self.obs()

    def obs(self):
        return {"state": self.state, "total": self.total, "since": self.since}

    def canon(self):
        return (
            self.total,
            self.since,
            self.state,
            None if self.R is None else (self.R.tree.canon(), self.R.crit),
            None if self.test is None else tuple(self.R.tree.leaf_counts(self.test)),
            None if self.next_ref is None or self.state != "drift" else tuple(self.next_ref),
        )


class KdqStreamModel:
    """KdqTreeStreaming: the first window_size samples of an epoch build the
    tree; test counts accumulate; from the window_size-th test sample on a
    counter of *consecutive* samples whose divergence exceeds the bound is kept
    (a sample at or below the bound resets it); drift iff the counter exceeds
    persistence * window_size; after a drift everything starts over."""

    def __init__(self, window_size, persistence, alpha, bootstrap_samples, count_ubound, dim):
        self.w = window_size
        self.persistence = persistence
        self.alpha = alpha
        self.B = bootstrap_samples
        self.ub = count_ubound
        self.dim = dim
        self.total = 0
        self.epochs = 0
        self.drifts = 0
        self._epoch()

    def _epoch(self):
        self.epochs += 1
        self.since = 0
        self.state = None
        self.buf = []
        self.R = None
        self.test = None
        self.ntest = 0
        self.run = 0  # consecutive samples above the bound
        self.cum = 0  # shadow: samples above the bound since the window filled (never reset)
        self.trail = ""  # 'a' above / 'b' at-or-below, per evaluated sample of the epoch
        self.d = None
        self.inrow_matters = False
        self.exact_tie = False

    def step(self, x, D, shape, seed):
        if self.state == "drift":
            self._epoch()
        self.total += 1
        self.since += 1
        self.inrow_matters = False
        self.exact_tie = False
        x = tuple(x)
        if self.R is None:
            self.buf.append(x)
            if len(self.buf) == self.w:
                if shape is False:
                    raise ShapeError("reference-tree", "no reference tree observable where one must exist")
                self.R = _Reference(self.buf, self.dim, self.ub, shape, self.w, self.B, self.alpha, seed)
                self.test = {p: 0 for p in self.R.tree.nodes}
                self.buf = []
                self.since = 0  # reference adoption restarts the counter
        else:
            leaf = self.R.tree.leaf_of(x)
            for k in range(len(leaf) + 1):
                self.test[leaf[:k]] += 1
            self.ntest += 1
            if self.ntest >= self.w:
                self.d, exact = self.R.divergence(self.test)
                self.exact_tie = exact and self.d == self.R.crit
                bound = Fraction(self.persistence) * self.w
                bexact = bound.denominator == 1
                if D.gt(self.d, self.R.crit, exact=exact):
                    self.run += 1
                    self.cum += 1
                    self.trail += "a"
                    drift = D.gt(self.run, float(bound), exact=bexact)
                    # would the non-consecutive reading decide differently?
                    self.inrow_matters = (self.cum > bound) != (self.run > bound)
                    if drift:
                        self.state = "drift"
                        self.drifts += 1
                else:
                    self.run = 0
                    self.trail += "b"
        return self.obs()

    def obs(self):
        return {"state": self.state, "total": self.total, "since": self.since}

    def canon(self):
        return (
            self.total,
            self.since,
            self.state,
            tuple(self.buf),
            None if self.R is None else (self.R.tree.canon(), self.R.crit),
            None if self.test is None else tuple(self.R.tree.leaf_counts(self.test)),
            self.ntest,
            self.run,
            self.cum,
        )
