"""Voting rules of menelaus.ensemble.election as plain functions (DESIGN §4 C13).

Written from the C13 property statement, not from the implementation: the
three stateless rules are one-line counting predicates over the list of member
states; ConfirmedElection is a small per-member state machine that keeps, for
every member, how many *further* voting calls its last alarm still entitles it
to (``left``) -- the implementation keeps the number of calls since the alarm
instead, ``expected_counters`` translates.

A member state is ``None``, ``"warning"`` or ``"drift"``.
"""

DRIFT = "drift"
WARNING = "warning"


def n_drift(states):
    return sum(1 for s in states if s == DRIFT)


def simple_majority(states):
    """drift iff strictly more than half of the members report drift."""
    return DRIFT if 2 * n_drift(states) > len(states) else None


def minimum_approval(states, approvals_needed):
    """drift iff at least ``approvals_needed`` members report drift."""
    return DRIFT if n_drift(states) >= approvals_needed else None


def ordered_approval(states, approvals_needed, confirmations_needed):
    """drift iff at least approvals_needed + confirmations_needed members report drift."""
    return DRIFT if n_drift(states) >= approvals_needed + confirmations_needed else None


class ConfirmedModel:
    """ConfirmedElection(sensitivity, wait_time) as the property words it.

    A member is a *voter* in the call in which it newly reports drift (it was
    not waiting) and in each of its next ``wait_time`` calls in which it does
    not report warning; a call in which it reports warning counts it as a
    warning instead and does not use up waiting time.  Verdict: drift when the
    voters reach ``sensitivity``, warning when voters plus warnings reach it,
    None otherwise.
    """

    def __init__(self, sensitivity, wait_time):
        self.sensitivity = sensitivity
        self.wait_time = wait_time
        self.left = None  # per member: further voting calls its alarm still grants
        self.calls = 0

    def canon(self):
        return None if self.left is None else tuple(self.left)

    def step(self, states):
        """-> dict(verdict, counters, voters, warnings, + bookkeeping for counters)."""
        if self.left is None:
            self.left = [0] * len(states)
        self.calls += 1
        voters = []
        warnings = []
        info = {"warned_while_waiting": 0, "expired": 0, "alarms": 0, "waiting_votes": 0}
        for i, s in enumerate(states):
            if s == WARNING:
                warnings.append(i)
                if self.left[i] > 0:
                    info["warned_while_waiting"] += 1
            elif self.left[i] > 0:
                voters.append(i)
                self.left[i] -= 1
                info["waiting_votes"] += 1
                if self.left[i] == 0:
                    info["expired"] += 1
            elif s == DRIFT:
                voters.append(i)
                self.left[i] = self.wait_time
                info["alarms"] += 1
                if self.wait_time == 0:
                    info["expired"] += 1
        if len(voters) >= self.sensitivity:
            verdict = DRIFT
        elif len(voters) + len(warnings) >= self.sensitivity:
            verdict = WARNING
        else:
            verdict = None
        out = {
            "verdict": verdict,
            "counters": self.expected_counters(),
            "voters": voters,
            "warnings": warnings,
        }
        out.update(info)
        return out

    def expected_counters(self):
        """wait_period_counters: calls since each member's alarm (the alarm call
        is 1), 0 when idle."""
        if self.left is None:
            return None
        return [0 if l == 0 else self.wait_time + 1 - l for l in self.left]


def make_model(kind, params):
    """Uniform callable ``f(states) -> verdict`` for the ensemble check (C12)."""
    if kind == "SimpleMajority":
        return _Stateless(simple_majority)
    if kind == "MinimumApproval":
        return _Stateless(minimum_approval, params["approvals_needed"])
    if kind == "OrderedApproval":
        return _Stateless(ordered_approval, params["approvals_needed"], params["confirmations_needed"])
    if kind == "Confirmed":
        return ConfirmedModel(params["sensitivity"], params["wait_time"])
    raise ValueError(kind)


class _Stateless:
    def __init__(self, fn, *args):
        self.fn = fn
        self.args = args

    def canon(self):
        return None

    def step(self, states):
        return {"verdict": self.fn(list(states), *self.args), "counters": None}
