"""Executable specification of PCA-CD (DESIGN §4 C11, §2.5) and of the internal
Page-Hinkley test it is wired to.

Plain Python over the raw rows of the two windows.  What is trusted: sklearn's
``PCA`` (fitted on the reference window exactly as the property says:
``n_components = ev_threshold``), ``numpy`` linear algebra, ``math``.
Everything else (window schedule, standardisation, per-component supports,
winsorising, histograms / kernel densities, Jensen-Shannon distance, maximum,
Page-Hinkley recurrence in exact rationals) is written out here and does not
share code or data structures with menelaus.

Numerical policy
----------------
* Projections are only defined up to the sign of each component and up to
  rounding in the last bits.  The intersection score is invariant under a sign
  flip of a component *except* for values that sit on an interior bin edge
  (numpy's bins are half-open), and those are exactly the values whose bin is
  numerically undecidable anyway.  The model therefore computes, for every
  component, the *set of admissible* count vectors (each value within ``EDGE_TOL``
  of an interior edge may fall on either side) and from them the set of
  admissible scores; the implementation's score must be one of them.  The
  kernel-density / Jensen-Shannon score is sign invariant and continuous.
* Exactly decidable bin edges.  The freedom above exists because projections are
  rounded.  Where they are not -- a retained component that is a signed unit
  vector (a quantised feature next to constant / uncorrelated ones), raw or
  power-of-two-standardised values, means and bin edges on a common dyadic grid
  (see ``PCACDModel._exact_setup``: every sum / difference any evaluation order
  forms is exact in binary64) -- a value that lies on an interior bin edge lies
  there *exactly* in both windows, and "two histograms built on the same bin
  edges" demands that it is counted on the same side in both.  For such a
  component the admissible count vectors are only the two *consistent*
  conventions (bins closed on the left, as numpy does, or closed on the right,
  which is also what a sign flip of the component amounts to), applied to the
  reference and the test window alike.  In particular a test window equal to the
  reference window then has the single admissible score 0, also when all its
  values sit on bin edges.
* Reference windows whose principal components are not numerically
  identifiable (zero variance, two retained eigenvalues equal, cumulative
  explained variance within 1e-9 of ``ev_threshold``) and kernel density
  estimates with zero bandwidth (a projected window without spread) are outside
  the specification: ``Undefined`` is raised and the caller closes the branch.
  "Zero" always means: not distinguishable from the rounding noise of the data,
  i.e. below ``SPREAD_TOL`` times the *magnitude of the data* (largest absolute
  value fed to the PCA, which carries the unit of measurement and the level of
  the stream) -- never an absolute number, so that the specification is the same
  function of the stream in any unit (1e-12 ... 1e12 are explored).
* The Page-Hinkley alarm ``ph_difference > threshold * mean`` is evaluated in
  exact rational arithmetic on the score that was fed; the decision goes through
  the Decider with an *absolute* margin (scores live in [0, 1]), exact zeros
  produced by ``min <- sum`` are enforced strictly.
"""
import itertools
import math
from fractions import Fraction

import numpy as np
from sklearn.decomposition import PCA

EDGE_TOL = 1e-9  # relative to the width of the support
GAP_TOL = 1e-6  # relative eigenvalue gap below which components are not identifiable
EV_TOL = 1e-9
PH_TOL = 1e-9
SPREAD_TOL = 1e-9  # spread below this fraction of the data's magnitude = no spread


class Undefined(Exception):
    """The specification does not define the next observable (ill-posed input)."""

    def __init__(self, reason):
        super().__init__(reason)
        self.reason = reason


# --------------------------------------------------------------------------- PH
class PageHinkleyModel:
    """Page-Hinkley, direction 'positive', burn_in 0 (as wired by PCA-CD)."""

    def __init__(self, delta, lam, burn_in=0):
        self.delta = Fraction(delta)
        self.lam = Fraction(lam)
        self.burn_in = burn_in
        self.reset()

    def reset(self):
        self.n = 0
        self.mean = Fraction(0)
        self.sum = Fraction(0)
        self.min = Fraction(0)

    def update(self, x, D):
        """Feed one score, return True iff the test alarms on it."""
        x = Fraction(x)
        self.n += 1
        self.mean = self.mean + (x - self.mean) / self.n
        self.sum = self.sum + x - self.mean - self.delta
        clearly_new_min = False
        if self.sum < self.min:
            clearly_new_min = (self.min - self.sum) > PH_TOL
            self.min = self.sum
        diff = self.sum - self.min
        theta = self.lam * self.mean
        # exact zero on both sides: 0 > 0 must be False (catches > vs >=)
        exact = diff == 0 and theta == 0 and (clearly_new_min or self.n == 1)
        alarm = D.gt(1.0 + float(diff), 1.0 + float(theta), exact=exact)
        self.last_diff = float(diff)
        self.last_theta = float(theta)
        return bool(alarm and self.n > self.burn_in)


# ------------------------------------------------------------------- densities
MAX_COUNT_VECTORS = 64  # admissible count vectors per window and component (see admissible_counts)


def admissible_counts(values, lo, hi, bins):
    """Set of admissible histogram count vectors of ``values`` on ``bins`` equal
    bins over [lo, hi] (first element of the returned list = straight numpy
    convention: half-open bins, last one closed).

    Values within EDGE_TOL of the same interior edge are interchangeable, so the set
    is enumerated per edge (how many of its undecidable values go up), not per value.
    More than MAX_COUNT_VECTORS vectors (a window with many values on undecidable
    edges, e.g. lattice data whose projections are not exact) is outside the
    specification: nothing definite can be said about the score."""
    width = hi - lo
    edges = [lo + width * j / bins for j in range(1, bins)]
    base = [0] * bins
    amb = [0] * (bins - 1)  # undecidable values per interior edge
    up = [0] * (bins - 1)  # of those, how many the straight convention puts in the upper bin
    for v in values:
        b = 0
        alt = None
        for j, e in enumerate(edges):
            if v >= e:
                b = j + 1
            if abs(v - e) <= EDGE_TOL * width:
                alt = j
        if alt is None or b not in (alt, alt + 1):
            base[b] += 1
        else:
            amb[alt] += 1
            if b == alt + 1:
                up[alt] += 1
    total = 1
    for a in amb:
        total *= a + 1
        if total > MAX_COUNT_VECTORS:
            raise Undefined("too many values on numerically undecidable bin edges")
    options = [[up[j]] + [k for k in range(amb[j] + 1) if k != up[j]] for j in range(bins - 1)]
    out = []
    seen = set()
    for choice in itertools.product(*options):
        c = list(base)
        for j, k in enumerate(choice):
            c[j + 1] += k
            c[j] += amb[j] - k
        c = tuple(c)
        if c not in seen:
            seen.add(c)
            out.append(c)
    return out


def intersection_scores(ref_counts, test_counts, n):
    """Admissible values of 1 - sum(min(p, q)) for sum-normalised histograms."""
    out = []
    for r in ref_counts:
        for t in test_counts:
            s = 1 - Fraction(sum(min(a, b) for a, b in zip(r, t)), n)
            if s not in out:
                out.append(s)
    return out


# ------------------------------------------------------- exactly decidable edges
EXACT_BITS = 40  # values / means / edges: integer multiples of one power of two q, |v| < 2^40 q


def _pow2(fr):
    """fr is a positive power of two (2^k, k any integer)."""
    if fr <= 0:
        return False
    n, d = fr.numerator, fr.denominator
    return (n == 1 or d == 1) and (n & (n - 1)) == 0 and (d & (d - 1)) == 0


def dyadic_grid_ok(frs, bits=EXACT_BITS):
    """All numbers are integer multiples of one power of two q with |v| < 2^bits * q:
    sums / differences of up to 2^(52 - bits) of them are exact in binary64 in any order."""
    maxden = 1
    for f in frs:
        d = f.denominator
        if d & (d - 1):
            return False
        if d > maxden:
            maxden = d
    lim = 1 << bits
    for f in frs:
        if abs(f.numerator) * (maxden // f.denominator) >= lim:
            return False
    return True


def exact_counts(values, lo, hi, bins):
    """Histogram counts of exact (Fraction) values on ``bins`` equal bins over
    [lo, hi] under the two consistent conventions: A = bins closed on the left, last
    bin closed (numpy), B = bins closed on the right, first bin closed.  Also
    returns the number of values lying exactly on an interior edge."""
    width = hi - lo
    A = [0] * bins
    B = [0] * bins
    ties = 0
    for v in values:
        t = (v - lo) * bins / width
        f = t.numerator // t.denominator
        on_edge = t.denominator == 1
        a = min(max(f, 0), bins - 1)
        b = min(max(f - 1 if on_edge else f, 0), bins - 1)
        if on_edge and 0 < f < bins:
            ties += 1
        A[a] += 1
        B[b] += 1
    return tuple(A), tuple(B), ties


def kde_density(values, mag=0.0):
    """Epanechnikov kernel density estimate of ``values`` evaluated at the values
    themselves, bandwidth 1.06 * s * n^(-1/5) (s = sample standard deviation).
    ``mag``: magnitude of the data the values were computed from (unit / level)."""
    n = len(values)
    m = sum(values) / n
    var = sum((v - m) ** 2 for v in values) / (n - 1)
    s = math.sqrt(var)
    scale = max(mag, max(abs(v) for v in values))
    if not (s > SPREAD_TOL * scale):
        raise Undefined("kernel bandwidth is zero (projected window has no spread)")
    h = 1.06 * s * n ** (-1.0 / 5.0)
    dens = []
    for x in values:
        acc = 0.0
        for y in values:
            u = (x - y) / h
            if abs(u) < 1.0:
                acc += 0.75 * (1.0 - u * u)
        dens.append(acc / (n * h))
    return dens


def js_distance(p, q):
    """Jensen-Shannon distance (natural logarithm) between two non-negative
    vectors after normalising each to sum 1."""
    sp = sum(p)
    sq = sum(q)
    p = [a / sp for a in p]
    q = [a / sq for a in q]
    tot = 0.0
    for a, b in zip(p, q):
        m = 0.5 * (a + b)
        if a > 0:
            tot += a * math.log(a / m)
        if b > 0:
            tot += b * math.log(b / m)
    return math.sqrt(max(tot, 0.0) / 2.0)


def score_close(metric, a, b):
    if a is None or b is None:
        return False
    a = float(a)
    b = float(b)
    if math.isnan(a) or math.isnan(b):
        return False
    if abs(a - b) <= 1e-9:
        return True
    if metric == "kl":
        # the square root amplifies rounding noise next to 0
        return abs(a * a - b * b) <= 1e-12
    return False


# ----------------------------------------------------------------------- PCACD
class PCACDModel:
    def __init__(
        self,
        window_size,
        ev_threshold=0.99,
        delta=0.1,
        divergence_metric="kl",
        sample_period=0.05,
        online_scaling=True,
    ):
        self.w = window_size
        self.ev = ev_threshold
        self.metric = divergence_metric
        self.scaling = online_scaling
        self.every = min(100, round(sample_period * window_size))
        self.lam = round(0.01 * window_size)
        self.bins = math.isqrt(window_size)
        self.ph = PageHinkleyModel(delta, self.lam, burn_in=0)
        self.total = 0
        self.since = 0
        self.state = None
        self.epoch = 1
        self.ref = []  # raw rows of the reference window
        self.test = []  # raw rows of the test window
        self.filling = True
        self.num_pcs = None
        self.checks = 0  # scores produced so far
        self.last = None  # details of the last check (diagnostics)
        self.ex = []  # per retained component: exact-edge bookkeeping (dict) or None

    # -- fitting -------------------------------------------------------------
    def _scale(self, rows):
        return (np.asarray(rows, dtype=float) - self.mu) / self.sd

    def _fit(self):
        R = np.asarray(self.ref, dtype=float)
        if self.scaling:
            self.mu = R.mean(axis=0)
            sd = R.std(axis=0)
            # a constant column cannot be standardised; it is left as is (it has
            # no loading on any retained component anyway).  Constant = spread
            # not distinguishable from rounding at the column's own magnitude.
            sd[sd <= SPREAD_TOL * np.abs(R).max(axis=0)] = 1.0
            self.sd = sd
        else:
            self.mu = np.zeros(R.shape[1])
            self.sd = np.ones(R.shape[1])
        Rs = self._scale(self.ref)
        Ts = self._scale(self.test)
        # magnitude of what the PCA sees (unit of measurement and level)
        self.mag = float(max(np.abs(Rs).max(), np.abs(Ts).max()))

        full = PCA().fit(Rs)
        lam = full.explained_variance_
        if not (lam[0] > (SPREAD_TOL * self.mag) ** 2) or not np.all(np.isfinite(lam)):
            raise Undefined("reference window has no variance")
        ratio = lam / lam.sum()
        cum = np.cumsum(ratio)
        if np.any(np.abs(cum - self.ev) <= EV_TOL):
            raise Undefined("cumulative explained variance ties with ev_threshold")
        # smallest number of leading components whose explained variance exceeds the threshold
        k = int(np.searchsorted(cum, self.ev, side="right") + 1)
        k = min(k, len(lam))
        for j in range(k):
            nxt = lam[j + 1] if j + 1 < len(lam) else None
            if nxt is not None and (lam[j] - nxt) <= GAP_TOL * lam[0]:
                raise Undefined("principal components not identifiable (equal eigenvalues)")
        pca = PCA(self.ev).fit(Rs)
        if len(pca.components_) != k:
            raise Undefined("sklearn chose a different number of components (tie)")
        self.num_pcs = k
        self.center = pca.mean_.copy()
        self.comps = pca.components_.copy()
        self.rproj = self._project(Rs)
        self.tproj = self._project(Ts)
        self.lo = []
        self.hi = []
        self.ref_density = []
        for i in range(k):
            col_r = [row[i] for row in self.rproj]
            col_t = [row[i] for row in self.tproj]
            lo = min(min(col_r), min(col_t))
            hi = max(max(col_r), max(col_t))
            self.lo.append(lo)
            self.hi.append(hi)
            if self.metric == "intersection":
                if not (hi - lo > SPREAD_TOL * max(self.mag, abs(lo), abs(hi))):
                    raise Undefined("retained component without spread")
                self.ref_density.append(None)  # tolerant count vectors: computed when first needed
            else:
                self.ref_density.append(kde_density(col_r, self.mag))
        self.ex = [self._exact_setup(i) if self.metric == "intersection" else None for i in range(k)]

    # -- exactly decidable bin edges ------------------------------------------
    def _exact_setup(self, i):
        """Decide whether every projection on component i and every bin edge of its
        support is exact in binary64 whatever the order of evaluation; if so return the
        bookkeeping for the strict (consistent-convention) histogram oracle, else None.

        Premise (all verified here in rational arithmetic, and again for every later
        sample): the component is a signed unit vector e_j; the values of column j in
        both windows and their mean are integer multiples of one power of two q with
        magnitude < 2^40 q (so sums over a window are exact); with online scaling the
        reference mean and standard deviation of the column are exactly representable,
        the standard deviation is a power of two (dividing by it, or multiplying with
        its reciprocal, is exact); the standardised values, the PCA centre (their
        exact mean), the projections, the support bounds, the bin width and every bin
        edge are again on one dyadic grid of at most 40 bits."""
        comp = [float(c) for c in self.comps[i]]
        nz = [j for j, c in enumerate(comp) if c != 0.0]
        if len(nz) != 1 or abs(comp[nz[0]]) != 1.0:
            return None
        j = nz[0]
        sign = 1 if comp[j] > 0 else -1
        rows = list(self.ref) + list(self.test)
        if not all(math.isfinite(v) for row in rows for v in row):
            return None
        n = len(self.ref)
        col_r = [Fraction(row[j]) for row in self.ref]
        col_t = [Fraction(row[j]) for row in self.test]
        if self.scaling:
            mu = Fraction(float(self.mu[j]))
            sd = Fraction(float(self.sd[j]))
            if mu * n != sum(col_r) or sd * sd * n != sum((c - mu) ** 2 for c in col_r) or not _pow2(sd):
                return None
        else:
            mu, sd = Fraction(0), Fraction(1)
        if not dyadic_grid_ok(col_r + col_t + [mu]):
            return None
        center = Fraction(float(self.center[j]))
        if center * n != sum((c - mu) / sd for c in col_r):
            return None
        pr = [sign * ((c - mu) / sd - center) for c in col_r]
        pt = [sign * ((c - mu) / sd - center) for c in col_t]
        # the specification's own float projections must be these numbers
        if [Fraction(row[i]) for row in self.rproj] != pr or [Fraction(row[i]) for row in self.tproj] != pt:
            return None
        lo, hi = min(pr + pt), max(pr + pt)
        if Fraction(self.lo[i]) != lo or Fraction(self.hi[i]) != hi:
            return None
        width = (hi - lo) / self.bins
        grid = [(c - mu) / sd for c in col_r + col_t] + [center, lo, hi, width]
        grid += [width * b for b in range(self.bins + 1)] + [lo + width * b for b in range(self.bins + 1)]
        if not dyadic_grid_ok(grid + pr + pt):
            return None
        A, B, ties = exact_counts(pr, lo, hi, self.bins)
        return {
            "col": j, "sign": sign, "mu": mu, "sd": sd, "center": center, "lo": lo, "hi": hi,
            "raw": set(col_r + col_t + [mu]), "grid": set(grid + pr + pt),
            "ref_counts": (A, B), "ref_ties": ties, "tproj": pt,
        }

    def _exact_slide(self, i, x, p_float):
        """Exact projection of the new row on component i (winsorised); None (and the
        component leaves the strict regime until the next fit) when the premise fails."""
        ex = self.ex[i]
        v = Fraction(x[ex["col"]]) if math.isfinite(x[ex["col"]]) else None
        if v is None or not all(math.isfinite(c) for c in x):
            return None
        s = (v - ex["mu"]) / ex["sd"]
        e = ex["sign"] * (s - ex["center"])
        if v not in ex["raw"]:
            if not dyadic_grid_ok(list(ex["raw"]) + [v]):
                return None
            ex["raw"].add(v)
        if s not in ex["grid"] or e not in ex["grid"]:
            if not dyadic_grid_ok(list(ex["grid"]) + [s, e]):
                return None
            ex["grid"].update((s, e))
        e = min(max(e, ex["lo"]), ex["hi"])
        if Fraction(p_float) != e:
            return None
        return e

    def _project(self, rows):
        P = (np.asarray(rows, dtype=float).reshape(-1, len(self.center)) - self.center) @ self.comps.T
        return [[float(v) for v in row] for row in P]

    # -- one sample ----------------------------------------------------------
    def identical_windows(self):
        return sorted(map(tuple, self.ref)) == sorted(map(tuple, self.test))

    def step(self, x, D, impl_score=None):
        """Consume one sample.  ``impl_score`` is the score the implementation
        recorded on this update (None if it recorded none / is not readable); it
        is used only to resolve numerically undecidable bin assignments and as the
        value fed to Page-Hinkley once it has been found admissible."""
        x = tuple(float(v) for v in x)
        self.total += 1
        self.since += 1
        out = {"checked": False, "phase": "fill"}
        if self.filling:
            if self.state is not None:
                out["phase"] = "discard"
                # first sample after a drift: discarded; the former test window
                # becomes the reference, everything else starts afresh
                self.ref = list(self.test)
                self.test = []
                self.since = 0
                self.state = None
                self.ph.reset()
                self.epoch += 1
            elif len(self.ref) < self.w:
                self.ref.append(x)
            else:
                self.test.append(x)
            if len(self.test) == self.w:
                self.filling = False
                self._fit()
                out["phase"] = "fit"
        else:
            out["phase"] = "slide"
            self.test = self.test[1:] + [x]
            p = self._project([self._scale([x])[0]])[0]
            if self.metric == "intersection":
                p = [min(max(p[i], self.lo[i]), self.hi[i]) for i in range(self.num_pcs)]
                for i in range(self.num_pcs):
                    if self.ex[i] is not None:
                        e = self._exact_slide(i, x, p[i])
                        if e is None:
                            self.ex[i] = None
                            out["exact_dropped"] = True
                        else:
                            self.ex[i]["tproj"] = self.ex[i]["tproj"][1:] + [e]
            self.tproj = self.tproj[1:] + [p]
            if (self.total - 1) % self.every == 0:
                out.update(self._check(D, impl_score))
        out.update(
            {
                "state": self.state,
                "total": self.total,
                "since": self.since,
                "num_pcs": self.num_pcs,
                "checks": self.checks,
            }
        )
        return out

    def _check(self, D, impl_score):
        per = []  # admissible scores per component
        exact_comps = 0  # components judged under the strict (consistent-convention) regime
        edge_ties = 0  # values of either window lying exactly on an interior edge of such a component
        convention_matters = False
        for i in range(self.num_pcs):
            col_t = [row[i] for row in self.tproj]
            if self.metric == "intersection" and self.ex[i] is not None:
                ex = self.ex[i]
                tA, tB, ties = exact_counts(ex["tproj"], ex["lo"], ex["hi"], self.bins)
                rA, rB = ex["ref_counts"]
                sc = [float(intersection_scores([rA], [tA], self.w)[0])]
                sB = float(intersection_scores([rB], [tB], self.w)[0])
                if sB not in sc:
                    sc.append(sB)
                    convention_matters = True
                per.append(sc)
                exact_comps += 1
                edge_ties += ties + ex["ref_ties"]
            elif self.metric == "intersection":
                if self.ref_density[i] is None:
                    col_r = [row[i] for row in self.rproj]
                    self.ref_density[i] = admissible_counts(col_r, self.lo[i], self.hi[i], self.bins)
                tc = admissible_counts(col_t, self.lo[i], self.hi[i], self.bins)
                per.append([float(s) for s in intersection_scores(self.ref_density[i], tc, self.w)])
            else:
                per.append([js_distance(self.ref_density[i], kde_density(col_t, self.mag))])
        straight = max(p[0] for p in per)
        admissible = []
        for choice in itertools.product(*per):
            m = max(choice)
            if m not in admissible:
                admissible.append(m)
        used = straight
        score_ok = None
        if impl_score is not None:
            score_ok = False
            for a in admissible:
                if score_close(self.metric, a, impl_score):
                    score_ok = True
                    used = float(impl_score)
                    break
        self.checks += 1
        identical = self.identical_windows()
        self.last = {
            "per_component": per,
            "support": [[self.lo[i], self.hi[i]] for i in range(self.num_pcs)],
            "score": straight,
            "admissible": admissible,
        }
        if self.ph.update(used, D):
            self.state = "drift"
            self.filling = True
        return {
            "checked": True,
            "score": straight,
            "admissible": admissible,
            "score_ok": score_ok,
            "ambiguous": len(admissible) > 1,
            "identical_windows": identical,
            "epoch": self.epoch,
            "ph_diff": self.ph.last_diff,
            "ph_theta": self.ph.last_theta,
            "exact_comps": exact_comps,
            "edge_ties": edge_ties,
            "convention_matters": convention_matters,
        }
