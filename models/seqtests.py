"""Executable specifications of CUSUM and Page-Hinkley (DESIGN §4 C04).

Both models work in ``fractions.Fraction`` over the raw stream that was fed
(the only float operation is the square root of the estimated variance when it
is not a perfect square).  They keep no arrays of partial sums and no index
into the stream: the current observation is the argument of ``step`` and the
statistics are the textbook recurrences.  Every threshold comparison goes
through the Decider ``D``; it is declared ``exact`` when float arithmetic on
the same numbers is provably exact (all operands dyadic rationals, every
division yielding a dyadic rational), so that ties are enforced strictly.

The models are immutable-field objects: ``copy.deepcopy`` is a field copy.
"""
import math
from fractions import Fraction

ZERO = Fraction(0)


def is_dyadic(fr):
    d = fr.denominator
    return d & (d - 1) == 0


def exact_sqrt(fr):
    """sqrt of a non-negative Fraction as a Fraction, or None if irrational."""
    n, d = fr.numerator, fr.denominator
    rn, rd = math.isqrt(n), math.isqrt(d)
    if rn * rn == n and rd * rd == d:
        return Fraction(rn, rd)
    return None


def estimate(xs):
    """(mean, population sd, sd_is_exact) of a non-empty sequence of Fractions."""
    n = len(xs)
    mean = sum(xs, ZERO) / n
    var = sum(((x - mean) ** 2 for x in xs), ZERO) / n
    sd = exact_sqrt(var)
    if sd is not None:
        return mean, sd, True
    return mean, Fraction(math.sqrt(var)), False


def rep(fr, bits):
    """True iff the rational ``fr`` is exactly representable with a ``bits``-bit significand
    (53: float64, 24: float32; exponent range is not an issue for the data used)."""
    fr = Fraction(fr)
    d = fr.denominator
    if d & (d - 1):
        return False
    n = abs(fr.numerator)
    if n == 0:
        return True
    n >>= (n & -n).bit_length() - 1  # strip trailing zero bits
    return n.bit_length() <= bits


def gt_floor(D, a, b, exact, floor):
    """``a > b`` through the Decider ``D``.

    ``floor`` (>= 0, 0 = not used) is the *absolute* rounding noise a correct
    float implementation carries on ``a - b`` for the family of data at hand
    (large level, tiny scale, float32-typed input ...).  A comparison that is
    not carried out in exact arithmetic and whose two sides are closer than
    that is numerically undecidable whatever its relative margin - both sides
    may be ~0 (threshold 0, a running mean that cancels) - and is registered
    with the Decider as an undecidable comparison (it may be flipped to follow
    the implementation, and is counted).
    """
    if floor and not exact and abs(a - b) <= floor:
        return D.gt(b, b, exact=False)
    return D.gt(a, b, exact=exact)


class _Flat:
    """All fields are immutable values: deepcopy == field copy."""

    def __deepcopy__(self, memo):
        new = self.__class__.__new__(self.__class__)
        new.__dict__.update(self.__dict__)
        return new


class CusumModel(_Flat):
    """Two-sided / one-sided CUSUM on the standardised current observation.

    z = (x - target) / sd;  s_h = max(0, s_h + z - delta);  s_l = max(0, s_l - z - delta)
    alarm iff n > burn_in and (direction None: s_h > h or s_l > h;
                               positive: s_h > h;  negative: s_l > h)
    with n = observations of the current epoch.  target / sd are given, or
    estimated from the first ``burn_in`` observations (the statistic then starts
    with the burn_in-th observation), or - in every epoch after an alarm -
    re-estimated from the last ``burn_in`` observations fed so far, the sums
    restarting at 0.  sd == 0 past the burn-in is the documented ValueError.
    """

    def __init__(self, target=None, sd_hat=None, burn_in=30, delta=0.005, threshold=5, direction=None):
        self.burn_in = int(burn_in)
        self.delta = Fraction(delta)
        self.h = Fraction(threshold)
        self.direction = direction
        self.target = None if target is None else Fraction(target)
        self.sd = None if sd_hat is None else Fraction(sd_hat)
        self.sd_exact = True
        self.fed = ()  # raw stream, all epochs
        self.n = 0  # observations in the current epoch
        self.epoch = 1
        self.hi = ZERO
        self.lo = ZERO
        self.state = None
        self.alarms = 0
        self.dead = False
        # absolute rounding noise of the data family in the units of x (0 = legacy families:
        # relative margins only); in z units it is floor_x / sd
        self.floor_x = 0
        # Exactness of the float arithmetic.  ``bits`` = None (legacy families: small integers and dyadic
        # parameters) uses ``_exact``: every operand a dyadic rational.  That is not enough for arbitrary
        # floats (every float is a dyadic rational): the round-3 families set ``bits`` to the significand
        # width of the arithmetic the detector runs in (53, or 24 for float32-typed streams) and a step is in
        # exact arithmetic only if every operand and every intermediate result of the implementation's
        # expression is representable with that many bits - sticky within an epoch, because the sums carry
        # earlier rounding along.
        self.bits = None
        # power-of-two unit of the data family (scale families 2^-30 / 2^27): multiplying every number by a power of
        # two changes no significand, so the small-dyadic-grid argument of ``_window_ok`` holds in multiples of it
        self.unit = Fraction(1)
        self.ex_epoch = True
        self.est_ok = True
        # bookkeeping about the last step (read by the check for its counters)
        self.last = {}

    def _window_ok(self, window):
        """Estimated statistics are computed exactly by numpy's float64 mean / std (given that the results are
        dyadic, which ``_exact`` checks) when the window lies on a small dyadic grid: multiples of 1/16 up to
        1024 in magnitude, at most 32 of them - sums, deviations and their squares then need < 53 bits.  The grid
        is in multiples of ``self.unit`` (a power of two; 1 for every family but the power-of-two scale families)."""
        window = [v / self.unit for v in window]
        return (
            self.bits == 53
            and len(window) <= 32
            and all(v.denominator <= 16 and v.denominator & (v.denominator - 1) == 0 and abs(v) <= 1024 for v in window)
        )

    def _exact_strict(self, x, hi0, lo0):
        if not (self.sd_exact and self.est_ok):
            return False
        b = self.bits
        r1 = x - self.target
        z = r1 / self.sd
        a1 = hi0 + z
        b1 = lo0 - self.delta
        return all(
            rep(q, b)
            for q in (x, self.target, self.sd, self.delta, self.h, r1, z, a1, a1 - self.delta, b1, b1 - z)
        )

    def _exact(self):
        return (
            self.sd_exact
            and is_dyadic(self.target)
            and is_dyadic(self.sd)
            and is_dyadic(1 / self.sd)
            and is_dyadic(self.delta)
        )

    def step(self, x, D):
        x = Fraction(x)
        self.last = {}
        if self.state == "drift":
            # new epoch: standardisation constants from the last burn_in observations
            tail = self.fed[-self.burn_in:]
            self.target, self.sd, self.sd_exact = estimate(tail)
            self.est_ok = self._window_ok(tail)
            self.ex_epoch = True
            self.hi = self.lo = ZERO
            self.n = 0
            self.state = None
            self.epoch += 1
        self.fed = self.fed + (x,)
        self.n += 1
        n = self.n
        if self.target is None:
            if n < self.burn_in:
                return {"state": None, "error": None}
            # n == burn_in: the first burn_in observations fix target and sd
            self.target, self.sd, self.sd_exact = estimate(self.fed[-self.burn_in:])
            self.est_ok = self._window_ok(self.fed[-self.burn_in:])
        if self.sd == 0:
            if n > self.burn_in:
                self.dead = True
                self.last["sd0"] = True
                return {"state": None, "error": "ValueError"}
            return {"state": None, "error": None}
        z = (x - self.target) / self.sd
        if self.bits:
            self.ex_epoch = self.ex_epoch and self._exact_strict(x, self.hi, self.lo)
        self.hi = max(ZERO, self.hi + z - self.delta)
        self.lo = max(ZERO, self.lo - z - self.delta)
        ex = self.ex_epoch if self.bits else self._exact()
        d = self.direction
        up = dn = False
        fl = (self.floor_x / self.sd) if self.floor_x else 0
        if d in (None, "positive"):
            up = gt_floor(D, self.hi, self.h, ex, fl)
        if d in (None, "negative"):
            dn = gt_floor(D, self.lo, self.h, ex, fl)
        over = up or dn
        tie = ex and (
            (d in (None, "positive") and self.hi == self.h) or (d in (None, "negative") and self.lo == self.h)
        )
        self.last.update(up=up, dn=dn, over=over, tie=tie, exact=ex)
        if n > self.burn_in:
            if over:
                self.state = "drift"
                self.alarms += 1
                self.last["alarm"] = True
                if n == self.burn_in + 1:
                    self.last["first_eligible"] = True
            elif n == self.burn_in + 1:
                self.last["first_eligible_quiet"] = True
        elif over:
            self.last["suppressed"] = True
        return {"state": self.state, "error": None}


PH_COLUMNS = (
    "change_scores",
    "page_hinkley_values",
    "page_hinkley_differences",
    "theta_threshold",
    "drift_detected",
    "maximum_sum_values",
    "minimum_sum_values",
    "mean_values",
)


class PageHinkleyModel(_Flat):
    """Documented Page-Hinkley test on the running mean.

    t = observations of the current epoch;  m_t = m_{t-1} + (x - m_{t-1}) / t
    U_t = U_{t-1} + x - m_t - delta;  min/max of U tracked from 0
    positive: U_t - min > lambda * m_t     negative: max - U_t > lambda * m_t
    alarm iff the test fires and t > burn_in.  ``row`` is the predicted
    to_dataframe() row of this observation (columns PH_COLUMNS); the frame of
    the current epoch consists of the rows of its t observations, in order.
    """

    def __init__(self, delta=0.01, threshold=20, burn_in=30, direction="positive"):
        self.delta = Fraction(delta)
        self.lam = Fraction(threshold)
        self.burn_in = int(burn_in)
        self.direction = direction
        self.epoch = 0
        self.alarms = 0
        self.state = None
        self.floor_x = 0  # absolute rounding noise of the data family (0 = legacy: relative margins only)
        self.bits = None  # round-3 families: significand width of the detector's arithmetic (see CusumModel)
        self._new_epoch()
        self.last = {}

    def _new_epoch(self):
        self.epoch += 1
        self.t = 0
        self.mean = ZERO
        self.U = ZERO
        self.mn = ZERO
        self.mx = ZERO
        self.state = None
        self.row = None
        self.dy = is_dyadic(self.delta) and is_dyadic(self.lam)

    def step(self, x, D):
        x = Fraction(x)
        self.last = {}
        if self.state == "drift":
            self._new_epoch()
        self.t += 1
        t = self.t
        m0, u0 = self.mean, self.U
        self.mean = self.mean + (x - self.mean) / t
        self.dy = self.dy and is_dyadic(self.mean)
        self.U = self.U + x - self.mean - self.delta
        theta = self.lam * self.mean
        if self.bits and self.dy:
            # every operand / intermediate of the implementation's expressions representable: exact arithmetic
            b = self.bits
            self.dy = all(
                rep(q, b)
                for q in (x, m0, x - m0, (x - m0) / t, self.mean, u0 + x, u0 + x - self.mean, self.U, theta,
                          self.lam, self.delta)
            )
        self.mn = min(self.mn, self.U)
        self.mx = max(self.mx, self.U)
        if self.direction == "positive":
            diff = self.U - self.mn
        else:
            diff = self.mx - self.U
        if self.bits and self.dy and not rep(diff, self.bits):
            self.dy = False
        fired = gt_floor(D, diff, theta, self.dy, self.floor_x * max(1, abs(self.lam)) if self.floor_x else 0)
        self.last.update(fired=fired, tie=self.dy and diff == theta, exact=self.dy)
        if fired and t > self.burn_in:
            self.state = "drift"
            self.alarms += 1
            self.last["alarm"] = True
            if t == self.burn_in + 1:
                self.last["first_eligible"] = True
        elif fired:
            self.last["suppressed"] = True
        elif t == self.burn_in + 1:
            self.last["first_eligible_quiet"] = True
        self.row = (
            float(x),
            float(self.U),
            float(diff),
            float(theta),
            bool(fired),
            float(self.mx),
            float(self.mn),
            float(self.mean),
        )
        return {"state": self.state, "nrows": t, "row": list(self.row), "earlier_rows_unchanged": True}
