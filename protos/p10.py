import numpy as np, itertools, warnings, sys
warnings.filterwarnings("ignore")
from menelaus.partitioners import KDQTreePartitioner
def walk(node, pts, depth, d, ub, probs, leaves):
    n=len(pts)
    if node.num_samples_in_compared_subtrees["build"]!=n: probs.append(("count",depth,n))
    if node.axis is None:
        if node.left is not None or node.right is not None: probs.append("leaf with child")
        leaves.append(node); return
    if n<=ub: probs.append(("split small",n))
    ax=depth% d
    if node.axis!=ax: probs.append(("axis",node.axis,ax))
    mid=pts[:,ax].min()+np.ptp(pts[:,ax])/2
    if node.midpoint_at_axis!=mid: probs.append(("mid",node.midpoint_at_axis,mid))
    if node.left is None or node.right is None: probs.append(("missing child",pts.tolist())); return
    walk(node.left, pts[pts[:,ax]<=mid], depth+1,d,ub,probs,leaves)
    walk(node.right, pts[pts[:,ax]>mid], depth+1,d,ub,probs,leaves)
tot=0;bad=0;internal=0
for vals,dim,maxn in (((0.,1.,2.,3.),1,6),((0.11,0.48,0.85,1.22),1,6),(tuple(itertools.product((0.,1.,2.),repeat=2)),2,4)):
    for n in range(1,maxn+1):
        for ms in itertools.combinations_with_replacement(vals,n):
            pts=np.array(ms,float).reshape(n,dim)
            for ub in (1,2,3):
                for lb in (2e-10,0.25,2.0):
                    p=KDQTreePartitioner(count_ubound=ub,cutpoint_proportion_lbound=lb)
                    try: p.build(pts)
                    except RecursionError: bad+=1; print("RECURSION",ms,ub,lb); continue
                    probs=[];leaves=[]
                    walk(p.node,pts,0,dim,ub,probs,leaves); tot+=1
                    if p.node.axis is not None: internal+=1
                    if [id(x) for x in leaves]!=[id(x) for x in p.leaves]: probs.append("leaf order")
                    if sum(p.leaf_counts("build"))!=n: probs.append("leafsum")
                    p.fill(pts,"t"); 
                    if p.leaf_counts("t")!=p.leaf_counts("build"): probs.append("fill!=build")
                    if abs(p.kl_distance("build","t"))>1e-15: probs.append("kl")
                    if probs:
                        bad+=1
                        if bad<5: print(ms,ub,lb,probs[:3])
print("trees",tot,"with splits",internal,"bad",bad)
# adjacent float adversarial
a=np.nextafter(1.0,2.0); b=np.nextafter(a,2.0)
pts=np.array([[a],[a],[b],[b]])
sys.setrecursionlimit(300)
try:
    p=KDQTreePartitioner(count_ubound=1,cutpoint_proportion_lbound=2e-10); p.build(pts); print("adjacent ok", p.leaf_counts("build"))
except RecursionError as e: print("adjacent floats: RecursionError")
