import numpy as np, pandas as pd, warnings, copy
warnings.filterwarnings("ignore")
from menelaus.change_detection import ADWIN, CUSUM, PageHinkley
from menelaus.data_drift import KdqTreeStreaming, KdqTreeBatch, HDDDM, CDBD, NNDVI, PCACD
rs=np.random.RandomState(0)
def batches(ncol):
    out=[]
    for i in range(6):
        shift = 0 if i in (0,1,2) else 30
        out.append(pd.DataFrame(rs.randn(8,ncol)+shift, columns=[f"c{j}" for j in range(ncol)]))
    return out
def trace_batch(mk, bs, mutate):
    d=mk(); tr=[]
    np.random.seed(1); d.set_reference(bs[0] if not mutate else bs[0])
    keep=[copy.deepcopy(b) for b in bs]
    use=[copy.deepcopy(b) for b in bs]
    d=mk(); np.random.seed(1); d.set_reference(use[0])
    if mutate: use[0].iloc[:,:]=777.0
    for i in range(1,len(bs)):
        np.random.seed(10+i); d.update(use[i])
        if mutate: use[i].iloc[:,:]=777.0
        tr.append((d.drift_state, getattr(d,'current_distance',None) ))
    return tr
for name,mk,nc in [("HDDDM3",lambda:HDDDM(detect_batch=3,statistic="stdev",significance=0.5),2),("HDDDM1",lambda:HDDDM(detect_batch=1,statistic="stdev",significance=0.5),2),
                ("KdqB",lambda:KdqTreeBatch(bootstrap_samples=20,count_ubound=2,alpha=0.3),2),("NNDVI",lambda:NNDVI(k_nn=2,sampling_times=10,alpha=0.3),2),("CDBD",lambda:CDBD(detect_batch=3,statistic="stdev",significance=0.5),1)]:
    bs=batches(nc)
    a=trace_batch(mk,bs,False); b=trace_batch(mk,bs,True)
    print(name, "same" if a==b else "DIFFERENT", a if a!=b else "", b if a!=b else "")
# streaming with DataFrame rows
def trace_stream(mk, rows, mutate):
    d=mk(); tr=[]
    use=[copy.deepcopy(r) for r in rows]
    for i,r in enumerate(use):
        np.random.seed(i); d.update(r)
        if mutate: r.iloc[:,:]=777.0
        tr.append((d.drift_state,d.samples_since_reset))
    return tr, d
rows=[pd.DataFrame([[float(i%4),float((i*i)%3)]],columns=['a','b']) for i in range(24)]
for name,mk in [("KdqS",lambda:KdqTreeStreaming(window_size=4,bootstrap_samples=10,count_ubound=1)),("PCACD",lambda:PCACD(window_size=4,sample_period=0.25,divergence_metric="intersection"))]:
    (a,da),(b,db)=trace_stream(mk,rows,False),trace_stream(mk,rows,True)
    extra = ""
    if name=="PCACD": extra = (da._change_score==db._change_score)
    print(name,"same" if a==b else "DIFFERENT", extra)
rows1=[pd.DataFrame([[float(i%4)]],columns=['a']) for i in range(24)]
for name,mk in [("CUSUM",lambda:CUSUM(burn_in=3,threshold=1)),("PH",lambda:PageHinkley(burn_in=2,threshold=1)),("ADWIN",lambda:ADWIN(new_sample_thresh=1,window_size_thresh=2,subwindow_size_thresh=1,delta=1))]:
    (a,da),(b,db)=trace_stream(mk,rows1,False),trace_stream(mk,rows1,True)
    print(name,"same" if a==b else "DIFFERENT", a[:12] if a!=b else "", b[:12] if a!=b else "")
