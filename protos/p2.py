import numpy as np, itertools, math, warnings, time
from fractions import Fraction as F
warnings.filterwarnings("ignore")
from menelaus.change_detection import ADWIN

class AdwinModel:
    def __init__(s, delta, M, nst, wst, sst, cons):
        s.delta,s.M,s.nst,s.wst,s.sst,s.cons=delta,M,nst,wst,sst,cons
        s.xs=[]          # raw window (Fractions), oldest first
        s.rows=[[]]      # rows[i] = list of bucket sizes... we store (count) only; chronological order inside row oldest first
        s.total=0; s.state=None; s.recs=[None,None]
    def buckets(s):
        # chronological list of bucket sizes oldest->newest: highest row first
        out=[]
        for i in range(len(s.rows)-1,-1,-1):
            out += [2**i]*len(s.rows[i])
        return out
    def step(s,x):
        if s.state is not None: s.state=None; s.recs=[None,None]
        s.total+=1; s.xs.append(F(x)); s.rows[0].append(1)
        i=0
        while len(s.rows[i])==s.M+1:
            if i+1==len(s.rows): s.rows.append([])
            s.rows[i+1].append(1); s.rows[i]=s.rows[i][2:]
            if len(s.rows[i+1])<=s.M: break
            i+=1
        near=[]
        if s.total % s.nst==0 and len(s.xs)>s.wst:
            again=True
            while again:
                again=False
                b=s.buckets(); W=len(s.xs); tot=sum(s.xs)
                mean=tot/W; var=float(sum((v-mean)**2 for v in s.xs)/W)
                n0=0; t0=F(0)
                pos=0
                for bi,sz in enumerate(b):
                    t0+=sum(s.xs[pos:pos+sz]); pos+=sz; n0+=sz; n1=W-n0
                    if bi==len(b)-1: break
                    if n0>=s.sst and n1>=s.sst:
                        diff=abs(float(t0/n0-(tot-t0)/n1))
                        m=1/(n0-s.sst+1)+1/(n1-s.sst+1)
                        if not s.cons:
                            dd=math.log(2*math.log(W)/s.delta)
                            eps=math.sqrt(2*m*var*dd)+(2/3)*m*dd
                        else:
                            dd=math.log(4*math.log(W)/s.delta); eps=math.sqrt(0.5*m*dd)
                        near.append(abs(diff-eps)/max(diff,eps,1e-300))
                        if diff>eps:
                            s.state="drift"
                            # drop oldest bucket
                            s.xs=s.xs[b[0]:]
                            top=len(s.rows)-1
                            s.rows[top]=s.rows[top][1:]
                            if not s.rows[top] and top>0: s.rows.pop()
                            s.recs=(s.total-len(s.xs), s.total-1)
                            again=True
                            break
        W=len(s.xs)
        mean=float(sum(s.xs)/W) if W else 0
        var=float(sum((v-sum(s.xs)/W)**2 for v in s.xs)/W) if W else 0
        return s.state, tuple(s.recs), mean, var, min(near) if near else 1

def run(cfg, alphabet, n):
    bad=0; cnt=0; drifts=0; neart=0
    for seq in itertools.product(alphabet, repeat=n):
        a=ADWIN(*cfg); m=AdwinModel(*cfg)
        for i,x in enumerate(seq):
            a.update(x); st,recs,mean,var,nr=m.step(x)
            cnt+=1
            if st=="drift": drifts+=1
            if nr<1e-9: neart+=1
            ok = a.drift_state==st and tuple(a.retraining_recs)==recs and abs(a.mean()-mean)<1e-9 and abs(a.variance()-var)<1e-9
            if not ok:
                bad+=1
                if bad<4: print("MISMATCH",cfg,seq[:i+1],(a.drift_state,a.retraining_recs,a.mean(),a.variance()),(st,recs,mean,var))
                break
    return cnt,bad,drifts,neart
t=time.time()
for cfg in [(0.5,1,1,2,1,False),(1.0,2,2,0,1,False),(0.3,1,1,3,2,True),(0.9,5,1,0,1,False),(0.5,2,3,2,2,False)]:
    print(cfg, run(cfg,(0,1,5),8), round(time.time()-t,1))
