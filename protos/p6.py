import numpy as np, pandas as pd, warnings, copy, itertools
warnings.filterwarnings("ignore")
from menelaus.change_detection import ADWIN, CUSUM, PageHinkley
from menelaus.concept_drift import DDM, STEPD, LinearFourRates
from menelaus.data_drift import KdqTreeStreaming, KdqTreeBatch, HDDDM, CDBD, NNDVI, PCACD
def run(mk, calls):
    d=mk(); tr=[]
    for i,c in enumerate(calls):
        np.random.seed(i)
        try:
            c(d); tr.append(("ok",d.drift_state, getattr(d,'total_samples',getattr(d,'total_batches',None)), getattr(d,'samples_since_reset',getattr(d,'batches_since_reset',None))))
        except Exception as e:
            tr.append(("exc",type(e).__name__, getattr(d,'total_samples',getattr(d,'total_batches',None)), getattr(d,'samples_since_reset',getattr(d,'batches_since_reset',None))))
    return tr
def inject(name, mk, valid, fault, pos):
    base=run(mk, valid)
    calls=valid[:pos]+[fault]+valid[pos:]
    tr=run(mk, calls)
    rej=tr[pos]; rest=tr[:pos]+tr[pos+1:]
    before = tr[pos-1][2:] if pos>0 else (0,0)
    status=[]
    if rej[0]!="exc" or rej[1]!="ValueError": status.append(f"fault->{rej[:2]}")
    elif rej[2]!=before[0]: status.append(f"counted {before}->{rej[2:]}")
    if rest!=base: 
        k=[i for i,(a,b) in enumerate(zip(rest,base)) if a!=b][0]
        status.append(f"later differs at {k}: {rest[k]} vs {base[k]}")
    print(f"{name:10s} pos={pos}", "OK" if not status else "; ".join(status))
u=lambda v: (lambda d: d.update(v))
sv=[u(float(x)) for x in (0,1,0,4,4,4,0,1)]
for name,mk in [("PH",lambda:PageHinkley(burn_in=1,threshold=1)),("CUSUM",lambda:CUSUM(target=0,sd_hat=1,burn_in=1,threshold=2)),("ADWIN",lambda:ADWIN(delta=1,new_sample_thresh=1,window_size_thresh=0,subwindow_size_thresh=1))]:
    for pos in (0,3,6):
        inject(name+" 2rows",mk,sv,u(np.array([[1.],[2.]])),pos)
        inject(name+" 3cols",mk,sv,u(np.array([[1.,2.,3.]])),pos)
        inject(name+" df3",mk,sv,u(pd.DataFrame([[1.,2.,3.]],columns=list("abc"))),pos)
y=lambda t,p:(lambda d:d.update(t,p))
yv=[y(1,1),y(1,0),y(0,0),y(1,0),y(1,0),y(1,1)]
for name,mk in [("DDM",lambda:DDM(n_threshold=2)),("STEPD",lambda:STEPD(window_size=1,alpha_drift=0.5))]:
    for pos in (0,3):
        inject(name+" y2",mk,yv,y([1,1],[0,0]),pos)
rows=[np.array([[float(i%3),float(i%2)]]) for i in range(8)]
for name,mk in [("KdqS",lambda:KdqTreeStreaming(window_size=2,bootstrap_samples=5,count_ubound=1)),("PCACD",lambda:PCACD(window_size=3,sample_period=0.34,divergence_metric="intersection"))]:
    for pos in (0,3,6):
        inject(name+" 2rows",mk,[u(r) for r in rows],u(np.array([[1.,2.],[3.,4.]])),pos)
        inject(name+" 3cols",mk,[u(r) for r in rows],u(np.array([[1.,2.,3.]])),pos)
        inject(name+" df3",mk,[u(r) for r in rows],u(pd.DataFrame([[1.,2.,3.]],columns=list("abc"))),pos)
        inject(name+" df2ren",mk,[u(pd.DataFrame(r,columns=["a","b"])) for r in rows],u(pd.DataFrame([[1.,2.]],columns=["x","y"])),pos)
lo=np.array([[0.,1.],[1.,0.],[2.,2.],[3.,1.],[0.5,0.],[1.5,2.]]); hi=lo+5
def sr(b): return lambda d: d.set_reference(b)
bv=[sr(lo),u(lo+.1),u(hi),u(hi),u(lo),u(lo)]
for name,mk in [("HDDDM",lambda:HDDDM(detect_batch=2,statistic="stdev",significance=0.5)),("KdqB",lambda:KdqTreeBatch(bootstrap_samples=5,count_ubound=1,alpha=.4)),("NNDVI",lambda:NNDVI(k_nn=2,sampling_times=5,alpha=.4))]:
    for pos in (0,1,4):
        inject(name+" 1row",mk,bv,u(np.array([[1.,2.]])),pos)
        inject(name+" 3cols",mk,bv,u(np.ones((4,3))),pos)
        inject(name+" df3",mk,bv,u(pd.DataFrame(np.ones((4,3)),columns=list("abc"))),pos)
