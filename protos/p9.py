import numpy as np, pandas as pd, warnings, itertools, math
warnings.filterwarnings("ignore")
from sklearn.decomposition import PCA
from menelaus.data_drift import PCACD
class PH:
    def __init__(s,delta,thr): s.delta,s.thr=delta,thr; s.reset()
    def reset(s): s.n=0;s.mean=0.;s.sum=0.;s.min=0.;s.state=None
    def update(s,x):
        s.n+=1; s.mean+= (x-s.mean)/s.n; s.sum+= x-s.mean-s.delta
        s.min=min(s.min,s.sum)
        s.state = "drift" if (s.sum-s.min > s.thr*s.mean and s.n>0) else None
class Model:
    def __init__(s,w,ev,delta,metric,period,scaling,per_component=True):
        s.w,s.ev,s.metric,s.scaling=w,ev,metric,scaling
        s.step=min(100,round(period*w)); s.bins=int(math.floor(math.sqrt(w)))
        s.ph=PH(delta,round(0.01*w)); s.total=0;s.since=0;s.state=None
        s.ref=[];s.test=[];s.building=True;s.scores=[0];s.num_pcs=None; s.per_component=per_component
    def _fit(s):
        R=np.array(s.ref); T=np.array(s.test)
        if s.scaling:
            s.mu=R.mean(0); s.sd=R.std(0); s.sd[s.sd==0]=1.0
            R=(R-s.mu)/s.sd; T=(T-s.mu)/s.sd
        s.pca=PCA(s.ev).fit(R); s.num_pcs=len(s.pca.components_)
        s.Rp=s.pca.transform(R); s.Tp=s.pca.transform(T)
        s.lo=[min(s.Rp[:,i].min(),s.Tp[:,i].min()) for i in range(s.num_pcs)]
        s.hi=[max(s.Rp[:,i].max(),s.Tp[:,i].max()) for i in range(s.num_pcs)]
        if not s.per_component:   # mirror of the implementation's shared support (last component)
            s.lo_t=[s.lo[-1]]*s.num_pcs; s.hi_t=[s.hi[-1]]*s.num_pcs
        else: s.lo_t,s.hi_t=s.lo,s.hi
        s.Tsc=T
    def _hist(s,v,lo,hi):
        h=np.histogram(v,bins=s.bins,range=(lo,hi),density=True)[0]; return h/h.sum()
    def update(s,x):
        x=np.asarray(x,float).ravel(); s.total+=1; s.since+=1
        if s.building:
            if s.state is not None:
                s.ref=list(s.test_raw); s.test=[]; s.since=0; s.state=None; s.ph.reset()
            elif len(s.ref)<s.w: s.ref.append(x)
            elif len(s.test)<s.w: s.test.append(x)
            if len(s.test)==s.w:
                s.building=False; s._fit(); s.test_raw=list(s.test)
        else:
            s.test_raw=s.test_raw[1:]+[x]
            xs=(x-s.mu)/s.sd if s.scaling else x
            p=s.pca.transform(xs.reshape(1,-1))[0]
            if s.metric=="intersection":
                p=np.array([min(max(p[i],s.lo_t[i]),s.hi_t[i]) for i in range(s.num_pcs)])
            s.Tp=np.vstack([s.Tp[1:],p])
            if (s.total-1)%s.step==0 and s.total-1!=0:
                sc=[]
                for i in range(s.num_pcs):
                    a=s._hist(s.Rp[:,i],s.lo[i],s.hi[i]); b=s._hist(s.Tp[:,i],s.lo_t[i],s.hi_t[i]); sc.append(1-np.sum(np.minimum(a,b)))
                score=max(sc); s.scores.append(score); s.ph.update(score)
                if s.ph.state is not None: s.building=True; s.state="drift"
pts=[(0.,0.),(1.,2.),(2.,1.),(4.,4.)]
def run(w,ev,delta,period,n,per_component):
    viol=0;steps=0;drifts=0;multi=0
    for seq in itertools.product(range(len(pts)),repeat=n):
        D=PCACD(window_size=w,ev_threshold=ev,delta=delta,divergence_metric="intersection",sample_period=period)
        M=Model(w,ev,delta,"intersection",period,True,per_component)
        base=[pts[i%len(pts)] for i in range(2*w)]
        stream=base+[pts[i] for i in seq]
        for i,x in enumerate(stream):
            try:
                D.update(np.array([x])); M.update(x)
            except Exception as e:
                print("EXC",type(e),e,stream[:i+1]); viol+=1; break
            steps+=1
            if D.drift_state=="drift": drifts+=1
            ok=(D.drift_state==M.state and D.samples_since_reset==M.since and D.num_pcs==M.num_pcs and len(D._change_score)==len(M.scores) and np.allclose(D._change_score,M.scores,atol=1e-9))
            if not ok:
                viol+=1
                if viol<3: print("  MISMATCH",stream[:i+1],(D.drift_state,D.samples_since_reset,D.num_pcs,D._change_score),(M.state,M.since,M.num_pcs,M.scores))
                break
        if (D.num_pcs or 0)>1: multi+=1
    print((w,ev,delta,period,per_component),"steps",steps,"drifts",drifts,"multiPC",multi,"viol",viol)
run(4,0.99,0.0,0.25,7,False)
run(4,0.99,0.0,0.25,7,True)
run(4,0.6,0.1,0.5,7,True)
