import numpy as np, itertools, warnings, time
warnings.filterwarnings("ignore")
from menelaus.change_detection import ADWIN, CUSUM, PageHinkley
from menelaus.concept_drift import DDM, EDDM, STEPD
def first_drift(mk, seq, feed):
    d=mk()
    for i,x in enumerate(seq):
        feed(d,x)
        if d.drift_state=="drift": return i
    return 10**9
def mono(name, mk_loose, mk_strict, alphabet, n, feed):
    bad=0; tot=0; diff=0
    for seq in itertools.product(alphabet, repeat=n):
        a=first_drift(mk_loose,seq,feed); b=first_drift(mk_strict,seq,feed); tot+=1
        if a!=b: diff+=1
        if b<a:
            bad+=1
            if bad<3: print("  VIOL",name,seq,a,b)
    print(name,"total",tot,"differ",diff,"violations",bad)
fx=lambda d,x:d.update(x)
fy=lambda d,e:d.update(1,1-e)
mono("PH 1->5", lambda:PageHinkley(threshold=1,burn_in=1,delta=0.0), lambda:PageHinkley(threshold=5,burn_in=1,delta=0.0), (-2,0,1,4), 7, fx)
mono("PH 0->5", lambda:PageHinkley(threshold=0,burn_in=1,delta=0.0), lambda:PageHinkley(threshold=5,burn_in=1,delta=0.0), (-2,0,1,4), 6, fx)
mono("PHneg 1->5", lambda:PageHinkley(threshold=1,burn_in=1,delta=0.0,direction="negative"), lambda:PageHinkley(threshold=5,burn_in=1,direction="negative",delta=0.0), (-2,0,1,4), 7, fx)
mono("CUSUM", lambda:CUSUM(target=0,sd_hat=1,burn_in=1,delta=0.5,threshold=1), lambda:CUSUM(target=0,sd_hat=1,burn_in=1,delta=0.5,threshold=3), (-2,0,1,4), 7, fx)
mono("ADWIN", lambda:ADWIN(delta=1.0,max_buckets=2,new_sample_thresh=1,window_size_thresh=0,subwindow_size_thresh=1), lambda:ADWIN(delta=0.3,max_buckets=2,new_sample_thresh=1,window_size_thresh=0,subwindow_size_thresh=1), (0,1,5), 9, fx)
mono("DDM", lambda:DDM(n_threshold=2,drift_scale=1.5), lambda:DDM(n_threshold=2,drift_scale=3), (0,1), 14, fy)
mono("EDDM", lambda:EDDM(n_threshold=2,drift_thresh=0.9,warning_thresh=0.95), lambda:EDDM(n_threshold=2,drift_thresh=0.6,warning_thresh=0.95), (0,1), 14, fy)
mono("STEPD", lambda:STEPD(window_size=2,alpha_drift=0.3,alpha_warning=0.5), lambda:STEPD(window_size=2,alpha_drift=0.05,alpha_warning=0.5), (0,1), 12, fy)
