import numpy as np, pandas as pd, warnings, copy, itertools
warnings.filterwarnings("ignore")
from menelaus.data_drift import KdqTreeStreaming, KdqTreeBatch, HDDDM, CDBD, NNDVI
lo=np.array([[0.],[1.],[2.],[3.],[0.5],[1.5]]); hi=lo+4; wide=lo*3; same=lo.copy(); big=np.vstack([lo,lo+0.25,hi])[:9]
menu=[lo,hi,wide,big]
def obs(d):
    o=[d.drift_state,d.batches_since_reset]
    if hasattr(d,'current_distance'): o+= [float(d.current_distance), d.reference_n, getattr(d,'beta',None)]
    return o
def twin_check(name, mk, n):
    viol=0; total=0; epochs2=0
    for seq in itertools.product(range(len(menu)), repeat=n):
        D=mk(); np.random.seed(0); D.set_reference(lo)
        T=None; pending=None
        for i,bi in enumerate(seq):
            b=menu[bi]
            if pending is not None:
                T=mk(); np.random.seed(100+i); T.set_reference(pending); pending=None
                # T continues without reseed
                np.random.seed(100+i); D.update(b)
                # need T.update under state after its set_reference draws: emulate by reseeding and redoing
                T=mk(); np.random.seed(100+i); T.set_reference(menu[prev]); T.update(b)
                epochs2+=1
            else:
                np.random.seed(100+i); D.update(b)
                if T is not None:
                    np.random.seed(100+i); T.update(b)
            if T is not None:
                total+=1
                a,c=obs(D),obs(T)
                if a!=c and not (str(a)==str(c)):
                    viol+=1
                    if viol<3: print("  DIFF",name,seq[:i+1],a,c)
                    break
            if D.drift_state=="drift":
                pending=b; prev=bi; T=None
    print(name,"compared",total,"epochs",epochs2,"violations",viol)
twin_check("HDDDM3",lambda:HDDDM(detect_batch=3,statistic="stdev",significance=0.5),5)
twin_check("HDDDM2",lambda:HDDDM(detect_batch=2,statistic="stdev",significance=0.5,subsets=3),5)
twin_check("HDDDM1",lambda:HDDDM(detect_batch=1,statistic="tstat",significance=0.3,subsets=3),5)
twin_check("KdqB",lambda:KdqTreeBatch(bootstrap_samples=10,count_ubound=1,alpha=0.4),5)
twin_check("NNDVI",lambda:NNDVI(k_nn=2,sampling_times=6,alpha=0.4),3)
