import numpy as np, pandas as pd, warnings
warnings.filterwarnings("ignore")
from sklearn.base import BaseEstimator, ClassifierMixin
from sklearn.model_selection import KFold
from menelaus.concept_drift import MD3
class Thr(ClassifierMixin, BaseEstimator):
    def __init__(self, margin=0.5): self.margin=margin
    def fit(self,X,y):
        X=np.asarray(X,float); y=np.asarray(y).ravel()
        self.thr_=(X[y==1,0].mean()+X[y==0,0].mean())/2; self.classes_=np.array([0,1]); return self
    def predict(self,X): return (np.asarray(X,float)[:,0]>self.thr_).astype(int)
def margin(self, sample, clf): return int(abs(sample[0]-clf.thr_)<=clf.margin)
ref=pd.DataFrame({"x":[0.,1.,2.,2.6,3.4,4.,5.,6.],"z":[1.,0,1,0,1,0,1,0],"y":[0,0,0,1,0,1,1,1]})
clf=Thr().fit(ref[["x","z"]],ref["y"])
d=MD3(clf, margin_calculation_function=margin, sensitivity=0.5, k=2, oracle_data_length_required=2)
d.set_reference(ref,target_name="y")
print(d.reference_distribution, d.forgetting_factor)
# model
feats=ref[["x","z"]].to_numpy(); tgt=ref["y"].to_numpy()
mds=[];accs=[]
for tr,te in KFold(n_splits=2,random_state=42,shuffle=True).split(feats):
    c=Thr().fit(feats[tr],tgt[tr]); mds.append(np.mean([abs(feats[i,0]-c.thr_)<=c.margin for i in te])); accs.append(np.mean(c.predict(feats[te])==tgt[te]))
print(np.mean(mds),np.std(mds),np.mean(accs),np.std(accs))
tr=[]
for x in [3.0,3.0,3.0,3.0]:
    try:
        d.update(pd.DataFrame({"x":[x],"z":[0.]})); tr.append((d.drift_state,d.waiting_for_oracle,round(d.curr_margin_density,4)))
    except ValueError as e: tr.append("refused")
print(tr)
d.give_oracle_label(pd.DataFrame({"x":[9.],"z":[0.],"y":[0]})); print(d.drift_state,d.waiting_for_oracle,len(d.oracle_data))
d.give_oracle_label(pd.DataFrame({"x":[-9.],"z":[0.],"y":[1]})); print(d.drift_state,d.waiting_for_oracle,d.oracle_data,d.reference_distribution, d.total_updates, d.updates_since_reset)
