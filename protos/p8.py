import numpy as np, pandas as pd, warnings, itertools, scipy.stats, math
warnings.filterwarnings("ignore")
from menelaus.data_drift import HDDDM, CDBD
from scipy.spatial.distance import jensenshannon
def hell(a,b):
    a=np.asarray(a,float); b=np.asarray(b,float)
    return float(np.sqrt(np.sum((np.sqrt(b/b.sum())-np.sqrt(a/a.sum()))**2)))
def js(a,b):
    p=np.asarray(a,float); q=np.asarray(b,float); p=p/p.sum(); q=q/q.sum(); m=(p+q)/2
    def kl(x,y): 
        mask=x>0; return np.sum(x[mask]*np.log(x[mask]/y[mask]))
    return float(np.sqrt((kl(p,m)+kl(q,m))/2))
class HDMModel:
    def __init__(s, db, stat, sig, subsets, div):
        s.db,s.stat,s.sig,s.subsets=db,stat,sig,subsets; s.div=hell if div=="H" else js
        s.total=0; s.since=0; s.state=None; s.lam=0
        s.distances={}; s.eps_values={}; s.thresholds={}
    def _dist(s, ref, X, bins):
        ds=[]
        for f in range(ref.shape[1]):
            mn=min(ref[:,f].min(),X[:,f].min()); mx=max(ref[:,f].max(),X[:,f].max())
            ds.append(s.div(np.histogram(ref[:,f],bins=bins,range=(mn,mx))[0], np.histogram(X[:,f],bins=bins,range=(mn,mx))[0]))
        return ds
    def set_reference(s,X):
        s.ref=np.array(X,float); s.lam=s.total   # spec: new epoch
        s._reset()
    def _reset(s):
        s.since=0; s.state=None
        proxy=None
        if s.db==1:
            h=int(len(s.ref)/2); proxy=s.ref[h:]; s.ref=s.ref[:h]
        s.eps=[]; 
        if proxy is not None: s.update(proxy, proxy=True)
    def update(s,X,e0=None,proxy=False):
        if s.state=="drift": s._reset()
        X=np.array(X,float); s.total+=1; s.since+=1
        bins=int(math.floor(math.sqrt(len(s.ref))))
        fd=s._dist(s.ref,X,bins); d=sum(fd)/len(fd); s.distances[s.total]=d; s.cur=d
        if s.since>=2:
            if s.since==2 and s.db!=3: s.eps=[e0]   # bootstrap estimate as an input
            ce=abs(d-s.prev); s.eps.append(ce); s.eps_values[s.total]=ce
            if (s.db!=3) or s.since>=3:
                if s.since==3 and s.db!=3: s.eps=s.eps[1:]
                hist=s.eps[:-1]
                dscale = 1 if (s.since==2 and s.db!=3) else s.since-1
                eh=sum(hist)/dscale
                sd=math.sqrt(sum((e-eh)**2 for e in hist)/dscale)
                if s.stat=="tstat":
                    t=scipy.stats.t.ppf(1-s.sig/2, len(s.ref)+len(X)-2); beta=eh+t*sd/math.sqrt(dscale)
                else: beta=eh+s.sig*sd
                s.thresholds[s.total]=beta; s.beta=beta
                if ce>beta:
                    s.state="drift"; s.ref=X; s.lam=s.total
        if s.state!="drift":
            s.prev=d; s.ref=np.vstack([s.ref,X])
        return
lo=np.array([[0.,1.],[1.,0.],[2.,2.],[3.,1.],[0.5,0.],[1.5,2.]]); hi=lo+2.5; wide=lo*2.2; big=np.vstack([lo,lo+0.25,hi])[:9]; same=lo.copy()
menu=[lo,hi,wide,big,same+0.1]
def run(db,stat,sig,div,n,cols):
    viol=0; steps=0; drifts=0; ep3=0
    for seq in itertools.product(range(len(menu)),repeat=n):
        D=HDDDM(detect_batch=db,statistic=stat,significance=sig,subsets=3,divergence=div); M=HDMModel(db,stat,sig,3,div)
        np.random.seed(0); D.set_reference(lo[:,:cols]); M.set_reference(lo[:,:cols])
        nd=0
        for i,bi in enumerate(seq):
            b=menu[bi][:,:cols]
            np.random.seed(50+i); D.update(b)
            # e0 read-back from thresholds when needed
            e0=None
            if D.batches_since_reset==2 and db!=3: e0=D.thresholds[D.total_batches]
            M.update(b,e0=e0)
            steps+=1
            ok = D.drift_state==M.state and D.total_batches==M.total and D.batches_since_reset==M.since and abs(D.current_distance-M.cur)<1e-9 and D.reference_n==(len(M.ref) if M.state!="drift" else D.reference_n)
            ok = ok and set(D.thresholds)==set(M.thresholds) and all(abs(D.thresholds[k]-M.thresholds[k])<1e-9 for k in M.thresholds) and set(D.epsilon_values)==set(M.eps_values) and all(abs(D.epsilon_values[k]-M.eps_values[k])<1e-9 for k in M.eps_values)
            if D.drift_state=="drift": drifts+=1; nd+=1
            if not ok:
                viol+=1
                if viol<3: print("  MISMATCH",db,stat,seq[:i+1],(D.drift_state,D.total_batches,D.batches_since_reset,D.current_distance,D.thresholds,D.epsilon_values),(M.state,M.total,M.since,M.cur,M.thresholds,M.eps_values))
                break
        if nd>=2: ep3+=1
    print((db,stat,sig,div,cols),"steps",steps,"drifts",drifts,"hist>=2drifts",ep3,"viol",viol)
for db in (1,2,3):
    run(db,"stdev",0.5,"H",5,2)
    run(db,"tstat",0.3,"KL",5,1)
