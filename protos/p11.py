import numpy as np, itertools, warnings, time
warnings.filterwarnings("ignore")
from menelaus.concept_drift import LinearFourRates
class LFRModel:
    RATES=("tpr","tnr","ppv","npv")
    def __init__(s,eta,wl,dl,burn,num_mc,sub,tracked,rv):
        s.eta,s.wl,s.dl,s.burn,s.num_mc,s.sub,s.tracked,s.rv=eta,wl,dl,burn,num_mc,sub,tracked,rv
        s.cache={}; s.total=0; s.all=[]; s._reset()
    def _reset(s):
        s.since=0; s.state=None; s.C={(p,t):1 for p in (0,1) for t in (0,1)}; s.R={r:0.5 for r in s.RATES}; s.recs=[None,None]
    def rates(s):
        tn,fn,fp,tp=s.C[(0,0)],s.C[(0,1)],s.C[(1,0)],s.C[(1,1)]
        return {"tpr":(tp/(tp+fn),tp+fn),"tnr":(tn/(tn+fp),tn+fp),"ppv":(tp/(fp+tp),fp+tp),"npv":(tn/(tn+fn),tn+fn)}
    def bounds(s,p,N):
        key=(round(p,s.rv),round(N,s.rv))
        if key in s.cache: return s.cache[key]
        w=np.array([s.eta**(N-i) for i in range(1,N+1)]); vals=[]
        for _ in range(s.num_mc):
            vals.append((1-s.eta)*sum(w*np.random.binomial(1,p,size=N)))
        b=(np.percentile(vals,s.wl*100),np.percentile(vals,100-s.wl*100),np.percentile(vals,s.dl*100),np.percentile(vals,100-s.dl*100))
        s.cache[key]=b; return b
    def step(s,yt,yp):
        if s.state=="drift": s._reset()
        s.total+=1; s.since+=1
        old=s.rates(); s.C[(yp,yt)]+=1; new=s.rates()
        warn=False; alarm=False; margins=[]
        for r in s.tracked:
            if new[r][0]!=old[r][0]: s.R[r]=s.eta*s.R[r]+(1-s.eta)*(1 if yt==yp else 0)
            if s.since>s.burn and s.since%s.sub==0:
                lbw,ubw,lbd,ubd=s.bounds(*new[r])
                R=s.R[r]
                warn |= (R<lbw) or (R>ubw); alarm |= (R<lbd) or (R>ubd)
                margins += [abs(R-x) for x in (lbw,ubw,lbd,ubd)]
        s.state = "drift" if alarm else ("warning" if warn else None)
        s.all.append(s.state)
        if s.state=="warning" and s.recs[0] is None: s.recs[0]=s.total-1
        if s.state=="drift":
            s.recs[1]=s.total-1
            if s.recs[0] is None: s.recs[0]=s.total-1
        return min(margins) if margins else 1
def run(cfg,n):
    viol=0;steps=0;states={None:0,"warning":0,"drift":0};near=0
    t=time.time()
    for seq in itertools.product(((0,0),(0,1),(1,0),(1,1)),repeat=n):
        D=LinearFourRates(time_decay_factor=cfg[0],warning_level=cfg[1],detect_level=cfg[2],burn_in=cfg[3],num_mc=cfg[4],subsample=cfg[5],rates_tracked=list(cfg[6]),round_val=cfg[7]); M=LFRModel(*cfg)
        for i,(yt,yp) in enumerate(seq):
            np.random.seed(900+i); D.update(yt,yp)
            np.random.seed(900+i); mg=M.step(yt,yp)
            steps+=1; states[M.state]+=1
            if mg<1e-9: near+=1
            if not(D.drift_state==M.state and list(D.retraining_recs)==M.recs and D.all_drift_states==M.all):
                if mg<1e-9: break
                viol+=1
                if viol<3: print(" MISMATCH",seq[:i+1],D.drift_state,M.state,D.retraining_recs,M.recs)
                break
    print(cfg,"steps",steps,states,"near",near,"viol",viol,round(time.time()-t,1),"s")
run((0.9,0.2,0.05,1,20,1,("tpr","tnr","ppv","npv"),4),6)
run((0.5,0.4,0.1,0,20,2,("ppv","tpr"),1),6)
run((0.9,0.3,0.3,2,20,1,("npv",),4),6)
