import numpy as np, itertools, warnings, time
warnings.filterwarnings("ignore")
from menelaus.data_drift import KdqTreeStreaming
def dist(c): c=np.asarray(c,float); return (c+0.5)/(c.sum()+len(c)/2)
def kl(p,q): return float(np.sum(p*np.log(p/q)))
class Tree:
    def __init__(s,pts,ub):
        s.ub=ub; s.root=s._build(np.asarray(pts,float),0); 
    def _build(s,pts,depth):
        n,m=pts.shape; ax=depth%m; mn=pts[:,ax].min(); mid=mn+np.ptp(pts[:,ax])/2
        if n<=s.ub or np.unique(pts).size<=s.ub or mid-mn<=0: return {"leaf":True,"n":n}
        return {"leaf":False,"ax":ax,"mid":mid,"l":s._build(pts[pts[:,ax]<=mid],depth+1),"r":s._build(pts[pts[:,ax]>mid],depth+1)}
    def leaves(s,node=None,out=None):
        node=node or s.root; out=[] if out is None else out
        if node["leaf"]: out.append(node)
        else: s.leaves(node["l"],out); s.leaves(node["r"],out)
        return out
    def leaf_index(s,x):
        node=s.root; 
        while not node["leaf"]: node=node["l"] if x[node["ax"]]<=node["mid"] else node["r"]
        return [id(l) for l in s.leaves()].index(id(node))
class Model:
    def __init__(s,w,pers,alpha,B,ub,consecutive=True):
        s.w,s.pers,s.alpha,s.B,s.ub,s.cons=w,pers,alpha,B,ub,consecutive; s.total=0; s._reset()
    def _reset(s): s.since=0; s.state=None; s.refbuf=[]; s.tree=None; s.cnt=0; s.ntest=0; s.crossed=[]
    def step(s,x):
        if s.state=="drift": s._reset()
        s.total+=1; s.since+=1; mg=1
        if s.tree is None:
            s.refbuf.append(x)
            if len(s.refbuf)==s.w:
                s.tree=Tree(s.refbuf,s.ub); L=s.tree.leaves(); s.refc=[l["n"] for l in L]; s.testc=[0]*len(L)
                rd=dist(s.refc); ds=[]
                for _ in range(s.B):
                    smp=np.random.choice(list(range(len(L))),size=2*s.w,p=rd)
                    ds.append(kl(dist(np.bincount(smp[:s.w],minlength=len(L))),dist(np.bincount(smp[s.w:],minlength=len(L)))))
                s.crit=np.quantile(ds,1-s.alpha,method="nearest"); s.since=0; s.refbuf=[]
        else:
            s.testc[s.tree.leaf_index(x)]+=1; s.ntest+=1
            if s.ntest>=s.w:
                d=kl(dist(s.refc),dist(s.testc)); mg=abs(d-s.crit)/max(d,s.crit,1e-300)
                if d>s.crit:
                    s.cnt+=1; s.crossed.append(1)
                    if s.cnt>s.pers*s.w: s.state="drift"
                else:
                    s.crossed.append(0)
                    if s.cons: s.cnt=0
        return mg
def run(w,pers,alpha,B,alphabet,n,cons):
    viol=0;steps=0;drifts=0;updown=0
    for seq in itertools.product(alphabet,repeat=n):
        D=KdqTreeStreaming(window_size=w,persistence=pers,alpha=alpha,bootstrap_samples=B,count_ubound=1); M=Model(w,pers,alpha,B,1,cons)
        ud=False
        for i,x in enumerate(seq):
            np.random.seed(70+i); D.update(np.array([[x]])); np.random.seed(70+i); mg=M.step(np.array([x]))
            steps+=1
            if M.state=="drift": drifts+=1
            c=M.crossed
            if len(c)>=3 and any(c[j]==1 and c[j+1]==0 and 1 in c[j+2:] for j in range(len(c)-2)): ud=True
            if not(D.drift_state==M.state and D.samples_since_reset==M.since):
                if mg<1e-9: break
                viol+=1
                if viol<3: print("  MISMATCH",seq[:i+1],D.drift_state,M.state,D.samples_since_reset,M.since, D._drift_counter, M.cnt)
                break
        if ud: updown+=1
    print((w,pers,alpha,B,cons),"steps",steps,"drifts",drifts,"updown-histories",updown,"viol",viol)
t=time.time()
run(2,0.5,0.6,10,(0.,1.,5.),8,False)
run(2,0.5,0.6,10,(0.,1.,5.),8,True)
print(round(time.time()-t,1),"s")
