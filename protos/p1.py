import numpy as np, pandas as pd, warnings, scipy.stats
warnings.filterwarnings("ignore")
from menelaus.concept_drift import LinearFourRates
from menelaus.data_drift import KdqTreeBatch, NNDVI, HDDDM
from menelaus.partitioners import KDQTreePartitioner, NNSpacePartitioner

# --- LFR bounds protocol
l=LinearFourRates(num_mc=30,time_decay_factor=0.9,warning_level=0.2,detect_level=0.05)
np.random.seed(5); b=l._sim_bounds(0.6,7)
np.random.seed(5)
eta=0.9; N=7; p=0.6
w=np.array([eta**(N-i) for i in range(1,N+1)])
vals=[]
for _ in range(30):
    bools=np.random.binomial(1,p,size=N); vals.append((1-eta)*sum(w*bools))
mine={"lb_warn":np.percentile(vals,20),"ub_warn":np.percentile(vals,80),"lb_detect":np.percentile(vals,5),"ub_detect":np.percentile(vals,95)}
print("LFR", b==mine, b, mine)

# --- kdq critical
k=KdqTreeBatch(alpha=0.3,bootstrap_samples=15,count_ubound=1)
ref=np.array([[0.],[1.],[2.],[3.],[3.5],[0.2]])
np.random.seed(7); k.set_reference(ref)
counts=k._kdqtree.leaf_counts("build"); n=sum(counts); L=len(counts)
def dist(c): c=np.asarray(c,float); return (c+0.5)/(c.sum()+len(c)/2)
np.random.seed(7)
ref_dist=dist(counts); ds=[]
for _ in range(15):
    s=np.random.choice(list(range(L)),size=2*n,p=ref_dist)
    c1=np.bincount(s[:n],minlength=L); c2=np.bincount(s[n:],minlength=L)
    p1,p2=dist(c1),dist(c2); ds.append(float(np.sum(p1*np.log(p1/p2))))
print("kdq", counts, k._critical_dist, np.quantile(ds,0.7,method="nearest"))

# --- NNDVI threshold
nd=NNDVI(k_nn=2,sampling_times=9,alpha=0.3)
nd.set_reference(ref); test=np.array([[0.],[1.],[2.],[7.],[8.],[9.]])
nn=NNSpacePartitioner(2); nn.build(ref,test)
np.random.seed(3); th=NNDVI._compute_drift_threshold(nn.nnps_matrix,nn.v1,nn.v2,9,0.3)
np.random.seed(3)
dd=[]
for _ in range(9):
    v1=np.random.permutation(nn.v1); v2=1-v1
    a=v1@nn.nnps_matrix; b2=v2@nn.nnps_matrix
    dd.append(np.sum(np.abs(a-b2)/(a+b2))/len(v1))
mu,sd=np.mean(dd),np.std(dd)
print("nndvi", th, scipy.stats.norm.ppf(0.7,mu,sd))

# --- HDM bootstrap protocol
h=HDDDM(detect_batch=2,statistic="stdev",significance=1.0,subsets=3)
R=np.array([[0.],[1.],[2.],[3.],[3.5],[0.2],[1.1],[2.2],[0.7]])
h.set_reference(R)
B1=R+0.3; B2=R*1.5
h.update(B1)
np.random.seed(11); h.update(B2)
print("hdm thresholds", h.thresholds, h.epsilon_values, h.drift_state)
# model
refpool=np.vstack([R,B1]); n_ref=len(refpool); bins=int(np.floor(np.sqrt(n_ref)))
mn=min(refpool.min(),B2.min()); mx=max(refpool.max(),B2.max())
np.random.seed(11)
size=int((1-1/3)*n_ref); hs=[]
df=pd.DataFrame(refpool)
for i in range(3):
    sub=df.sample(n=size,replace=True)
    hs.append(np.histogram(sub.iloc[:,0],bins=bins,range=(mn,mx))[0])
def hell(a,b):
    a=a/a.sum(); b=b/b.sum(); return np.sqrt(np.sum((np.sqrt(b)-np.sqrt(a))**2))
d=[hell(hs[i],hs[j]) for i in range(3) for j in range(i+1,3)]
e=sum(abs(d[i]-d[j]) for i in range(len(d)) for j in range(i+1,len(d)))/3
print("model e0", e)
