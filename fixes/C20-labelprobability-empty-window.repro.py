"""C20 repro: LabelProbabilityInjector / LabelDirichletInjector divide by zero on an empty window.

Property C20 quantifies over all windows 0 <= from <= to <= n "including empty
and full": an empty window [k, k) leaves nothing to resample, the result must
be an unchanged copy of the data.  Instead the injector divides by the number
of candidate rows (0).

Run:  PYTHONPATH=<repo> python C20-labelprobability-empty-window.repro.py
Exit 1 when the defect is present, 0 when it is fixed.
"""
import sys
import warnings

import numpy as np
import pandas as pd

warnings.filterwarnings("ignore")
from menelaus.injection import LabelDirichletInjector, LabelProbabilityInjector

bad = 0
data = np.array([[0, 10.5], [1, 11.5], [0, 12.5]])
frame = pd.DataFrame({"y": [0, 1, 0], "x": [10.5, 11.5, 12.5]})
for name, call in (
    ("LabelProbabilityInjector ndarray [1,1)", lambda: LabelProbabilityInjector()(data, 1, 1, 0, {0: 0.5})),
    ("LabelProbabilityInjector ndarray [0,0)", lambda: LabelProbabilityInjector()(data, 0, 0, 0, {0: 0.25, 1: 0.75})),
    ("LabelProbabilityInjector DataFrame [3,3)", lambda: LabelProbabilityInjector()(frame, 3, 3, "y", {1: 1.0})),
    ("LabelDirichletInjector ndarray [2,2)", lambda: LabelDirichletInjector()(data, 2, 2, 0, {0: 1, 1: 1})),
):
    np.random.seed(0)
    try:
        out = call()
    except Exception as e:  # noqa: BLE001
        print("%-45s raised %s: %s" % (name, type(e).__name__, e))
        bad = 1
        continue
    same = np.array_equal(np.asarray(out), np.asarray(frame if isinstance(out, pd.DataFrame) else data))
    print("%-45s returned %s, unchanged copy: %s" % (name, type(out).__name__, same))
    bad |= 0 if same else 1
print("DEFECT PRESENT" if bad else "ok")
sys.exit(bad)
