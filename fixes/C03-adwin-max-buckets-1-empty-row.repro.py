#!/venv/bin/python
"""C03 repro — ADWIN(max_buckets=1): a cut after a row of the exponential histogram
was left empty corrupts the window (negative width, mean/variance of nothing,
retraining_recs with start > end).

Root cause (menelaus/change_detection/adwin.py, ADWIN._remove_last): with
max_buckets=1 a merge empties its row (2 buckets -> 1 bucket in the next row), so
rows between the head and the tail can be empty.  When a cut removes the only
bucket of the tail row, ``remove_tail()`` makes the next row the tail even if that
row is empty.  The next cut (in the same update or a later one) then treats that
empty row as the holder of the oldest bucket: it subtracts 2**(size-1) samples and
a total/variance of 0 that belong to no bucket, and sets bucket_count to -1.

Run:  PYTHONPATH=/repo /venv/bin/python C03-adwin-max-buckets-1-empty-row.repro.py
Exit status 1 = defect present, 0 = absent.
"""
import sys
import warnings

import numpy as np

warnings.filterwarnings("ignore")
np.seterr(all="ignore")

from menelaus.change_detection import ADWIN  # noqa: E402


def run(params, stream, label):
    det = ADWIN(**params)
    w = 0
    for i, x in enumerate(stream):
        det.update(x)
        if det.drift_state == "drift":
            a, b = det.retraining_recs
            if not (0 <= a <= b == i):
                print("%s: sample %d: retraining_recs = (%s, %s) is not a window ending at %d" % (label, i, a, b, i))
                return False
            w = b - a + 1
        else:
            w += 1
        window = np.array(stream[i + 1 - w : i + 1], dtype=float)
        m, v = float(window.mean()), float(window.var())
        if abs(det.mean() - m) > 1e-9 * max(1, abs(m)) or abs(det.variance() - v) > 1e-9 * max(1, abs(v)):
            print(
                "%s: sample %d: mean()/variance() = %r / %r, but the %d most recent inputs have %r / %r"
                % (label, i, float(det.mean()), float(det.variance()), w, m, v)
            )
            return False
    return True


ok = True
# minimal witness (11 samples): after the 9th sample the 8-bucket is cut (W = 1), leaving the
# empty 4-row as tail; the cut at the 11th sample removes "4 samples" from a window of 3
ok &= run(
    dict(delta=1.0, max_buckets=1, new_sample_thresh=1, window_size_thresh=0, subwindow_size_thresh=1),
    [0] * 8 + [5, 5, 0],
    "minimal",
)
# default delta / window_size_thresh / subwindow_size_thresh, drift checked at every sample
ok &= run(
    dict(max_buckets=1, new_sample_thresh=1),
    [0.1] * 59 + [50.0] * 19 + [100.0] * 17,
    "defaults",
)
if not ok:
    print("DEFECT PRESENT: ADWIN(max_buckets=1) corrupts its window when cutting past an emptied bucket row")
    sys.exit(1)
print("ok: ADWIN(max_buckets=1) keeps exact statistics of its window on both witnesses")
sys.exit(0)
