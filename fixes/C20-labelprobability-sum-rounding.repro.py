"""C20 repro: LabelDirichletInjector fails on roughly every tenth call with
"Probabilities ... exceed 1".

The components of a numpy.random.dirichlet draw add up to 1 only up to
rounding; LabelProbabilityInjector rejects any dictionary whose Python sum is
> 1.0 exactly, so a draw that sums to 1 + 1 ulp (about 4 % of the draws for two
classes, 9 % for three, 18 % for ten) is refused.  test_dirichlet_shift_1 uses
seed 0, which happens to draw a vector summing to <= 1.

Run:  PYTHONPATH=<repo> python C20-labelprobability-sum-rounding.repro.py
Exit 1 when the defect is present, 0 when it is fixed.
"""
import sys
import warnings

import numpy as np

warnings.filterwarnings("ignore")
from menelaus.injection import LabelDirichletInjector

data = np.array([[0, 10.5], [1, 11.5], [0, 12.5], [1, 13.5]])
fails = []
for seed in range(200):
    np.random.seed(seed)
    try:
        out = LabelDirichletInjector()(data, 0, 4, 0, {0: 1, 1: 1})
        assert out.shape == data.shape
    except ValueError as e:
        fails.append((seed, str(e)))
for seed, msg in fails[:3]:
    print("numpy.random.seed(%d): ValueError: %s" % (seed, msg))
print("%d of 200 seeds make a valid call fail" % len(fails))
print("DEFECT PRESENT" if fails else "ok")
sys.exit(1 if fails else 0)
