"""C19 repro: MD3 accepts oracle_data_length_required < k and then dead-locks.

The labelled samples collected after a warning become the new reference batch,
whose statistics MD3 computes with k-fold cross validation.  With fewer
labelled samples than folds that computation raises (sklearn KFold) in the
middle of give_oracle_label: the call that should confirm / rule out drift,
adopt the new reference and stop waiting instead leaves the detector
half-updated (drift_state and reference_batch_* already overwritten,
waiting_for_oracle still True, oracle_data still holding the samples).  Every
later give_oracle_label grows oracle_data past the required length, so the
round never completes, and update() is refused forever.

Run:  PYTHONPATH=/repo /venv/bin/python C19-oracle-length-below-k.repro.py
Exit 1 = defect present, 0 = absent (configuration refused up front, or the
round completes).
"""
import sys
import warnings

import pandas as pd
from sklearn import svm

from menelaus.concept_drift.md3 import MD3

warnings.filterwarnings("ignore")

data = [[1, 1, 0], [3, 4, 1], [1.25, 2.25, 0], [4, 4, 1], [2, 2, 0], [5, 6, 1], [1, 2, 0], [6, 7, 1]]
df = pd.DataFrame(data, columns=["var1", "var2", "y"])
clf = svm.SVC(kernel="linear").fit(df[["var1", "var2"]], df["y"])

try:
    det = MD3(clf=clf, sensitivity=0.5, k=3, oracle_data_length_required=2)
    det.set_reference(df, target_name="y")
except ValueError as e:
    print("OK: configuration refused up front:", " ".join(str(e).split()))
    sys.exit(0)

sample = pd.DataFrame([[3, 4]], columns=["var1", "var2"])
while not det.waiting_for_oracle:
    det.update(sample)
print("warning after %d updates; oracle_data_length_required=%d, k=%d"
      % (det.total_updates, det.oracle_data_length_required, det.k))

labels = [[1, 2, 0], [6, 7, 1], [1, 1, 0], [5, 6, 1], [2, 2, 0]]
for i, row in enumerate(labels, 1):
    lab = pd.DataFrame([row], columns=["var1", "var2", "y"])
    try:
        det.give_oracle_label(lab)
        what = "accepted"
    except ValueError as e:
        what = "ValueError(%s...)" % " ".join(str(e).split())[:60]
    n = None if det.oracle_data is None else len(det.oracle_data)
    print("label %d: %s  waiting=%s len(oracle_data)=%s drift_state=%s reference len=%s reference rows=%d"
          % (i, what, det.waiting_for_oracle, n, det.drift_state,
             det.reference_distribution["len"], len(det.reference_batch_features)))
    if not det.waiting_for_oracle:
        break

if det.waiting_for_oracle:
    try:
        det.update(sample)
        stuck = False
    except ValueError:
        stuck = True
    print("DEFECT: after %d labelled samples (required: %d) MD3 is still waiting for the oracle, "
          "update refused=%s" % (len(labels), det.oracle_data_length_required, stuck))
    sys.exit(1)
print("OK: round completed")
sys.exit(0)
