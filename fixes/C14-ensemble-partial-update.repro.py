"""C14: a call refused by one member of a StreamingEnsemble has already been processed by the members in front of it.

Ensemble.update feeds the members one after the other and the ensemble itself never validates its input.  In an
ensemble that combines a member reading X with a member reading the labels, a malformed call (two rows in X, or
several labels) is refused with ValueError by the member that reads the malformed part - after the other member
has counted the sample.  The ensemble's own counter does not move, its members' do: every later output of the
ensemble can differ from a run in which the refused call never happened.

Exit 1 while the defect is present, 0 otherwise.
"""
import sys
import warnings

warnings.simplefilter("ignore")
import numpy as np
from menelaus.change_detection import PageHinkley
from menelaus.concept_drift import DDM
from menelaus.ensemble import StreamingEnsemble, MinimumApprovalElection


def build(order):
    members = {
        "x": PageHinkley(delta=0.0, threshold=0.5, burn_in=1),
        "y": DDM(n_threshold=2, warning_scale=0.5, drift_scale=1.5),
    }
    return StreamingEnsemble({k: members[k] for k in order}, MinimumApprovalElection(1))


# (x value, y_true, y_pred)
HISTORY = [(1.0, 1, 1), (1.0, 1, 0), (4.0, 1, 1), (1.0, 1, 1), (4.0, 1, 0), (1.0, 1, 0), (1.0, 1, 1)]
MALFORMED = {
    "two rows in X": (np.array([[1.0], [2.0]]), 1, 1),
    "two labels in y_true": (np.array([[1.0]]), [1, 0], 1),
}


def run(order, inject_at=None, bad=None):
    ens = build(order)
    trace, refused = [], None
    for i, (x, yt, yp) in enumerate(HISTORY):
        if i == inject_at:
            try:
                ens.update(*MALFORMED[bad])
                refused = "accepted"
            except ValueError:
                refused = "ValueError"
        ens.update(np.array([[x]]), yt, yp)
        trace.append((ens.drift_state, ens.total_samples, {k: d.total_samples for k, d in ens.detectors.items()}))
    return trace, refused


failed = False
for order in (("x", "y"), ("y", "x")):
    twin, _ = run(order)
    for bad in MALFORMED:
        for pos in (1, 3):
            got, refused = run(order, pos, bad)
            if refused != "ValueError":
                failed = True
                print("members %s: %s before update %d was not refused with ValueError (%s)" % (order, bad, pos, refused))
            if got != twin:
                failed = True
                first = next(i for i, (a, b) in enumerate(zip(twin, got)) if a != b)
                print("members %s: after the refused call (%s, before update %d) update %d gives %s, the run that "
                      "never saw the refused call gives %s" % (order, bad, pos, first, got[first], twin[first]))
if failed:
    sys.exit(1)
print("ok: refused calls left no trace in the ensemble or its members")
sys.exit(0)
