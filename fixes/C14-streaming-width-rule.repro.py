"""C14 repro (R2 for StreamingDetector, and the univariate-guard variant of R1).

(a) The DataFrame branch of ``StreamingDetector._validate_X`` never compares the
    frame's width with a width established by earlier arrays/lists: a 3-column frame
    after 2-column rows passes validation, the counters move, and the call then fails
    inside numpy (KdqTreeStreaming: ValueError from vstack AFTER total_samples was
    incremented) or is silently processed (PCACD).
(b) ADWIN / CUSUM / PageHinkley refuse multi-column input only AFTER ``_validate_X``
    has stored its width (and names): one refused 3-column call makes every later
    valid call fail.

Run:  PYTHONPATH=/repo /venv/bin/python C14-streaming-width-rule.repro.py
Exit status 1 = defect present, 0 = behaves as specified.
"""
import sys
import warnings

import numpy as np
import pandas as pd

warnings.filterwarnings("ignore")
from menelaus.change_detection import ADWIN, CUSUM, PageHinkley  # noqa: E402
from menelaus.data_drift import KdqTreeStreaming, PCACD  # noqa: E402

bad = []
wide = pd.DataFrame([[1.0, 2.0, 3.0]], columns=["a", "b", "c"])

# (a) width rule: arrays of width 2, then a DataFrame of width 3
det = KdqTreeStreaming(window_size=2, bootstrap_samples=4)
det.update(np.array([[0.0, 0.0]]))
before = det.total_samples
try:
    det.update(wide)
    out = "accepted"
except ValueError as e:
    out = "ValueError(%s)" % str(e)[:60]
print("KdqTreeStreaming: 1x3 DataFrame after 1x2 arrays -> %s; total_samples %d -> %d" % (out, before, det.total_samples))
if det.total_samples != before:
    bad.append("KdqTreeStreaming counted a 3-column frame after 2-column rows")

det = PCACD(window_size=4)
det.update(np.array([[0.0, 1.0]]))
try:
    det.update(wide)
    print("PCACD: 1x3 DataFrame after 1x2 arrays -> accepted, total_samples", det.total_samples)
    bad.append("PCACD accepted a 3-column frame after 2-column rows")
except ValueError as e:
    print("PCACD: 1x3 DataFrame after 1x2 arrays -> ValueError(%s)" % str(e)[:60])

# (b) univariate detectors: a refused multi-column call must not constrain later input
for name, mk in (("ADWIN", ADWIN), ("CUSUM", lambda: CUSUM(target=0, sd_hat=1, burn_in=2)), ("PageHinkley", PageHinkley)):
    for label, X in (("[1,2,3]", [1.0, 2.0, 3.0]), ("1x3 DataFrame", wide)):
        det = mk()
        try:
            det.update(X)
            print(name, label, "accepted!")
            bad.append(name + " accepted multi-column input")
            continue
        except ValueError:
            pass
        try:
            det.update(0.5)
            print("%s: valid scalar after refused %s -> accepted" % (name, label))
        except ValueError as e:
            print("%s: valid scalar after refused %s -> ValueError(%s)" % (name, label, str(e)[:50]))
            bad.append("%s unusable after a refused %s" % (name, label))
    # ... and a wide frame after valid scalars must be refused without harm
    det = mk()
    det.update(0.5)
    try:
        det.update(wide)
    except ValueError:
        pass
    try:
        det.update(pd.DataFrame({"v": [0.7]}))
    except ValueError as e:
        print("%s: valid 1x1 DataFrame after scalar + refused wide frame -> ValueError(%s)" % (name, str(e)[:50]))
        bad.append("%s: refused wide frame after scalars poisons later frames" % name)

print("DEFECT PRESENT: " + "; ".join(bad) if bad else "ok")
sys.exit(1 if bad else 0)
