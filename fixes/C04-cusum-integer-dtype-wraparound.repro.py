#!/venv/bin/python
"""C04 repro -- CUSUM with a given integer target evaluates ``x - target`` in the
dtype of the observation: for an unsigned (or narrow) integer-typed observation
below the target the difference wraps around (uint8: 98 - 100 = 254), the upper
sum jumps by ~254 / sd and a drift is reported for a stream that is 2 sd *below*
target; the lower sum, which should have grown, stays 0.

Root cause (menelaus/change_detection/cusum.py, CUSUM.update): the validated
observation is kept as a (1, 1) array of the caller's dtype and
``(self._stream[-1] - self.target) / self.sd_hat`` is evaluated by numpy in that
dtype when ``target`` is a python int (weak scalar promotion).  Estimated
statistics are not affected (numpy's mean / std return float64).

The stream is fed twice: as python ints (reference) and as uint8 arrays holding
the same numbers.

Run:  PYTHONPATH=/repo /venv/bin/python C04-cusum-integer-dtype-wraparound.repro.py
Exit status 1 = defect present, 0 = absent.
"""
import sys
import warnings

import numpy as np

warnings.filterwarnings("ignore")
np.seterr(all="ignore")

from menelaus.change_detection import CUSUM  # noqa: E402

STREAM = [100, 101, 98, 100, 104, 98, 98]


def trace(wrap):
    det = CUSUM(target=100, sd_hat=1, burn_in=0, delta=0, threshold=3)
    out = []
    for x in STREAM:
        det.update(wrap(x))
        out.append(det.drift_state)
        if det.drift_state == "drift":
            break
    return out


ref = trace(lambda x: int(x))
got = trace(lambda x: np.array([x], dtype=np.uint8))
print("python ints :", ref)
print("uint8 arrays:", got)
if ref != got:
    i = min(j for j in range(min(len(ref), len(got))) if ref[j] != got[j]) if any(a != b for a, b in zip(ref, got)) else min(len(ref), len(got))
    print("DEFECT PRESENT: decisions differ at sample %d (value %d, target 100, sd 1, threshold 3)" % (i, STREAM[i]))
    sys.exit(1)
print("defect absent")
sys.exit(0)
