"""C15 repro: MD3.give_oracle_label keeps the caller's DataFrame itself as ``oracle_data``.

The first labelled sample is stored by reference; if the caller reuses that
frame before the next label arrives, the collected oracle data (and hence the
drift decision and the retrained reference) contain the overwritten values.

Run:  [VERIF_REPO=/path/to/tree] /venv/bin/python C15-md3-oracle-label-alias.repro.py
Exit 1 = defect present, 0 = absent.
"""
import os
import sys
import warnings

sys.path.insert(0, os.environ.get("VERIF_REPO", "/repo"))
warnings.filterwarnings("ignore")

import numpy as np
import pandas as pd
from sklearn.base import BaseEstimator, ClassifierMixin

from menelaus.concept_drift import MD3


class Threshold(ClassifierMixin, BaseEstimator):
    def fit(self, X, y):
        X, y = np.asarray(X, float), np.asarray(y).ravel()
        self.thr_ = (X[y == 1, 0].mean() + X[y == 0, 0].mean()) / 2
        self.classes_ = np.array([0, 1])
        return self

    def predict(self, X):
        return (np.asarray(X, float)[:, 0] > self.thr_).astype(int)


def margin(detector, sample, clf):
    return int(abs(sample[0] - clf.thr_) <= 0.3)


REF = pd.DataFrame({"x0": [0.0, 0.4, 0.9, 1.4, 1.1, 1.6, 2.1, 2.5], "x1": [1.0, 0.0] * 4, "y": [0, 0, 0, 1, 0, 1, 1, 1]})


def run(overwrite):
    clf = Threshold().fit(REF[["x0", "x1"]], REF["y"])
    det = MD3(clf=clf, margin_calculation_function=margin, sensitivity=0.5, k=2, oracle_data_length_required=2)
    det.set_reference(REF.copy(), target_name="y")
    while not det.waiting_for_oracle:
        det.update(pd.DataFrame({"x0": [clf.thr_ + 0.1], "x1": [0.0]}))
    first = pd.DataFrame({"x0": [clf.thr_ + 1.0], "x1": [1.0], "y": [1]})
    det.give_oracle_label(first)
    if overwrite:
        first.iloc[:, :] = 777  # the caller reuses its frame for something else
    seen = det.oracle_data.to_numpy().tolist()
    det.give_oracle_label(pd.DataFrame({"x0": [clf.thr_ - 1.0], "x1": [1.0], "y": [0]}))
    return seen, det.drift_state, det.reference_batch_features.to_numpy().tolist()


a, b = run(False), run(True)
if a != b:
    print("DEFECT: MD3 after two oracle labels")
    print("  private frames       : oracle_data %r -> state %r, new reference %r" % a)
    print("  first frame reused   : oracle_data %r -> state %r, new reference %r" % b)
    print("defect present")
    sys.exit(1)
print("defect absent")
sys.exit(0)
