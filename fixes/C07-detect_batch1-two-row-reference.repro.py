"""C07: HDDDM / CDBD with detect_batch=1 (the default) cannot take a reference of 2 rows, although a
batch of 2 rows is the documented minimum ("more than one observation").

detect_batch=1 splits every new reference by position into a reference half and a proxy test half
and feeds the proxy half through the *public* ``update`` (histogram_density_method.py, ``reset``:
``self.update(test_proxy.values)``), whose input validation refuses a 1-row array.  Consequences:

(a) ``set_reference`` of a 2-row batch raises ValueError("... more than one observation") although
    two observations were given;
(b) worse, a drift reported on a 2-row test batch (a valid call) makes the *next* valid ``update``
    raise from inside the pending re-initialisation, and leaves the detector damaged: the reference is
    1 row, the second row of the drifted batch is lost, the proxy batch is not counted
    (batches_since_reset 0 where the specification says 1 + the new batch) and the call's own batch is
    dropped -- later calls silently continue from that state.

The property: "with drift the batch replaces [the reference], the statistics restart", for all
numeric batch sequences of varying sizes.  Exits 1 when the defect is present, 0 otherwise.

Repair: /verif/fixes/C07-detect_batch1-two-row-reference.patch (the body of update() after the
validation becomes _update(); reset() hands the proxy half to _update() directly).

Run:  PYTHONPATH=/repo /venv/bin/python /verif/fixes/C07-detect_batch1-two-row-reference.repro.py
"""
import sys
import warnings

import numpy as np

warnings.filterwarnings("ignore")
from menelaus.data_drift import CDBD, HDDDM  # noqa: E402

bad = 0

# (a) 2-row initial reference
for cls, ref in ((HDDDM, np.array([[0.0, 1.0], [3.0, 0.5]])), (CDBD, np.array([[0.0], [3.0]]))):
    det = cls(detect_batch=1)
    try:
        det.set_reference(ref)
        print("(a) %s.set_reference(2 rows): ok, total_batches=%d reference_n=%d"
              % (cls.__name__, det.total_batches, det.reference_n))
        if (det.total_batches, det.reference_n) != (1, 2):
            bad += 1
    except ValueError as e:
        print("(a) DEFECT %s.set_reference(2 rows) raised ValueError(%s)" % (cls.__name__, e))
        bad += 1

# (b) drift on a 2-row batch, then an ordinary batch
R = np.array([[0.0, 1.0], [1.0, 0.0], [2.0, 2.0], [3.0, 1.0], [0.5, 0.5], [1.5, 1.5], [2.5, 0.2], [0.2, 1.7]])
far2 = np.array([[9.0, 9.0], [10.0, 12.0]])
det = HDDDM(detect_batch=1, statistic="stdev", significance=0.5)
det.set_reference(R)
np.random.seed(1)
det.update(far2)
print("(b) update(2-row far batch): drift_state=%r total_batches=%d" % (det.drift_state, det.total_batches))
if det.drift_state != "drift":
    print("    (no drift reported under this seed: scenario not reached)")
    sys.exit(2)
try:
    np.random.seed(1)
    det.update(R)
    # the new epoch: reference = far2 split 1 + 1 (proxy batch counted), then R
    print("    next update(R): ok, total_batches=%d batches_since_reset=%d reference rows=%d"
          % (det.total_batches, det.batches_since_reset, len(det.reference)))
    if (det.total_batches, det.batches_since_reset) != (4, 2):
        bad += 1
except ValueError as e:
    print("    DEFECT next update(R) raised ValueError(%s); detector left with reference of %d row(s), "
          "batches_since_reset=%d" % (e, len(det.reference), det.batches_since_reset))
    bad += 1

if bad:
    sys.exit(1)
print("ok")
