"""C09 repro: KdqTreeStreaming never resets its persistence counter when the
divergence falls back to or below the critical value, although persistence is
documented as "how many samples in a row ... must be in the drift region".

Stream 0,1,0,1,0,1,0 with window_size=2, persistence=0.5 (needs more than one
sample in a row above the bound), alpha=0.6, 10 bootstrap samples: the
divergence goes above / at-or-below / above the bound; the detector alarms at
the second, non-consecutive excursion.

Run:  PYTHONPATH=<repo> python C09-persistence-in-a-row.repro.py
Exit 1 when the defect is present, 0 when it is fixed.
"""
import sys
import warnings

import numpy as np

warnings.filterwarnings("ignore")
from menelaus.data_drift import KdqTreeStreaming

det = KdqTreeStreaming(window_size=2, persistence=0.5, alpha=0.6, bootstrap_samples=10, count_ubound=1)
in_a_row = 0
bad = 0
for i, x in enumerate((0, 1, 0, 1, 0, 1, 0)):
    np.random.seed(70 + i)
    det.update(np.array([[float(x)]]))
    d, c = det._test_dist, det._critical_dist
    if d is not None:
        in_a_row = in_a_row + 1 if d > c else 0
    expected = "drift" if (d is not None and in_a_row > 0.5 * 2) else None
    print("sample %d value %d divergence %s bound %s in-a-row %d -> drift_state %r (expected %r)"
          % (i + 1, x, d, c, in_a_row, det.drift_state, expected))
    if det.drift_state != expected:
        bad = 1
print("DEFECT PRESENT" if bad else "ok")
sys.exit(bad)
