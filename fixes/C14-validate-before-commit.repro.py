"""C14 repro (R1): a REJECTED first call still fixes the expected width / column names.

``StreamingDetector._validate_X`` and ``BatchDetector._validate_X`` store
``_input_col_dim`` / ``_input_cols`` before the row-count test, so a call that is
refused ("should contain only one observation" / "more than one observation")
nevertheless constrains all later input: the user's corrected call is refused too.
The same happens later in a stream when the first DataFrame a detector ever sees is
a refused one (its names are kept).

Run:  PYTHONPATH=/repo /venv/bin/python C14-validate-before-commit.repro.py
Exit status 1 = defect present, 0 = behaves as specified.
"""
import sys
import warnings

import numpy as np
import pandas as pd

warnings.filterwarnings("ignore")
from menelaus.data_drift import KdqTreeStreaming, KdqTreeBatch, PCACD  # noqa: E402

bad = []


def refused(f):
    try:
        f()
    except ValueError as e:
        return str(e)
    return None


# 1. streaming: the two feature values passed as a column instead of a row -> refused (fine) ...
det = KdqTreeStreaming(window_size=2, bootstrap_samples=4)
assert refused(lambda: det.update(np.array([[1.0], [2.0]])))
# ... but the corrected call is now refused as well
msg = refused(lambda: det.update(np.array([[1.0, 2.0]])))
print("streaming, valid row after a refused 2x1 first call:", msg or "accepted")
if msg:
    bad.append("streaming width poisoned by a refused first call")

# 2. batch: a single 3-feature row (refused: batch of one) fixes width 3; the 2-feature batches are then refused
det = KdqTreeBatch(bootstrap_samples=4)
assert refused(lambda: det.set_reference(np.array([[1.0, 2.0, 3.0]])))
msg = refused(lambda: det.set_reference(np.arange(12.0).reshape(6, 2)))
print("batch, valid 6x2 reference after a refused 1x3 first call:", msg or "accepted")
if msg:
    bad.append("batch width poisoned by a refused first call")

# 3. mid-stream: arrays were accepted, then a refused two-row DataFrame leaves its column names behind
det = PCACD(window_size=4)
det.update(np.array([[0.0, 1.0]]))
assert refused(lambda: det.update(pd.DataFrame([[1.0, 2.0], [3.0, 4.0]], columns=["x", "y"])))
msg = refused(lambda: det.update(pd.DataFrame([[1.0, 2.0]], columns=["a", "b"])))
print("streaming, first valid DataFrame after a refused two-row DataFrame:", msg or "accepted")
if msg:
    bad.append("column names kept from a refused DataFrame")

print("DEFECT PRESENT: " + "; ".join(bad) if bad else "ok")
sys.exit(1 if bad else 0)
