"""C11 defect (b): with divergence_metric="intersection" and more than one retained
principal component, PCACD builds the *test* histograms of every component (and
winsorises every component of an incoming sample) on the support of the LAST
component only.

`self.lower` / `self.upper` are plain attributes overwritten inside the
`for i in range(self.num_pcs)` loop that builds the reference histograms, so the
reference histogram of component i uses component i's own range while everything
done later uses the last component's range.  Values outside that range are
dropped by numpy.histogram or clipped into it; the two histograms of a component
are no longer built on the same bin edges.

Witness: a stream that simply repeats its first four samples.  At every check the
test window holds exactly the samples of the reference window, so the change
score (1 - histogram intersection) must be 0; the unrepaired code reports 0.25
(and up to 1.0 on other periodic streams).

Exit status 1 = defect present, 0 = absent.
Run:  PYTHONPATH=/repo /venv/bin/python /verif/fixes/C11-shared-support.repro.py
"""
import sys
import warnings

import numpy as np

warnings.filterwarnings("ignore")
from menelaus.data_drift import PCACD  # noqa: E402

pts = [(0.0, 0.0), (1.0, 2.0), (2.0, 1.0), (4.0, 4.0)]
det = PCACD(window_size=4, ev_threshold=0.99, delta=0.0, divergence_metric="intersection", sample_period=0.25)
for i in range(16):
    det.update(np.array([pts[i % 4]]))
scores = [float(s) for s in det._change_score[1:]]
print("num_pcs:", det.num_pcs)
print("change scores on a stream whose test window always equals its reference window:", scores)
print("support kept by the detector: lower=%r upper=%r" % (det.lower, det.upper))
if any(abs(s) > 1e-9 for s in scores):
    print("DEFECT PRESENT: identical windows score %r instead of 0" % max(scores))
    sys.exit(1)
print("ok: identical windows score 0 on every component")
sys.exit(0)
