"""C11 defect (c): PCACD(divergence_metric="kl") records a NaN change score when a
component's two kernel-density vectors coincide up to rounding, feeds it to its
Page-Hinkley test and is blind from then on.

scipy's jensenshannon() returns sqrt(js/2) where js can come out marginally
negative (-1e-17) for p ~= q, i.e. NaN instead of 0.  PCACD does not guard
against it: max() over the per-component scores becomes NaN (or not, depending
on the position of the NaN), PageHinkley's running mean becomes NaN, every later
comparison is False, so no drift is ever reported again.

Exit status 1 = defect present, 0 = absent.
Run:  PYTHONPATH=/repo /venv/bin/python /verif/fixes/C11-js-nan.repro.py
"""
import math
import sys
import warnings

import numpy as np

warnings.filterwarnings("ignore")
np.seterr(all="ignore")
from menelaus.data_drift import PCACD  # noqa: E402

period = [(0.0, 0.0), (2.5, 2.0), (4.0, 4.5)]  # repeats: test window == reference window
shifted = [(100.0 + 7 * j, -50.0 + 3 * j * j) for j in range(12)]  # blatantly different data


det = PCACD(window_size=3, ev_threshold=0.99, delta=0.0, divergence_metric="kl", sample_period=0.34)
states = []
for x in period * 3 + shifted:
    det.update(np.array([x]))
    states.append(det.drift_state)
scores = [float(s) for s in det._change_score]
print("scores          :", scores)
print("drift reported  :", [i + 1 for i, s in enumerate(states) if s], "(expected: sample 10, the first shifted one, at the latest)")
bad = any(math.isnan(s) for s in scores)
blind = not any(states)
if bad or blind:
    print("DEFECT PRESENT: NaN change score%s" % (", Page-Hinkley poisoned: no drift reported on the shifted data" if blind else ""))
    sys.exit(1)
print("ok: change scores are finite")
sys.exit(0)
