"""C07 (also C02, DESIGN §5 item 6): HDM.set_reference() on a used detector keeps
the drift index ``_lambda`` of the previous epoch, so the adaptive threshold of
the new epoch divides by (t - lambda - 1) counted from the *old* epoch.

A detector that saw k batches before set_reference(R) must, from then on,
report the same thresholds as a fresh detector given set_reference(R) and the
same batches.  Exits 1 when the defect is present, 0 otherwise.

Status: repaired in /repo by the lead's commit ce5147d (KNOWN_FINDINGS "fixed: property=C02 ...",
one line in set_reference: ``self._lambda = self.total_batches`` before ``self.reset()``), the same
repair C07 arrived at independently; this script is kept as the regression repro.  C07 reports a
re-introduction as sub-check ``HDM-set_reference-stale-lambda``.

Run:  PYTHONPATH=/repo /venv/bin/python /verif/fixes/C07-set_reference-stale-lambda.repro.py
"""
import sys
import warnings

import numpy as np

warnings.filterwarnings("ignore")
from menelaus.data_drift import HDDDM  # noqa: E402

lo = np.array([[0.0], [1.0], [2.0], [3.0]])
b1 = np.array([[0.2], [1.1], [2.2], [2.9], [0.6], [1.6], [2.4], [0.9], [1.9]])
b2 = lo * 0.9 + 0.4
b3 = lo * 0.7 + 0.2

kw = dict(detect_batch=3, statistic="stdev", significance=1, divergence="H")
used = HDDDM(**kw)
used.set_reference(lo)
used.update(b1)
used.update(lo)  # two batches of an earlier epoch, no drift
used.set_reference(lo)  # the user supplies a new reference: a new epoch starts
fresh = HDDDM(**kw)
fresh.set_reference(lo)
for b in (b1, b2, b3):
    used.update(b)
    fresh.update(b)

t_used = used.thresholds[used.total_batches]
t_fresh = fresh.thresholds[fresh.total_batches]
eps = fresh.epsilon_values[fresh.total_batches - 1]
print("epsilon of the 2nd batch of the epoch      :", eps)
print("threshold at the 3rd batch, fresh detector :", t_fresh, "(= eps/2 + 1*sqrt((eps/2)^2/2))")
print("threshold at the 3rd batch, used detector  :", t_used)
if abs(t_used - t_fresh) > 1e-12:
    print("DEFECT: set_reference() did not restart the (t - lambda - 1) scaling")
    sys.exit(1)
print("ok")
sys.exit(0)
