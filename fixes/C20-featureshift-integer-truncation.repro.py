"""C20 repro: FeatureShiftInjector silently truncates the shift on integer data.

Documented effect: column = column + shift_factor * (alpha + window mean).
For an integer ndarray (or an all-integer DataFrame) the float result is
written back into the integer copy and truncated toward zero; with
shift_factor 0.5 and column [0, 0, 3] (the repository's own test data, as
integers) the shift 0.5005 disappears completely and the "drifted" data equal
the input.

Run:  PYTHONPATH=<repo> python C20-featureshift-integer-truncation.repro.py
Exit 1 when the defect is present, 0 when it is fixed.
"""
import sys
import warnings

import numpy as np
import pandas as pd

warnings.filterwarnings("ignore")
from menelaus.injection import FeatureShiftInjector

bad = 0
col = [0, 0, 3]
delta = 0.5 * (0.001 + sum(col) / 3)
expected = [c + delta for c in col]
for name, data, c in (
    ("float ndarray", np.array([[float(v)] for v in col]), 0),
    ("int ndarray", np.array([[v] for v in col]), 0),
    ("int DataFrame", pd.DataFrame({"x": col, "y": [1, 2, 3]}), "x"),
):
    out = FeatureShiftInjector()(data, 0, 3, c, 0.5)
    got = [float(v) for v in (out[:, 0] if isinstance(out, np.ndarray) else out["x"])]
    ok = np.allclose(got, expected)
    print("%-14s column %r + %.4f -> %r %s" % (name, col, delta, got, "" if ok else "  <-- shift lost"))
    bad |= 0 if ok else 1
print("DEFECT PRESENT" if bad else "ok")
sys.exit(bad)
