"""C14 repro: HDDDM / CDBD (HistogramDensityMethod) and mixed ndarray / DataFrame input.

(a) reference given as ndarray, next batch as a DataFrame with column names:
    the names are adopted for the test batch only, ``pd.concat`` then aligns reference
    and test batch BY LABEL, the stored reference becomes a 4-column frame full of NaN
    and the following update dies inside numpy ("supplied range of [nan, nan]").
(b) detect_batch=1: ``reset()`` feeds half of the reference through ``update`` as a
    DataFrame with default integer labels, which "establishes" the column names 0..n-1:
    after ``set_reference(ndarray)`` every DataFrame with real column names is refused.
(c) detect_batch=1: ``update`` performs that reset BEFORE validating its argument, so
    a refused call made right after a drift is counted (total_batches moves) and, if
    the user then calls ``set_reference``, all later batch indices are shifted by one
    compared with a run in which the refused call never happened.

Run:  PYTHONPATH=/repo /venv/bin/python C14-hdm-internal-update-and-labels.repro.py
Exit status 1 = defect present, 0 = behaves as specified.
"""
import sys
import warnings

import numpy as np
import pandas as pd

warnings.filterwarnings("ignore")
from menelaus.data_drift import HDDDM  # noqa: E402

b = np.array([[0.0, 1.0], [1.0, 0.0], [2.0, 2.5], [3.0, 0.5], [0.5, 3.0], [1.5, 1.5]])
bad = []

# (a), (b)
for db in (2, 1):
    np.random.seed(0)
    d = HDDDM(detect_batch=db, statistic="stdev", significance=0.5, subsets=3)
    d.set_reference(b)
    try:
        d.update(pd.DataFrame(b + 0.1, columns=["a", "b"]))
        d.update(b + 0.2)
        print("detect_batch=%d: ndarray reference, named DataFrame, ndarray -> accepted, reference has %d NaN" % (db, int(d.reference.isna().sum().sum())))
    except ValueError as e:
        print("detect_batch=%d: ndarray reference then named DataFrame -> ValueError(%s)" % (db, str(e)[:70]))
        bad.append("detect_batch=%d refuses / breaks on a named DataFrame after an ndarray reference" % db)


# (c)
def run(with_refused_call):
    np.random.seed(0)
    d = HDDDM(detect_batch=1, statistic="stdev", significance=0.5, subsets=3)
    d.set_reference(b)
    np.random.seed(1)
    d.update(b)
    np.random.seed(2)
    d.update(b + np.array([4.0, 0.0]))
    assert d.drift_state == "drift", d.drift_state
    if with_refused_call:
        t = d.total_batches
        try:
            d.update(np.array([[1.0, 2.0]]))  # one row: refused
        except ValueError:
            pass
        if d.total_batches != t:
            print("refused one-row update right after a drift: total_batches %d -> %d" % (t, d.total_batches))
    np.random.seed(3)
    d.set_reference(b + np.array([4.0, 0.0]))
    np.random.seed(4)
    d.update(b)
    return d.total_batches, sorted(d.distances)


r0, r1 = run(False), run(True)
print("without the refused call: total_batches=%d distances keys=%s" % r0)
print("with    the refused call: total_batches=%d distances keys=%s" % r1)
if r0 != r1:
    bad.append("a refused update after a drift is counted (detect_batch=1)")

print("DEFECT PRESENT: " + "; ".join(bad) if bad else "ok")
sys.exit(1 if bad else 0)
