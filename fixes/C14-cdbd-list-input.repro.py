"""C14 repro: CDBD refuses list input with AttributeError.

Every other batch detector coerces lists through ``_validate_X``; CDBD's own
univariate guard reads ``X.shape`` before that, so ``set_reference`` / ``update`` with
a list (1-D or nested) raise AttributeError instead of behaving like the equivalent
ndarray — and a malformed list is not answered with ValueError either.

Run:  PYTHONPATH=/repo /venv/bin/python C14-cdbd-list-input.repro.py
Exit status 1 = defect present, 0 = behaves as specified.
"""
import sys
import warnings

import numpy as np

warnings.filterwarnings("ignore")
from menelaus.data_drift import CDBD  # noqa: E402

ref = [0.0, 1.0, 2.0, 3.0, 0.5, 1.5]
bad = []
for label, X in (("1-D list", ref), ("nested list", [[v] for v in ref])):
    np.random.seed(0)
    a = CDBD(detect_batch=2, subsets=3)
    b = CDBD(detect_batch=2, subsets=3)
    b.set_reference(np.array(ref).reshape(-1, 1))
    try:
        a.set_reference(X)
        a.update([[v + 4.0] for v in ref] if label == "nested list" else [v + 4.0 for v in ref])
        b.update(np.array(ref).reshape(-1, 1) + 4.0)
        same = a.current_distance == b.current_distance
        print("%s: accepted, distance %s the ndarray run" % (label, "equals" if same else "DIFFERS from"))
        if not same:
            bad.append(label + " gives different output")
    except AttributeError as e:
        print("%s: AttributeError(%s)" % (label, e))
        bad.append(label + " -> AttributeError")
c = CDBD(detect_batch=2, subsets=3)
try:
    c.set_reference([[1.0, 2.0], [3.0, 4.0]])
    bad.append("two-column list accepted")
except ValueError:
    print("two-column nested list: ValueError (as specified)")
except AttributeError as e:
    print("two-column nested list: AttributeError(%s) instead of ValueError" % e)
    bad.append("malformed list -> AttributeError")
print("DEFECT PRESENT: " + "; ".join(bad) if bad else "ok")
sys.exit(1 if bad else 0)
