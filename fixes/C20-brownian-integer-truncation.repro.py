"""C20 finding (no patch): BrownianNoiseInjector truncates the noise on integer data.

Documented effect: noise added along a random walk w with w[0] = x0 and
increments of +-1/sqrt(steps).  On an integer ndarray / all-integer DataFrame
the float sum is written back into the integer copy and truncated toward zero,
so the added "noise" is not the walk (for 4 steps the increments +-0.5 become 0
or +-1).  tests/menelaus/injection/test_noise.py::test_brownian_noise_1 builds
its expected value by assigning the float walk into an integer array as well,
i.e. it pins the truncation: promoting to float (the FeatureShiftInjector
repair) makes that test fail, hence reported as a finding only.

Run:  PYTHONPATH=<repo> python C20-brownian-integer-truncation.repro.py
Exit 1 when the behaviour is present, 0 when it is gone.
"""
import sys
import warnings

import numpy as np

warnings.filterwarnings("ignore")
from menelaus.injection import BrownianNoiseInjector

bad = 0
for name, data in (("float ndarray", np.arange(7.0).reshape(7, 1)), ("int ndarray", np.arange(7).reshape(7, 1))):
    out = BrownianNoiseInjector()(data, 1, 5, 0, 0, random_state=0)
    noise = (out[1:5, 0] - data[1:5, 0]).astype(float)
    inc = np.abs(np.diff(noise))
    ok = noise[0] == 0 and np.allclose(inc, 1 / np.sqrt(4))
    print("%-14s noise %r increments %r (expected magnitude 0.5) %s" % (name, noise.tolist(), inc.tolist(), "" if ok else "  <-- not the walk"))
    bad |= 0 if ok else 1
print("BEHAVIOUR PRESENT" if bad else "ok")
sys.exit(bad)
