"""C15 repro: detectors keep a live view of a caller's DataFrame (detector.py: ``ary = X.values``).

Under pandas 3 ``DataFrame.values`` of a single-dtype frame is a (read-only)
view; ``_validate_X`` returns it and NNDVI / CUSUM / PageHinkley store it.  A
caller that reuses its frame (``df.iloc[:, :] = ...``) silently rewrites the
detector's reference batch / stored stream.

Run:  [VERIF_REPO=/path/to/tree] /venv/bin/python C15-validate-X-dataframe-view.repro.py
Exit 1 = defect present, 0 = absent.
"""
import os
import sys
import warnings

sys.path.insert(0, os.environ.get("VERIF_REPO", "/repo"))
warnings.filterwarnings("ignore")

import numpy as np
import pandas as pd

from menelaus.change_detection import CUSUM, PageHinkley
from menelaus.data_drift import NNDVI

bad = []

# 1. NNDVI: the reference batch follows the caller's frame, and so do the decisions
ref = np.array([[0.0, 1.0], [1.0, 0.0], [2.0, 2.5], [3.0, 0.5], [0.5, 3.0], [1.5, 1.5]])


def nndvi_run(overwrite):
    det = NNDVI(k_nn=2, sampling_times=8, alpha=0.3)
    frame = pd.DataFrame(ref.copy(), columns=["a", "b"])
    det.set_reference(frame)
    if overwrite:
        frame.iloc[:, :] = 777.0  # the caller reuses its frame
    stored = np.array(det.reference_batch)
    np.random.seed(1)
    det.update(pd.DataFrame(ref + 0.25, columns=["a", "b"]))
    return stored, det.drift_state


(stored0, state0), (stored1, state1) = nndvi_run(False), nndvi_run(True)
if not np.array_equal(stored0, stored1):
    bad.append("NNDVI.reference_batch changed when the caller overwrote the frame it had passed to set_reference: %r" % stored1[0].tolist())
if state0 != state1:
    bad.append("NNDVI decision on the same test batch: %r with a private frame, %r after the caller reused its frame" % (state0, state1))


# 2. CUSUM: burn-in statistics are computed from views of rows the caller has reused since
def cusum_run(overwrite):
    det = CUSUM(target=None, sd_hat=None, burn_in=2, delta=0.5, threshold=1)
    out = []
    for v in (-2.0, 0.0, 1.0, 4.0):
        row = pd.DataFrame({"x": [v]})
        try:
            det.update(row)
            out.append((det.drift_state, None if det.target is None else float(det.target)))
        except ValueError as e:
            out.append("ValueError: " + " ".join(str(e).split())[:40])
        if overwrite:
            row.iloc[:, :] = 777.0
    return out


a, b = cusum_run(False), cusum_run(True)
if a != b:
    bad.append("CUSUM trace with private rows %r, with rows the caller reused afterwards %r" % (a, b))


# 3. Page-Hinkley: to_dataframe() reports the junk instead of the observations
def ph_run(overwrite):
    det = PageHinkley(delta=0.0, threshold=5, burn_in=5)
    for v in (1.0, 2.0, 3.0):
        row = pd.DataFrame({"x": [v]})
        det.update(row)
        if overwrite:
            row.iloc[:, :] = 777.0
    return [float(np.ravel(x)[0]) for x in det.to_dataframe()["change_scores"]]


a, b = ph_run(False), ph_run(True)
if a != b:
    bad.append("PageHinkley.to_dataframe() change_scores %r with private rows, %r after the caller reused them" % (a, b))

for m in bad:
    print("DEFECT:", m)
print("defect present" if bad else "defect absent")
sys.exit(1 if bad else 0)
