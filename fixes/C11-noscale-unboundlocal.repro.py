"""C11 defect (a): PCACD(online_scaling=False) crashes on the first update after
its two windows are full.

`update()` only assigns `next_obs` inside `if self.online_scaling is True:`; with
online_scaling=False the sliding branch reads an unassigned local and raises
UnboundLocalError, i.e. the documented option "project the raw data" cannot
process more than 2 * window_size samples.

Exit status 1 = defect present, 0 = absent.
Run:  PYTHONPATH=/repo /venv/bin/python /verif/fixes/C11-noscale-unboundlocal.repro.py
"""
import sys
import warnings

import numpy as np

warnings.filterwarnings("ignore")
from menelaus.data_drift import PCACD  # noqa: E402

pts = [(0.0, 0.0), (1.0, 1.25), (2.5, 2.0), (4.0, 4.5)]
for metric in ("intersection", "kl"):
    det = PCACD(window_size=4, divergence_metric=metric, sample_period=0.25, online_scaling=False)
    for i in range(12):
        try:
            det.update(np.array([pts[i % 4]]))
        except UnboundLocalError as e:
            print("DEFECT PRESENT: %s, online_scaling=False: update #%d raised UnboundLocalError: %s" % (metric, i + 1, e))
            sys.exit(1)
    print("ok: %s, online_scaling=False processed 12 samples, num_pcs=%d, scores=%s"
          % (metric, det.num_pcs, [round(float(s), 6) for s in det._change_score]))
sys.exit(0)
