"""C10 repro: NNSpacePartitioner assigns pooled points to the wrong sample when the
two samples have different sizes.

``build`` pools the rows (sample1 first, then sample2), de-duplicates them and then
splits the inverse index *in the middle* (``np.array_split(inverted_indices, 2)``)
instead of after ``len(sample1)`` rows.  For unequal sizes v1 / v2 are therefore not
the membership indicators of the samples, the NNPS distance is not symmetric, is not 0
for identical sets, and NNDVI compares the wrong point sets.

Run:  PYTHONPATH=/repo /venv/bin/python C10-nnsp-split-at-sample1.repro.py
Exit status 1 = defect present, 0 = behaves as specified.
"""
import sys
import warnings

import numpy as np

warnings.filterwarnings("ignore")
from menelaus.partitioners import NNSpacePartitioner  # noqa: E402

bad = []

# 1. membership: sample 1 = {0}, sample 2 = {1, 2, 4}
s1 = np.array([[0.0]])
s2 = np.array([[1.0], [2.0], [4.0]])
p = NNSpacePartitioner(2)
p.build(s1, s2)
print("D  =", p.D.ravel().tolist())
print("v1 =", p.v1.tolist(), " expected [1, 0, 0, 0]")
print("v2 =", p.v2.tolist(), " expected [0, 1, 1, 1]")
if p.v1.tolist() != [1.0, 0.0, 0.0, 0.0] or p.v2.tolist() != [0.0, 1.0, 1.0, 1.0]:
    bad.append("v1/v2 are not the membership indicators for sizes 1 and 3")

# 2. symmetry: distance(s1, s2) must equal distance(s2, s1)
a = np.array([[0.0], [1.0], [2.0], [4.0]])
b = np.array([[0.0], [7.0], [7.0]])
q = NNSpacePartitioner(2)
q.build(a, b)
d_ab = float(q.compute_nnps_distance(q.nnps_matrix, q.v1, q.v2))
q.build(b, a)
d_ba = float(q.compute_nnps_distance(q.nnps_matrix, q.v1, q.v2))
print("distance(a,b) = %r   distance(b,a) = %r" % (d_ab, d_ba))
if abs(d_ab - d_ba) > 1e-12:
    bad.append("distance is not symmetric for sizes 4 and 3")

# 3. identity: the same set given with a repeated row must be at distance 0
c = np.array([[0.0], [1.0], [2.0]])
c_rep = np.array([[0.0], [0.0], [0.0], [1.0], [2.0]])
r = NNSpacePartitioner(2)
r.build(c_rep, c)
d_same = float(r.compute_nnps_distance(r.nnps_matrix, r.v1, r.v2))
print("distance({0,0,0,1,2},{0,1,2}) = %r   expected 0.0   v1=%s v2=%s" % (d_same, r.v1.tolist(), r.v2.tolist()))
if not abs(d_same) <= 1e-12:
    bad.append("distance between identical sets of unequal multiplicity is not 0")

if bad:
    print("DEFECT PRESENT:")
    for x in bad:
        print("  -", x)
    sys.exit(1)
print("ok: v1/v2 follow the sample boundaries")
sys.exit(0)
