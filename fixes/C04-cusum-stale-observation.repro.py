"""C04 repro: CUSUM after its first alarm must test the observation just supplied.

Defect (pinned tree before the repair 7a7b4a5 in /repo): update() read
``self._stream[self.samples_since_reset - 1]``.  ``_stream`` is never cleared
while ``samples_since_reset`` restarts at every alarm, so from the second epoch
on the cumulative sums were fed the OLDEST observations of the stream instead
of the current one.

History (target=0, sd_hat=1, burn_in=3, delta=0.5, threshold=2, two-sided):
    0 0 0 4   alarm at the 4th sample (s_h = 3.5 > 2) - both versions agree
    4 4 4 4   second epoch, standardised with the last burn_in = 3 observations
              (0, 0, 4): target = 4/3, sd = 1.8856
Feeding the constant level 4 gives z = +1.414 per sample, s_h = 0.914, 1.828,
2.743, 3.657: the cumulative-sum test on the current observations alarms on the
first sample past the burn-in, the 4th of the epoch (8th overall).  The
defective code re-reads 0, 0, 0, 4 instead (z = -0.707 three times, then
+1.414), ends with s_h = 0.914 and reports nothing.

Exit status: 1 if the defect is present, 0 otherwise.
Usage: PYTHONPATH=<repo> /venv/bin/python C04-cusum-stale-observation.repro.py
"""
import sys
import warnings
from fractions import Fraction as F

warnings.filterwarnings("ignore")
from menelaus.change_detection import CUSUM  # noqa: E402

stream = [0, 0, 0, 4, 4, 4, 4, 4]
burn_in, delta, h = 3, F(1, 2), 2

# independent computation (textbook recurrences on the current observation)
expected = []
target, sd, hi, lo, n, state = F(0), 1.0, 0.0, 0.0, 0, None
fed = []
for x in stream:
    if state == "drift":
        tail = fed[-burn_in:]
        target = F(sum(tail), len(tail))
        sd = float(sum((t - target) ** 2 for t in tail) / len(tail)) ** 0.5
        hi = lo = 0.0
        n, state = 0, None
    fed.append(x)
    n += 1
    z = float(x - target) / sd
    hi = max(0.0, hi + z - float(delta))
    lo = max(0.0, lo - z - float(delta))
    if n > burn_in and (hi > h or lo > h):
        state = "drift"
    expected.append(state)

det = CUSUM(target=0, sd_hat=1, burn_in=burn_in, delta=float(delta), threshold=h)
observed = []
for x in stream:
    det.update(float(x))
    observed.append(det.drift_state)

print("stream   :", stream)
print("expected :", expected)
print("observed :", observed)
if observed != expected:
    print("DEFECT PRESENT: CUSUM decided from stale observations after its first alarm")
    sys.exit(1)
print("ok: CUSUM tests the current observation in every epoch")
sys.exit(0)
