"""C20 repro: classes that occur only OUTSIDE the window distort the requested class probabilities.

LabelProbabilityInjector(data, from, to, col, {0: 0.5}) must resample the window
so that class 0 is drawn with probability 0.5 ("altered probability for specified
classes, uniform probability for remaining classes").  The un-specified classes
are collected from the whole column: a class that lives only outside the window
receives a share of the remaining mass, has no row to give it to, and the share
is then spread over all rows of the window - including those of class 0.

labels [0, 1, 2], window [0, 2) (classes 0 and 1), request {0: 0.5}:
expected weights  row0 (class 0) = 0.5, row1 (class 1) = 0.5
observed          row0 = 0.625,         row1 = 0.375
The same call on labels [0, 1] alone gives 0.5 / 0.5.

Run:  PYTHONPATH=<repo> python C20-labelprobability-classes-outside-window.repro.py
Exit 1 when the defect is present, 0 when it is fixed.
"""
import sys
import warnings

import numpy as np

warnings.filterwarnings("ignore")
from menelaus.injection import LabelProbabilityInjector

seen = []
real_choice = np.random.choice


def recording_choice(a, size=None, replace=True, p=None):
    seen.append((list(a), None if p is None else [float(x) for x in p]))
    return real_choice(a, size, replace, p)


np.random.choice = recording_choice
bad = 0
try:
    for labels, window, request, expected in (
        ([0, 1, 2], (0, 2), {0: 0.5}, {0: 0.5, 1: 0.5}),
        ([0, 1], (0, 2), {0: 0.5}, {0: 0.5, 1: 0.5}),
        ([0, 0, 1, 2, 2], (0, 3), {1: 0.25}, {0: 0.75, 1: 0.25}),
        ([2, 0, 1, 1], (1, 4), {0: 0.5, 1: 0.5}, {0: 0.5, 1: 0.5}),
    ):
        data = np.array([[float(c), 10.5 + i] for i, c in enumerate(labels)])
        del seen[:]
        np.random.seed(0)
        LabelProbabilityInjector()(data, window[0], window[1], 0, dict(request))
        rows, weights = seen[-1]
        mass = {}
        for r, w in zip(rows, weights):
            mass[int(labels[r])] = mass.get(int(labels[r]), 0.0) + w
        ok = set(mass) == set(expected) and all(abs(mass[c] - expected[c]) < 1e-9 for c in expected)
        print("labels %r window %r request %r -> class masses handed to numpy.random.choice %r, expected %r %s"
              % (labels, window, request, mass, expected, "" if ok else "  <-- WRONG"))
        bad |= 0 if ok else 1
finally:
    np.random.choice = real_choice
print("DEFECT PRESENT" if bad else "ok")
sys.exit(bad)
