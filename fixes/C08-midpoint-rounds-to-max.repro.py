"""C08 repro: KDQTreeNode.build splits a node whose midpoint rounds up to the
maximum of the axis (adjacent floats with an odd mantissa).  The upper cell is
then empty: in 1-D build recurses forever on the same points (RecursionError);
in 2-D the recursion ends on the other axis but the node is left with
right=None, so its upper cell is covered by no leaf and fill loses points
(parent count != sum of children).

Run:  PYTHONPATH=<repo> python C08-midpoint-rounds-to-max.repro.py
Exit 1 when the defect is present, 0 when it is fixed.
"""
import sys

import numpy as np

from menelaus.partitioners.KDQTreePartitioner import KDQTreePartitioner

bad = 0
a = float(np.nextafter(1.0, 2.0))  # odd mantissa
b = float(np.nextafter(a, 2.0))

# 1-D: non-termination
kp = KDQTreePartitioner(count_ubound=1, cutpoint_proportion_lbound=2e-10)
sys.setrecursionlimit(400)
try:
    kp.build(np.array([[a], [a], [b], [b]]))
    print("1-D: build terminated, leaf counts", kp.leaf_counts("build"))
except RecursionError:
    print("1-D: build([[a],[a],[b],[b]], count_ubound=1) -> RecursionError (a + (b-a)/2 rounds to b)")
    bad = 1
sys.setrecursionlimit(10000)

# 2-D: a node with a missing child; a filled point is lost
kp = KDQTreePartitioner(count_ubound=1, cutpoint_proportion_lbound=2e-10)
root = kp.build(np.array([[1.0, 1.0], [b, a], [b, b]]))


def walk(node, path=""):
    global bad
    if node is None or node.axis is None:
        return
    if node.left is None or node.right is None:
        print("2-D: internal node %r (axis %d, midpoint %r) has children %r" % (
            path, node.axis, node.midpoint_at_axis, (node.left is not None, node.right is not None)))
        bad = 1
    walk(node.left, path + "L")
    walk(node.right, path + "R")


walk(root)
kp.fill(np.array([[b, 2.0]]), "probe")
if sum(kp.leaf_counts("probe")) != 1:
    print("2-D: fill of 1 point -> leaf counts", kp.leaf_counts("probe"), "(point lost)")
    bad = 1
print("DEFECT PRESENT" if bad else "ok")
sys.exit(bad)
