#!/venv/bin/python
"""C03 repro -- ADWIN keeps its running sum (and sum of squared deviations) in the
dtype of the observations it is fed: an integer-typed stream of a narrow dtype
wraps around, after which mean() / variance() are not the statistics of the
window, spurious cuts are made and retraining_recs point at the wrong window.

Root cause (menelaus/change_detection/adwin.py, ADWIN.update / _add_sample):
``X = X[0][0]`` is a numpy scalar of the input's dtype and ``self._curr_total``
starts as the python int 0; under numpy 2 promotion rules ``0 + np.uint8(100)`` is
a ``np.uint8``, so ``_curr_total += new_value`` accumulates in uint8 / int8 /
int16 / int32 (and in float32 for float32 input: 7 significant digits only).
uint8: three samples of 100 already sum past 255.

Each stream below is fed twice: as python ints (reference) and as 1-element
arrays of the narrow dtype holding the *same numbers*.

Run:  PYTHONPATH=/repo /venv/bin/python C03-adwin-sums-in-input-dtype.repro.py
Exit status 1 = defect present, 0 = absent.
"""
import sys
import warnings

import numpy as np

warnings.filterwarnings("ignore")
np.seterr(all="ignore")

from menelaus.change_detection import ADWIN  # noqa: E402


def trace(stream, wrap):
    det = ADWIN()  # default parameters
    out = []
    for x in stream:
        det.update(wrap(x))
        r = det.retraining_recs
        out.append((det.drift_state, None if r[0] is None else (int(r[0]), int(r[1])), float(det.mean()), float(det.variance())))
    return out


CASES = [
    ("uint8", np.uint8, [100, 120, 90, 110] * 10),
    ("int8", np.int8, [-100, -99, -95, -100] * 10),
    ("int16", np.int16, [10000, 10001, 10005, 10000] * 10),
    ("int32", np.int32, [30000000, 30000001, 30000005] * 32),
]

bad = 0
for name, dt, stream in CASES:
    ref = trace(stream, lambda x: int(x))
    got = trace(stream, lambda x, dt=dt: np.array([x], dtype=dt))
    for i, (a, b) in enumerate(zip(ref, got)):
        same = a[0] == b[0] and a[1] == b[1] and abs(a[2] - b[2]) <= 1e-9 * abs(a[2]) and abs(a[3] - b[3]) <= 1e-9 * max(abs(a[3]), 1e-300) + 1e-9
        if not same:
            print("%s stream, sample %d (value %r): as python int   state=%r recs=%r mean=%r variance=%r" % ((name, i, stream[i]) + a))
            print("%s                               as %-6s array state=%r recs=%r mean=%r variance=%r" % ((" " * len(name), name) + b))
            bad += 1
            break
    else:
        print("%s stream: identical to the python-int run" % name)

if bad:
    print("DEFECT PRESENT: %d of %d narrow-integer streams give statistics that are not those of the window" % (bad, len(CASES)))
    sys.exit(1)
print("defect absent")
sys.exit(0)
