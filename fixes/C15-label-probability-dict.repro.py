"""C15 repro: LabelProbabilityInjector writes into the caller's ``class_probabilities`` dict.

Classes that the caller left unspecified are added to the caller's dictionary
(with their uniform share), so a dictionary reused for a second call no longer
means what the caller wrote.

Run:  [VERIF_REPO=/path/to/tree] /venv/bin/python C15-label-probability-dict.repro.py
Exit 1 = defect present, 0 = absent.
"""
import os
import sys

sys.path.insert(0, os.environ.get("VERIF_REPO", "/repo"))

import numpy as np

from menelaus.injection import LabelProbabilityInjector

data = np.array([[0.5, 0.0], [1.5, 1.0], [2.5, 0.0], [3.5, 2.0]])
probs = {0: 0.5}
np.random.seed(0)
LabelProbabilityInjector()(data, 0, 4, 1, probs)
if probs != {0: 0.5}:
    print("DEFECT: class_probabilities passed as {0: 0.5} is now %r" % probs)
    print("defect present")
    sys.exit(1)
print("defect absent")
sys.exit(0)
