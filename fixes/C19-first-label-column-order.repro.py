"""C19 repro: the column ORDER of the first labelled sample of a round leaks into the reference.

give_oracle_label accepts every one-row frame that carries the same column
NAMES as the reference batch (the refusal rule compares name sets), and the
samples after the first are aligned by name (pd.concat).  The first sample of a
round, however, is stored as it is, so the collected frame -- and, once the round
completes, the adopted reference batch -- keeps that sample's column order.
From then on MD3 works with the features in the wrong order:

* the k-fold statistics of the adopted reference hand the rows to the margin
  function (a positional numpy array) with the features exchanged, so md /
  md_std / the warning threshold differ from those of the same samples listed
  in the reference's order;
* in the next round the accuracy test calls the user's classifier with the
  feature columns in the adopted order; a classifier fitted on named columns
  refuses them (sklearn: "Feature names must be in the same order as they were
  in fit") from inside give_oracle_label, after the sample was already
  appended: the round can never complete and update() is refused for ever.

Two detectors receive the same updates and the same labelled samples; the only
difference is the order in which the FIRST labelled sample lists its columns.

Run:  PYTHONPATH=/repo /venv/bin/python C19-first-label-column-order.repro.py
Exit 1 = defect present, 0 = absent.
"""
import sys
import warnings

import pandas as pd
from sklearn import svm

from menelaus.concept_drift.md3 import MD3

warnings.filterwarnings("ignore")

COLS = ["var1", "var2", "y"]
data = [[1, 1, 0], [3, 4, 1], [1.25, 2.25, 0], [4, 4, 1], [2, 2, 0], [5, 6, 1], [1, 2, 0], [6, 7, 1]]
df = pd.DataFrame(data, columns=COLS)
labels = [[1, 2, 0], [6, 7, 1], [1.5, 1, 0], [5, 6, 1], [2, 1, 0], [4, 5, 1], [1, 1.5, 0], [6, 5, 1]]
labels2 = [[2, 2, 0], [5, 7, 1], [1, 1, 0], [6, 6, 1], [2, 1.5, 0], [4, 4.5, 1], [1.5, 1.5, 0], [5, 5, 1]]
bad = []


def run(first_order):
    clf = svm.SVC(kernel="linear").fit(df[["var1", "var2"]], df["y"])
    det = MD3(clf=clf, sensitivity=0.5, k=2, oracle_data_length_required=8)
    det.set_reference(df, target_name="y")
    sample = pd.DataFrame([[2.5, 3.0]], columns=["var1", "var2"])
    while not det.waiting_for_oracle:
        det.update(sample)
    for i, row in enumerate(labels):
        lab = pd.DataFrame([row], columns=COLS)
        if i == 0:
            lab = lab[first_order]
        det.give_oracle_label(lab)
    assert not det.waiting_for_oracle
    out = {
        "feature order of the adopted reference": list(det.reference_batch_features.columns),
        "reference_distribution": {k: round(float(v), 6) for k, v in det.reference_distribution.items()},
    }
    # next round
    n = 0
    while not det.waiting_for_oracle and n < 200:
        det.update(sample)
        n += 1
    out["updates until the next warning"] = n
    res = "completed"
    for row in labels2:
        if not det.waiting_for_oracle:
            break
        try:
            det.give_oracle_label(pd.DataFrame([row], columns=COLS))
        except Exception as e:  # noqa: BLE001
            res = "%s: %s" % (type(e).__name__, " ".join(str(e).split())[:90])
            break
    out["second round"] = res
    out["waiting after the second round"] = bool(det.waiting_for_oracle)
    return out


a = run(COLS)
b = run(["y", "var2", "var1"])
for k in a:
    same = a[k] == b[k]
    print("%-42s reference order: %s" % (k, a[k]))
    print("%-42s other order    : %s%s" % ("", b[k], "" if same else "   <-- differs"))
    if not same:
        bad.append(k)
if bad:
    print("DEFECT: the order in which the first labelled sample lists its columns changes", bad)
    sys.exit(1)
print("OK: labelled samples are identified by column name")
sys.exit(0)
