------------------------- MODULE ConfirmedElection -------------------------
(***************************************************************************)
(* Secondary model of menelaus.ensemble.ConfirmedElection (property C13).  *)
(*                                                                         *)
(* N members each report "none", "warning" or "drift" in every call.  A    *)
(* member is a voter in the call in which it newly reports drift and in    *)
(* each of its next `wait` calls in which it does not report warning; a    *)
(* call in which it reports warning counts it as a warning and does not    *)
(* use up waiting time.  Verdict: "drift" when the voters reach `sens`,    *)
(* "warning" when voters plus warnings reach it, "none" otherwise.         *)
(*                                                                         *)
(* c[i] = number of calls since member i's alarm in which it voted (the    *)
(* alarm call included), 0 when idle -- the implementation's               *)
(* wait_period_counters.  The parameters (wait, sens) are picked in Init,  *)
(* so a single TLC run covers every parameterisation 0..MaxWait x          *)
(* 1..MaxSens.  `last` / `verdict` record the vote vector and the answer   *)
(* of the call that led to the state, so that every edge of the dumped     *)
(* state graph can be replayed on the real class (checks/c13.py).          *)
(***************************************************************************)
EXTENDS Naturals, FiniteSets

CONSTANTS N, MaxWait, MaxSens

VARIABLES wait, sens, c, last, verdict

vars == <<wait, sens, c, last, verdict>>

Members == 1..N
Reports == {"none", "warning", "drift"}

Init == /\ wait \in 0..MaxWait
        /\ sens \in 1..MaxSens
        /\ c = [i \in Members |-> 0]
        /\ last = [i \in Members |-> "none"]
        /\ verdict = "init"

(* member i votes in a call with report vector v *)
Votes(v, i) == \/ (c[i] = 0 /\ v[i] = "drift")       \* newly reports drift
               \/ (c[i] # 0 /\ v[i] # "warning")     \* still waiting, not warning

Warns(v, i) == v[i] = "warning"

Call(v) ==
    LET voters   == Cardinality({i \in Members : Votes(v, i)})
        warnings == Cardinality({i \in Members : Warns(v, i)})
    IN /\ verdict' = IF voters >= sens THEN "drift"
                     ELSE IF voters + warnings >= sens THEN "warning"
                     ELSE "none"
       /\ c' = [i \in Members |->
                   IF Votes(v, i)
                   THEN (IF c[i] + 1 > wait THEN 0 ELSE c[i] + 1)
                   ELSE c[i]]
       /\ last' = v
       /\ UNCHANGED <<wait, sens>>

Next == \E v \in [Members -> Reports] : Call(v)

Spec == Init /\ [][Next]_vars

(* the per-member wait counters never exceed wait_time *)
CounterInv == \A i \in Members : c[i] \in 0..wait

TypeOK == /\ wait \in 0..MaxWait
          /\ sens \in 1..MaxSens
          /\ c \in [Members -> 0..MaxWait]
          /\ last \in [Members -> Reports]
          /\ verdict \in {"init", "none", "warning", "drift"}

(* a verdict of drift needs at least sens members that are not warning *)
DriftNeedsVoters ==
    verdict = "drift" => Cardinality({i \in Members : last[i] # "warning"}) >= sens

(* with no waiting at all nobody is ever remembered *)
NoMemoryWithoutWait == wait = 0 => \A i \in Members : c[i] = 0

(* a waiting member that does not report warning advances (or expires);   *)
(* one that reports warning keeps its place; idle members move only by    *)
(* alarming                                                               *)
StepShape ==
    [][\A i \in Members :
          /\ (last'[i] = "warning" => c'[i] = c[i])
          /\ (c[i] # 0 /\ last'[i] # "warning" => c'[i] = (c[i] + 1) % (wait + 1))
          /\ (c[i] = 0 /\ last'[i] = "none" => c'[i] = 0)
          /\ (c[i] = 0 /\ last'[i] = "drift" => c'[i] = (IF wait = 0 THEN 0 ELSE 1))
      ]_vars
=============================================================================
