SPECIFICATION Spec
CONSTANTS
    N = 3
    MaxWait = 2
    MaxSens = 4
INVARIANTS
    TypeOK
    CounterInv
    DriftNeedsVoters
    NoMemoryWithoutWait
PROPERTIES
    StepShape
