#!/venv/bin/python
"""Markdown table of the round-5 seeded changes (DESIGN.md §8.9) from seeded/*-5*/meta.json: who caught what."""
import glob
import json
import os
import re

HERE = os.path.dirname(os.path.dirname(os.path.abspath(__file__)))


def main():
    print("| seed | what it is / what it needs (author's notes) | first evaluation | caught by (system of the first violations; signature) |")
    print("|---|---|---|---|")
    for m in sorted(glob.glob(os.path.join(HERE, "seeded", "*-5[AB]", "meta.json"))):
        j = json.load(open(m))
        hist = j.get("detection_history", [])
        first = hist[0]["detected_by"] if hist else j.get("detected_by")
        needs = " ".join((j.get("needs_to_manifest") or "").replace("|", "/").split())
        needs = needs[:150] + ("…" if len(needs) > 150 else "")
        who, sig = [], []
        for c, r in j.get("checks_run", {}).items():
            for f in r.get("first", []):
                mm = re.match(r"\[([^\]]+)\]\s*([^:]+):", f)
                if mm and mm.group(1) not in who:
                    who.append(mm.group(1))
                if mm and mm.group(2) not in sig:
                    sig.append(mm.group(2))
        last = j.get("detected_by")
        print("| %s | %s | %s | %s |" % (
            j["id"], needs, "caught" if first else "missed",
            ("%s — %s; `%s`" % (", ".join(last), ", ".join(who[:2]), ", ".join(sig[:2]))) if last else "— (NOT caught)"))


if __name__ == "__main__":
    main()
