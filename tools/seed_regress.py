#!/venv/bin/python
"""Re-evaluate filed seeded changes (seeded/<id>/) against the current checks.

usage: tools/seed_regress.py [--jobs N] [--suite] [--tier quick] [ids or property prefixes ...]
Each seed is re-run through tools/seed_eval.py --keep (appends to its detection_history). Prints one line per seed and a
summary; exit 1 if any seed is not detected by the check of its property.
"""
import glob
import json
import os
import subprocess
import sys
from concurrent.futures import ThreadPoolExecutor

HERE = os.path.dirname(os.path.dirname(os.path.abspath(__file__)))


def one(sid, suite, tier):
    d = os.path.join(HERE, "seeded", sid)
    prop = json.load(open(os.path.join(d, "meta.json")))["breaks_property"]
    cmd = [os.path.join(HERE, "tools", "seed_eval.py"), sid, prop, os.path.join(d, "patch.diff"), os.path.join(d, "demo.py"),
           "--keep", "--tier", tier] + ([] if suite else ["--no-suite"])
    p = subprocess.run(cmd, capture_output=True, text=True)
    try:
        j = json.loads(p.stdout[p.stdout.index("{"):])
        r = j["checks"][prop]
        line = "%s demo %s/%s detected_by=%s exit=%s wall=%ss %s" % (sid, j.get("demo_unchanged_exit"), j.get("demo_changed_exit"),
                                                                    j["detected_by"], r["exit"], r["wall_s"], r["signatures"][:1])
        ok = bool(j["detected_by"]) and j.get("demo_unchanged_exit") == 0 and j.get("demo_changed_exit") != 0
    except Exception:
        line = "%s FAILED to evaluate: %s" % (sid, (p.stdout + p.stderr)[-400:])
        ok = False
    print(("ok   " if ok else "MISS ") + line, flush=True)
    return sid, ok


def main():
    a = sys.argv[1:]
    jobs, suite, tier, sel = 2, False, "quick", []
    i = 0
    while i < len(a):
        if a[i] == "--jobs":
            jobs = int(a[i + 1]); i += 2
        elif a[i] == "--suite":
            suite = True; i += 1
        elif a[i] == "--tier":
            tier = a[i + 1]; i += 2
        else:
            sel.append(a[i]); i += 1
    ids = sorted(os.path.basename(os.path.dirname(m)) for m in glob.glob(os.path.join(HERE, "seeded", "*", "meta.json")))
    if sel:
        ids = [s for s in ids if any(s == x or s.startswith(x + "-") for x in sel)]
    with ThreadPoolExecutor(jobs) as ex:
        res = list(ex.map(lambda s: one(s, suite, tier), ids))
    miss = [s for s, ok in res if not ok]
    print("seeds=%d detected=%d missed=%s" % (len(res), len(res) - len(miss), miss))
    return 1 if miss else 0


if __name__ == "__main__":
    sys.exit(main())
