#!/venv/bin/python
"""Quick sensitivity probe: apply one textual mutation to a scratch copy of /repo and run checks.

usage: tools/mutate.py <relative file> <old> <new> <check,check,...> [--tests tests/menelaus/...]
The copy lives under /dev/shm/mut_<pid> and is removed afterwards.
"""
import os
import shutil
import subprocess
import sys

HERE = os.path.dirname(os.path.dirname(os.path.abspath(__file__)))


def main():
    f, old, new, checks = sys.argv[1:5]
    tests = None
    if "--tests" in sys.argv:
        tests = sys.argv[sys.argv.index("--tests") + 1]
    d = "/dev/shm/mut_%d" % os.getpid()
    shutil.rmtree(d, ignore_errors=True)
    shutil.copytree("/repo", d, ignore=shutil.ignore_patterns(".git", "htmlcov", "docs", "__pycache__"))
    try:
        p = os.path.join(d, f)
        s = open(p).read()
        if s.count(old) < 1:
            print("pattern not found")
            return 2
        open(p, "w").write(s.replace(old, new))
        if tests:
            r = subprocess.run("/venv/bin/python -m pytest -q -p no:cacheprovider -o addopts='' %s 2>&1 | tail -1" % tests, shell=True, cwd=d, capture_output=True, text=True)
            print("repo tests:", r.stdout.strip())
        for c in checks.split(","):
            e = dict(os.environ, VERIF_REPO=d)
            r = subprocess.run("./check %s --no-evidence" % c, shell=True, cwd=HERE, env=e, capture_output=True, text=True)
            lines = [l for l in r.stdout.splitlines() if "signature" in l or l.startswith("  [")][:4]
            print("%s exit=%d %s" % (c, r.returncode, "DETECTED" if r.returncode == 1 else ("MISSED" if r.returncode == 0 else "HARNESS")))
            for l in lines:
                print("    " + l.strip()[:220])
            if r.returncode == 2:
                print("\n".join(r.stdout.splitlines()[-5:]))
    finally:
        shutil.rmtree(d, ignore_errors=True)


if __name__ == "__main__":
    sys.exit(main())
