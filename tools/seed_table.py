#!/venv/bin/python
"""Prints the markdown table of seeded changes (DESIGN.md §8.4) from seeded/*/meta.json."""
import glob
import json
import os

HERE = os.path.dirname(os.path.dirname(os.path.abspath(__file__)))


def main():
    rows = []
    for m in sorted(glob.glob(os.path.join(HERE, "seeded", "*", "meta.json"))):
        j = json.load(open(m))
        hist = j.get("detection_history", [])
        first = hist[0]["detected_by"] if hist else j.get("detected_by")
        last = j.get("detected_by")
        note = ""
        if not first and last:
            note = "missed at first; caught after strengthening"
        elif not last:
            note = "NOT caught"
        needs = (j.get("needs_to_manifest") or "").replace("|", "/")
        needs = needs[:160] + ("…" if len(needs) > 160 else "")
        c = j.get("confirmed", {})
        rows.append(
            "| %s | %s | %s | %s / %s | %s | %s |"
            % (
                j["id"], j["breaks_property"], needs,
                c.get("demo_exit_unchanged"), c.get("demo_exit_changed"),
                "yes" if c.get("existing_suite_passes_with_change") else "NO",
                (", ".join(last) if last else "—") + (" (" + note + ")" if note else ""),
            )
        )
    print("| seed | property | what it is / what it needs (from the author's notes) | demo exit unchanged / changed | suite still passes | detected by |")
    print("|---|---|---|---|---|---|")
    print("\n".join(rows))


if __name__ == "__main__":
    main()
