#!/usr/bin/env python3
"""Prepare /tmp/seed5/<Cxx> worktrees + property texts (+ one-line summaries of earlier seeds) for round-5 seed agents.
usage: tools/seed_setup3.py C03 C04 ...   (prints the prompt file path per property)"""
import json, os, subprocess, sys, glob
HERE = os.path.dirname(os.path.dirname(os.path.abspath(__file__)))
props = {json.loads(l)["id"]: json.loads(l) for l in open(os.path.join(HERE, "properties.jsonl"))}
tmpl = open(os.path.join(HERE, "tools", "seed_prompt_round5.tmpl")).read()
root = "/tmp/seed5"
os.makedirs(root, exist_ok=True)
for pid in sys.argv[1:]:
    wt = os.path.join(root, pid)
    subprocess.run(["git", "-C", "/repo", "worktree", "remove", "--force", wt], capture_output=True)
    subprocess.run(["rm", "-rf", wt])
    subprocess.run(["git", "-C", "/repo", "worktree", "add", "-q", "--detach", wt, "HEAD"], check=True)
    os.makedirs(wt + ".out", exist_ok=True)
    p = props[pid]
    txt = ["PROPERTY %s: %s" % (pid, p["title"]), "", "Statement: " + p["statement"], "",
           "Must hold over: %s -- %s" % (", ".join(p["quantifier"]["over"]), p["quantifier"]["text"]), "",
           "Why the existing tests cannot settle it: " + p["why_tests_cant"], "",
           "Code anchors: " + json.dumps(p["anchors"], indent=1), "",
           "Earlier changes already written for this property (yours must differ):"]
    for d in sorted(glob.glob(os.path.join(HERE, "seeded", pid + "-*"))):
        m = json.load(open(os.path.join(d, "meta.json")))
        txt.append(" - " + " ".join(m.get("needs_to_manifest", "").split())[:260])
    open(os.path.join(root, pid + ".property.txt"), "w").write("\n".join(txt) + "\n")
    open(os.path.join(root, pid + ".prompt.txt"), "w").write(tmpl.replace("@ID@", pid))
    print(os.path.join(root, pid + ".prompt.txt"))
