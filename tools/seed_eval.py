#!/venv/bin/python
"""Evaluate one seeded property-breaking change and (optionally) file it under /verif/seeded/<id>/.

usage: tools/seed_eval.py <seed-id> <property> <patch.diff> <demo.py> [--needs "text"] [--keep] [--checks C01,C05] [--no-suite]

Steps (all in a scratch git worktree of /repo under /dev/shm, removed at the end):
  1. demo on the unchanged tree must exit 0
  2. apply the patch; demo must exit != 0
  3. the repository's own test suite must still pass with the patch (baseline: BASELINE.json stable_pass)
  4. run ./check <property> (quick tier) with VERIF_REPO=<worktree>: detection = exit 1 with a VIOLATION line
With --keep the change is stored as seeded/<id>/{patch.diff, demo.py, meta.json}.
"""
import argparse
import json
import os
import shutil
import subprocess
import sys
import time

HERE = os.path.dirname(os.path.dirname(os.path.abspath(__file__)))
PY = "/venv/bin/python"


def sh(cmd, cwd=None, env=None, timeout=3600):
    e = dict(os.environ)
    if env:
        e.update(env)
    p = subprocess.run(cmd, shell=True, cwd=cwd, env=e, capture_output=True, text=True, timeout=timeout)
    return p.returncode, p.stdout + p.stderr


def main():
    ap = argparse.ArgumentParser()
    ap.add_argument("sid")
    ap.add_argument("prop")
    ap.add_argument("patch")
    ap.add_argument("demo")
    ap.add_argument("--needs", default="")
    ap.add_argument("--keep", action="store_true")
    ap.add_argument("--checks", default=None)
    ap.add_argument("--no-suite", action="store_true")
    ap.add_argument("--tier", default="quick")
    a = ap.parse_args()
    wt = "/dev/shm/seedeval/%s" % a.sid
    sh("git -C /repo worktree remove --force %s" % wt)
    shutil.rmtree(wt, ignore_errors=True)
    os.makedirs(os.path.dirname(wt), exist_ok=True)
    rc, out = sh("git -C /repo worktree add -q --detach %s HEAD" % wt)
    if rc:
        print(out)
        return 2
    res = {"seed": a.sid, "property": a.prop, "repo_head": sh("git -C /repo rev-parse --short HEAD")[1].strip()}
    try:
        env = {"PYTHONPATH": wt, "PYTHONDONTWRITEBYTECODE": "1", "PYTHONHASHSEED": "0"}
        rc0, out0 = sh("%s %s" % (PY, os.path.abspath(a.demo)), cwd=wt, env=env)
        res["demo_unchanged_exit"] = rc0
        rc, out = sh("git apply %s" % os.path.abspath(a.patch), cwd=wt)
        if rc:
            print("patch does not apply:", out)
            return 2
        rc1, out1 = sh("%s %s" % (PY, os.path.abspath(a.demo)), cwd=wt, env=env)
        res["demo_changed_exit"] = rc1
        res["demo_changed_tail"] = out1.strip().splitlines()[-3:]
        if not a.no_suite:
            t = time.time()
            rc, out = sh("%s -m pytest -ra -q -p no:cacheprovider --timeout=900 --continue-on-collection-errors 2>&1 | grep -E '^(FAILED|ERROR)|passed|failed' | tail -40" % PY, cwd=wt, env={"PYTHONDONTWRITEBYTECODE": "1"})
            stable = set(json.load(open("/root/.vp/BASELINE.json"))["stable_pass"]) if os.path.exists("/root/.vp/BASELINE.json") else set()
            failed = []
            for l in out.splitlines():
                if l.startswith(("FAILED", "ERROR")):
                    nid = l.split()[1]
                    nid = nid.replace(".py::", "::").replace("/", ".")
                    nid = nid.split("[")[0] if nid not in stable else nid
                    failed.append(nid)
            res["suite_tail"] = out.strip().splitlines()[-1:]
            res["suite_failed_tests"] = failed
            res["suite_failed_stable"] = [f for f in failed if f in stable]
            res["suite_ok"] = ("passed" in out) and not res["suite_failed_stable"]
            res["suite_s"] = round(time.time() - t)
        checks = (a.checks.split(",") if a.checks else [a.prop])
        res["checks"] = {}
        for c in checks:
            t = time.time()
            rc, out = sh("./check %s --tier %s --no-evidence --first" % (c, a.tier), cwd=HERE, env={"VERIF_REPO": wt, "VERIF_SLOTS": "0"})
            viol = [l for l in out.splitlines() if l.startswith("VIOLATION")]
            sigs = [l.strip() for l in out.splitlines() if l.strip().startswith("violations with signature")]
            msg = [l.strip() for l in out.splitlines() if l.strip().startswith("[")][:2]
            res["checks"][c] = {"exit": rc, "violation_lines": len(viol), "signatures": sigs[:6], "first": msg, "wall_s": round(time.time() - t)}
            if rc == 2:
                res["checks"][c]["harness_output_tail"] = out.strip().splitlines()[-6:]
        res["detected_by"] = [c for c, r in res["checks"].items() if r["exit"] == 1 and r["violation_lines"]]
    finally:
        sh("git -C /repo worktree remove --force %s" % wt)
        shutil.rmtree(wt, ignore_errors=True)
        # violation artefacts written while checking a seeded change are not evidence
    print(json.dumps(res, indent=1))
    if a.keep:
        d = os.path.join(HERE, "seeded", a.sid)
        os.makedirs(d, exist_ok=True)
        if os.path.abspath(a.patch) != os.path.join(d, "patch.diff"):
            shutil.copy(a.patch, os.path.join(d, "patch.diff"))
        if os.path.abspath(a.demo) != os.path.join(d, "demo.py"):
            shutil.copy(a.demo, os.path.join(d, "demo.py"))
        prev = {}
        if os.path.exists(os.path.join(d, "meta.json")):
            prev = json.load(open(os.path.join(d, "meta.json")))
        if a.no_suite and prev.get("confirmed"):
            res.setdefault("suite_ok", prev["confirmed"].get("existing_suite_passes_with_change"))
            res.setdefault("suite_tail", prev["confirmed"].get("suite_tail"))
        if not a.needs and prev.get("needs_to_manifest"):
            a.needs = prev["needs_to_manifest"]
        history = prev.get("detection_history", [])
        history.append({"verif_commit": sh("git -C %s rev-parse --short HEAD" % HERE)[1].strip(), "detected_by": res["detected_by"],
                        "checks": {c: r["exit"] for c, r in res["checks"].items()}})
        meta = {
            "id": a.sid,
            "detection_history": history,
            "breaks_property": a.prop,
            "needs_to_manifest": a.needs,
            "confirmed": {
                "demo_exit_unchanged": res.get("demo_unchanged_exit"),
                "demo_exit_changed": res.get("demo_changed_exit"),
                "existing_suite_passes_with_change": res.get("suite_ok"),
                "suite_tail": res.get("suite_tail"),
            },
            "checks_run": res["checks"],
            "detected_by": res["detected_by"],
            "what_i_ran": "tools/seed_eval.py: scratch worktree of /repo@%s under /dev/shm, git apply patch.diff, demo.py with and without, "
            "pytest tests (must pass), ./check <property> --tier %s with VERIF_REPO=<worktree>; worktree removed afterwards" % (res["repo_head"], a.tier),
        }
        with open(os.path.join(d, "meta.json"), "w") as f:
            json.dump(meta, f, indent=1)
    return 0


if __name__ == "__main__":
    sys.exit(main())
