#!/venv/bin/python
"""Regenerates /verif/MANIFEST.json from the table below and validates it."""
import json
import os

HERE = os.path.dirname(os.path.dirname(os.path.abspath(__file__)))

# checks whose Systems are also explored as two interleaved instances (mc/pairs.py) and with refused calls inside their
# histories (mc/faults.py); DESIGN §8.9.  C08 / C13 / C20 enumerate inputs through "fn" tasks and carry two-object families
# of their own, C14 explores refused calls natively, C15 pairs objects over one caller container itself.
DERIVED = {"C01", "C02", "C03", "C04", "C05", "C06", "C07", "C09", "C10", "C11", "C12", "C16", "C17", "C18", "C19"}
FAULTY = DERIVED - {"C12"}
PAIRED = DERIVED - {"C18"}  # every step of a C18 system already runs up to 120 twins side by side
DERIVED_TEXT = {
    True: " In addition every system of this check is explored (a) as two instances living in one process — same and "
    "neighbouring configurations, events tagged by instance, schedules alternating / free interleaving / second object constructed "
    "after the first was used / one running ahead, each instance judged by its own oracle — and (b) with at most k malformed calls "
    "(k = 1 quick, 2 thorough) anywhere in a history, which must be refused, must not move the counters and must leave every later "
    "verdict of the oracle unchanged; both exhaustively up to a node budget derived from the check's own tasks (stated in the evidence).",
    False: " In addition every system of this check is explored as two instances living in one process — same and neighbouring "
    "configurations, events tagged by instance, schedules alternating / free interleaving / second object constructed after the first "
    "was used / one running ahead, each instance judged by its own oracle — exhaustively up to a node budget derived from the check's "
    "own tasks (stated in the evidence).",
}

# id -> (technique, level text, level note)
CHECKS = {
    "C01": (
        "bounded exhaustive exploration of update sequences on all 15 real detectors, table-driven lifecycle monitor as invariant oracle",
        "For each of the 15 public detectors and several parameter sets every sequence of accepted updates over a small alphabet "
        "(tuned so that alarms, back-to-back drifts and third epochs occur inside the bound) is executed on the real object; PCACD "
        "uses a long default history with every choice of <= k deviations. After every call a monitor that derives its expectations "
        "only from the fed events checks state domain, total counter, since-reset counter (detector-specific restart values), the "
        "warm-up table and the retraining_recs contract. Exhaustive within the stated depth / deviation bound.",
        "Trusted: the lifecycle table in checks/c01.py (taken from the property text), the drivers' alphabets; documented "
        "ValueError of CUSUM for sd=0 and sklearn's zero-bandwidth rejection end a branch without verdict.",
    ),
    "C02": (
        "bounded exhaustive exploration of update / set_reference sequences, differential oracle against a freshly constructed twin per epoch",
        "Every sequence of updates (and, for batch detectors, set_reference events at any position) up to the stated depth is run on "
        "the real detector; whenever it reported drift or a new reference is set, a newly constructed detector with the documented "
        "carry-over is built under the same numpy seed and both are advanced in lock-step; all public observables must agree "
        "bit-for-bit (indices shifted by the epoch offset). The twin is replaced at every drift, so later epochs are always compared "
        "with a first-epoch detector. No hand-written expected values.",
        "Trusted: the carry-over rules stated in the property (CUSUM mean/std of the last burn_in observations, drifted batch as "
        "reference), numpy seeding as the only source of randomness.",
    ),
    "C06": (
        "bounded exhaustive exploration of confusion-cell sequences on the real LinearFourRates in lock-step with an exact-arithmetic model that reproduces the Monte-Carlo bounds from the same numpy seed",
        "All sequences over the 4 confusion cells to depth 6 for a pairwise-covering array of the parameter grid (eta, levels, burn_in, subsample, "
        "round_val), all 15 non-empty rates_tracked subsets, a 'ties' family (eta=0.5, exact arithmetic) and L=20 default streams with every choice "
        "of <= 2 deviations are executed on the real detector; a model with a literal confusion matrix, Fraction rates/statistics, the "
        "update-only-when-the-rate-changed rule, the bounds cache keyed by (rounded rate, denominator) surviving resets and same-seed Monte-Carlo "
        "percentile bounds predicts drift_state, retraining_recs, counters and all_drift_states after every update; only tracked rates are computed by the model.",
        "Trusted: numpy.percentile / numpy.random.binomial; the draw protocol (num_mc x binomial(1,p,N) per uncached tracked rate, in rates_tracked "
        "order) is part of the model; the statistical adequacy of num_mc draws is not decided (a DKW-band cross-check against the exactly "
        "enumerated distribution for N <= 12 guards quantile orientation); parallelize=False only.",
    ),
    "C07": (
        "bounded exhaustive exploration of batch / set_reference sequences on the real HDDDM and CDBD in lock-step with a reference model of distances, epsilons, adaptive threshold and reference handling",
        "Every sequence of updates from a menu of small batches (reference-like, identical, shifted, widened, two sizes, 1-2 features) and "
        "set_reference events up to the stated depth, per detect_batch x statistic x significance x divergence (Hellinger, JS, user function) x "
        "subsets, is executed on the real detectors; the model recomputes common-edge histograms, the feature-averaged distance, epsilon, beta "
        "with the (t - lambda - 1) scaling, the bootstrap epsilon_0 (read back from thresholds AND recomputed under the same seed), reference "
        "union / replacement and the detect_batch=1 proxy batch; distance axioms (identity, symmetry, bounds) are invariants.",
        "Trusted: numpy.histogram, scipy t-quantiles; the bootstrap draw protocol (subsets x DataFrame.sample) is part of the model.",
    ),
    "C08": (
        "exhaustive enumeration of all small point multisets x parameters x fill histories on the real partitioner, point-routing reference model + structural invariants",
        "Every multiset of 1-6 values from a 4-value axis (1-D) and of 1-4 points from a 3x3 grid (2-D), in integer, affine non-dyadic, scaled, "
        "adjacent-float and one-ulp-off-midpoint variants, for count_ubound {1,2,3} x cutpoint_proportion_lbound {2e-10, 0.25, 2.0} (45 297 trees), "
        "followed by every fill history up to depth 1-3 over 24 events (data set x tree id x reset flag): the public tree is walked against a model "
        "that routes every point individually with exact midpoints; oracles (a)-(h) of DESIGN §4 C08 after every call.",
        "Trusted: exact Fraction midpoints; which nodes are leaves is read from the real tree and validated (the property fixes only 'no node with <= "
        "count_ubound points is split'); a second build() on the same partitioner is outside the quantifier.",
    ),
    "C09": (
        "bounded exhaustive / reachable-state exploration of batch and sample sequences on the real kdq-tree detectors in lock-step with models reproducing the bootstrap bound from the same seed",
        "KdqTreeBatch: all sequences over a 5-batch menu plus set_reference events to depth 4 per alpha x bootstrap_samples x count_ubound; "
        "KdqTreeStreaming: all value sequences over {0,1,5} to depth 12 for window_size 2 (states merged by full structural hash), L=30 default "
        "streams with <= 2 deviations for window sizes 3 and 4, per persistence x alpha. The model routes points through its own tree, recomputes the "
        "corrected leaf distributions, the KL divergence (also from to_plotly_dataframe()), the (1-alpha) 'nearest' quantile of the same-seed "
        "bootstrap, the next reference, and counts samples above the bound *in a row*.",
        "Trusted: numpy.quantile, the bootstrap draw protocol (bootstrap_samples x choice(leaves, 2n, p)); the reference-tree shape is read from the public dataframe and validated.",
    ),
    "C11": (
        "deviation-bounded exhaustive exploration of multivariate streams on the real PCACD in lock-step with a reference model of windows, PCA projection, per-component divergences and Page-Hinkley",
        "A periodic default stream (test window == reference window at every check, score must be 0) of length 5w with every choice of <= 1-2 "
        "deviations from a 4-5 point menu, all 3^8 streams for w=3, and a w=60 family (the only place the Page-Hinkley threshold is 1), over "
        "dimension x window_size x step x metric x online_scaling x ev_threshold x delta, are executed on the real detector; the model does its own "
        "fill/discard/slide schedule, standardisation, per-component supports, winsorising, histograms / Epanechnikov KDE + JS distance, maximum "
        "over components and an exact Page-Hinkley recurrence; drift_state, counters, num_pcs (and the recorded score, defensively) are compared after every update. "
        "Every stream is also run as level + unit * stream for unit ladders 1e-12..1e12, mixed units per column, levels up to +-65536 and int64 input.",
        "Trusted: sklearn PCA(ev_threshold); degenerate reference windows (no variance, equal eigenvalues, explained variance within 1e-9 of the "
        "threshold, zero KDE bandwidth) close the branch as undefined; scores within 1e-9 of a bin edge may fall either side.",
    ),
    "C10": (
        "exhaustive enumeration of all ordered pairs of small point multisets on the real partitioner (axiom oracles) + bounded exhaustive batch sequences on the real NNDVI in lock-step with a same-seed reference model",
        "NNSpacePartitioner: all ordered pairs of multisets of 1-4 points from a 5-point menu in 1-D and 2-D for k in {1,2,3} are built on "
        "the real class and checked against membership, kNN, symmetry, range, identity and formula oracles (squared distances in exact "
        "arithmetic). NNDVI: every batch sequence over a 4-batch menu up to the stated depth for 24 configurations is executed on the real "
        "detector and compared after every update with a reference model that reproduces the permutation threshold from the same numpy seed.",
        "Trusted: numpy/scipy primitives, models/nnsp.py; the permutation draw protocol (sampling_times x np.random.permutation(v_ref)) is part of "
        "the model; degenerate thresholds (all permutation distances equal -> NaN) follow the 'NaN -> no drift' rule.",
    ),
    "C12": (
        "bounded exhaustive exploration of update/reset/set_reference sequences on real ensembles, differential oracle against solo twins + election model",
        "StreamingEnsemble and BatchEnsemble over mixes of real member detectors (concept-drift, change and data-drift detectors together), all four "
        "election types, column selectors on ndarray and DataFrame input: every event sequence up to the stated depth is executed; every member was "
        "deep-copied into a solo twin before the ensemble was built and is advanced alone under the same seed shim; after every event each member's "
        "complete canonical state must equal its twin's, drift_states / retraining_recs must report the members' values, the ensemble verdict must equal "
        "the election model of C13 applied in insertion order, and the ensemble's own counters must count updates. A long family (quiet default "
        "histories of 10-36 updates, every choice of <= 1-2 positions replaced by a pulse for one member, reset() or set_reference) covers ConfirmedElection "
        "waits of 0-12 updates.",
        "Trusted: the election model (models/election.py, itself checked by C13), the seed shim installed on member.update/set_reference; rotating "
        "design rather than the full product of mixes x elections x selectors x containers.",
    ),
    "C13": (
        "exhaustive enumeration of all vote vectors and parameters; reachable-state exploration of ConfirmedElection counters; TLC model whose every edge is replayed on the real class",
        "SimpleMajority / MinimumApproval / OrderedApproval: every vector in {None,warning,drift}^n for n up to 5 (6 thorough) and every parameter "
        "value up to n+1 on stub members: verdict = counting rule, verdict in {drift, None}, monotone in drift votes. ConfirmedElection: every "
        "reachable wait-counter state x every vote vector in lock-step with a small state-machine model (all (wait+1)^n counter states are shown to be "
        "reached). Secondary TLA+ model (n=3): TLC checks the counter invariants on all 3 100 states and every one of the 83 700 labelled edges of the "
        "dumped state graph is replayed on the real ConfirmedElection object.",
        "Trusted: TLC, the reading of 'newly reports drift' as drift while the member's counter is 0 (stated in describe().assumptions).",
    ),
    "C19": (
        "reachable-state exploration of all interleavings of legal and illegal MD3 calls on the real detector, lock-step protocol + statistics model",
        "MD3 with a deterministic threshold classifier and a user margin function: from every reachable state all 8 events (in/out-of-margin update, "
        "2-row update, correct/wrong label, renamed/extra columns, 2-row label) are applied, to depth 8 (11 thorough), equal states merged by a full "
        "structural hash; a model of the protocol, the margin-density recurrence, the k-fold reference statistics and the confirmation rule predicts "
        "every observable after every call; refused calls must raise ValueError and leave the complete object state unchanged (frame check). Long "
        "deviation-bounded streams add many-update histories; further families: nine column-label schemes, labelled samples in every column order, "
        "non-default row labels, sensitivity 0, references whose folds all share one non-dyadic statistic, default-constructed MD3.",
        "Trusted: sklearn KFold(k, shuffle, random_state=42) as documented in the code, the stub classifier; feature values of labelled samples are a "
        "fixed function of (index, round).",
    ),
    "C17": (
        "bounded exhaustive exploration of histories with all ladder settings in lock-step, differential first-drift oracle",
        "For each detector family a ladder of 3-4 values of the detection parameter is advanced in lock-step on every history of the "
        "alphabet up to the stated depth under one seed schedule; every ordered (looser, stricter) pair is judged: the stricter run "
        "never reports its first drift before the looser one. Warning clause: drift positions identical, tighter warnings are a "
        "subset of looser warnings on the whole multi-epoch history. Besides the depth-bounded ladders: fine ladders around 1/(number of "
        "simulated statistics) under several seed schedules for the bootstrap / permutation / Monte-Carlo thresholds, and long "
        "deviation-bounded histories (60-160 samples, every single replacement) for ladders that end in the legal extreme of the parameter (delta = 0, alpha = 0).",
        "Trusted: identical seeding of all ladder members; one recorded finding (Page-Hinkley threshold 0 vs >0 on negative running means).",
    ),
    "C18": (
        "exhaustive enumeration of all row permutations of one (two) batch(es) in short batch histories, differential oracle",
        "Reference plus up to three test batches from a small menu; at one position (two for batches of <= 4 rows) the batch is "
        "replaced by every one of its non-identity row permutations (up to 119); original and permuted run use identical seeds; "
        "divergences must agree to 1e-12 and, where the property says so, the complete decision trace must be identical. Batches of "
        "6-11 rows and of 70 001-300 007 rows (anything positional that only starts beyond a size) get a stated family of structured "
        "permutations (transpositions, rotations, reversal, evens-then-odds, riffle) instead of all n!.",
        "Trusted: the recomputation of the kdq divergence from to_plotly_dataframe() and of the NNPS distance through the public partitioner API.",
    ),
    "C03": (
        "bounded exhaustive exploration of real-valued streams on the real ADWIN in lock-step with a raw-window reference model; twin oracle for ADWINAccuracy",
        "Every stream over {0,1} (2^14) and {0,1,5} (3^9) for a covering subset of the parameter grid, long default histories (L=96) with every choice "
        "of <= 2 deviations, and exhaustive suffixes from 70-sample non-initial states are executed on the real ADWIN and compared after every "
        "update with a model that keeps the raw window (exact arithmetic) and the chronological bucket sizes: mean, variance, window width, the "
        "documented epsilon-cut decision on every admissible bucket-boundary split, retraining_recs, counters. ADWINAccuracy(**p) fed label pairs "
        "must equal ADWIN(**p) fed the agreement indicators bit-for-bit on all 2^12 sequences for non-default p.",
        "Trusted: the epsilon-cut formulas and the exponential-histogram row rule documented in adwin.py are taken as the specification; "
        "comparisons within 1e-9 of the cut threshold follow the implementation (counted).",
    ),
    "C04": (
        "bounded exhaustive exploration of integer-valued streams on the real CUSUM / PageHinkley in lock-step with exact-arithmetic (Fraction) reference models",
        "Every stream over {-2,0,1,4} up to depth 6-8 for the whole parameter grid (direction x burn_in x delta x threshold x given/estimated "
        "target) plus L=40 level-shift histories with every choice of <= 2 deviations (4-6 alarms each) is executed on the real detectors; the "
        "CUSUM recurrences with (re-)estimated mean/sd and the Page-Hinkley test incl. every to_dataframe() column are predicted in exact rational "
        "arithmetic; dyadic configurations enforce exact ties so > vs >= is decided.",
        "Trusted: models/seqtests.py; irrational standard deviations use math.sqrt with the 1e-9 margin rule; CUSUM with burn_in=0 is closed at "
        "its first alarm (no carry-over defined).",
    ),
    "C14": (
        "exhaustive fault enumeration (one malformed call at every position x fault kind x container) over short valid histories, differential oracle against a twin that never saw the call; exhaustive container assignments",
        "For all 15 detectors: every valid base history of the driver (with a drift and a set_reference inside) x one malformed call at every "
        "position x every applicable fault kind x container of the call and of its neighbours; the call must raise ValueError, change no public "
        "observable, and every later observation must equal bit-for-bit that of a twin that never saw it (including that later valid calls are "
        "accepted). Container equivalence: every assignment of scalar/list/ndarray/Series/DataFrame to a length-4 history gives identical traces.",
        "Trusted: the two-field specification state (width fixed by the first accepted input, names by the first accepted DataFrame); one recorded "
        "finding (first DataFrame of another width after ndarray input on batch detectors, pinned by test_batch_validation_X_dimensions). A "
        "malformed call made while drift_state == 'drift' may perform the pending re-initialisation; persistent effects are still judged through the twin.",
    ),
    "C15": (
        "exhaustive enumeration of overwrite positions x container layouts over short drifting histories, differential oracle against a twin fed private copies; before/after fingerprints of every argument",
        "All 15 detectors plus both ensembles: scripted prefixes that reach an alarm followed by every suffix of 2-3 events, in six container layouts "
        "(C/Fortran ndarray, strided view, single- and mixed-dtype DataFrame, DataFrame over a caller array); after exactly one call (every "
        "position) and after all calls the caller overwrites in place what it passed; arguments must be bitwise unchanged by the call and every "
        "public observable must equal that of a twin fed private copies. All injectors: every window x argument menu; input and dict arguments "
        "unchanged, result of the input's container type sharing no memory with it. Univariate batches as vectors (1-D array, slice, strided view, "
        "Series), containers refilled in place and passed again, and chains of 2-3 injector calls fed earlier results / earlier inputs.",
        "Trusted: an overwrite is an in-place write through the passed object; snapshots re-execute the recorded calls (a deepcopy would cut the aliasing under test).",
    ),
    "C16": (
        "bounded exhaustive enumeration of outcome sequences x label encodings / unused-argument variants, differential oracle against the canonical run",
        "DDM, EDDM, STEPD, ADWINAccuracy: all 2^10 outcome sequences under 14 encodings of (y_true, y_pred) and every choice of <= 2 positions "
        "re-encoded differently; LinearFourRates: all 4^5 cell sequences under 6 int-like encodings; every detector: junk values for the arguments "
        "it documents as unused; all 169 ordered pairs of 13 one-element containers for (y_true, y_pred) on every outcome sequence of length 6-9, and container "
        "pairs that change at every position. The canonical and the variant detector run under identical seeds and every public observable is compared bit-for-bit after every update.",
        "Trusted: agreement = equality of two labels of the same kind; a twin oracle cannot see defects that affect both runs equally (those are C05/C06).",
    ),
    "C20": (
        "exhaustive enumeration of small data sets x every window x every column/class choice x every answer of the stubbed random source",
        "All 8 injectors on float/int ndarrays and float/int/mixed/string-label DataFrames of 1-5 rows: every window 0 <= from <= to <= n, every "
        "column (pair), class (pair, incl. equal and absent), shift factor, probability vector; numpy.random.choice / dirichlet are replaced inside "
        "the harness by a stub that records the probability vector and is driven through every possible answer (all +-1 walks, all resample index "
        "vectors). Oracles: container type, shape, labels, frame condition outside the window / other columns, exact documented effect inside, input unchanged. "
        "Every ordered pair (thorough: triple) of calls from a per-injector menu inside one execution, on one object or fresh objects; process-level state of the "
        "injection modules is put back before every execution.",
        "Trusted: exactly one weighted np.random.choice per resample (draw protocol); the probability clause is judged on the weight vector handed "
        "to the generator; one recorded finding (Brownian noise truncated on integer data, pinned by test_brownian_noise_1).",
    ),
    "C05": (
        "bounded exhaustive enumeration of all binary outcome sequences on the real detectors, lock-step against executable specifications",
        "Every binary outcome sequence up to the stated length is executed on the real DDM/EDDM/STEPD objects for every "
        "parameter set (prefix-shared depth-first exploration, snapshots by deepcopy, fresh-object replays to validate the "
        "snapshots) and compared after every update with an independent executable specification. Exhaustive within the bound, "
        "no sampling.",
        "Trusted: CPython/numpy/scipy primitives, the hand-written specifications (models/error_based.py); numerically undecidable "
        "comparisons (relative margin <= 1e-9) follow the implementation and are counted.",
    ),
}

PENDING_REASON = "check not built yet in this round; planned in DESIGN.md §3 (model checking applies)"


def main():
    props = [json.loads(l) for l in open(os.path.join(HERE, "properties.jsonl"))]
    checks = []
    na = []
    for p in props:
        pid = p["id"]
        if pid in CHECKS and os.path.exists(os.path.join(HERE, "checks", pid.lower() + ".py")):
            tech, text, note = CHECKS[pid]
            if pid in PAIRED:
                text += DERIVED_TEXT[pid in FAULTY]
            elif pid in FAULTY:
                text += (" In addition every system of this check is explored with at most k malformed calls (k = 1 quick, 2 thorough) "
                         "anywhere in a history, which must be refused, must not move the counters and must leave every later verdict unchanged.")
            checks.append(
                {
                    "property_id": pid,
                    "quick_cmd": "./check %s --tier quick" % pid,
                    "thorough_cmd": "./check %s --tier thorough" % pid,
                    "evidence_file": "/verif/evidence/%s.json" % pid,
                    "replay_cmd_template": "./check %s --replay {path}" % pid,
                    "engine": "mc-explorer",
                    "level_claimed": {
                        "category": "model_checking",
                        "text": text,
                        "design_ref": "DESIGN.md §4 %s" % pid,
                    },
                    "level_note": note,
                    "technique": tech,
                }
            )
        else:
            na.append({"property_id": pid, "reason": PENDING_REASON})
    man = {
        "version": 1,
        "setup_cmd": "cd /verif && chmod +x check && /venv/bin/python -m compileall -q mc models checks >/dev/null 2>&1; /venv/bin/python -c 'import numpy, scipy, pandas, sklearn, jsonschema'",
        "hooks": {
            "guard": "MENELAUS_VERIF",
            "enable": "no source hooks are needed: every seam (numpy RNG, containers, stub classifier, stub election members) is reachable from outside; ./check exports MENELAUS_VERIF=1 for uniformity",
            "baseline_off_cmd": "cd /repo && /venv/bin/python -m pytest -ra -q -p no:cacheprovider --timeout=900 --continue-on-collection-errors",
            "source_commits": [],
            "add_only": True,
        },
        "engines": [
            {
                "name": "mc-explorer",
                "path": "/verif/mc",
                "serves_properties": [c["property_id"] for c in checks],
                "kind_free_text": "hand-written explicit-state / bounded exhaustive explorer over the real Python objects "
                "(deepcopy snapshots, transposition table, deviation-bounded long histories, 16 worker processes), "
                "lock-step reference models and twin oracles",
            }
        ],
        "checks": checks,
        "not_applicable": na,
        "notes": "All checks import menelaus from $VERIF_REPO (default /repo) working tree. Exit 2 = harness error (HARNESS-*), never a verdict.",
    }
    import jsonschema

    sp = "/root/.vp/MANIFEST.schema.json"
    if os.path.exists(sp):
        jsonschema.validate(man, json.load(open(sp)))
    with open(os.path.join(HERE, "MANIFEST.json"), "w") as f:
        json.dump(man, f, indent=1)
    print("MANIFEST.json: %d checks, %d not yet claimed" % (len(checks), len(na)))


if __name__ == "__main__":
    main()
