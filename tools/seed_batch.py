#!/venv/bin/python
"""Evaluate several seeded changes with bounded concurrency.

usage: tools/seed_batch.py <outdir-root> <round-tag> [--jobs N] [--no-suite] Cxx:A Cxx:B ...
  <outdir-root>/Cxx.out/{A.patch.diff, A.demo.py, A.meta.txt}  ->  seeded/Cxx-<round-tag>A/
With round-tag "" the ids are Cxx-A (first round).
"""
import json
import os
import subprocess
import sys
from concurrent.futures import ThreadPoolExecutor

HERE = os.path.dirname(os.path.dirname(os.path.abspath(__file__)))


def one(root, tag, item, extra):
    prop, v = item.split(":")
    out = os.path.join(root, "%s.out" % prop)
    sid = "%s-%s%s" % (prop, tag, v)
    meta = os.path.join(out, "%s.meta.txt" % v)
    needs = ""
    if os.path.exists(meta):
        needs = " ".join(open(meta).read().split())[:900]
    cmd = [os.path.join(HERE, "tools", "seed_eval.py"), sid, prop, os.path.join(out, "%s.patch.diff" % v),
           os.path.join(out, "%s.demo.py" % v), "--keep", "--needs", needs] + extra
    p = subprocess.run(cmd, capture_output=True, text=True)
    txt = p.stdout
    os.makedirs("/tmp/seedlogs", exist_ok=True)
    open("/tmp/seedlogs/%s.log" % sid, "w").write(txt + p.stderr)
    try:
        j = json.loads(txt[txt.index("{"):])
        line = "%s demo %s/%s suite_ok=%s %s detected_by=%s" % (
            sid, j.get("demo_unchanged_exit"), j.get("demo_changed_exit"), j.get("suite_ok"),
            (j.get("suite_failed_stable") or ""), j.get("detected_by"))
        for c, r in j["checks"].items():
            line += "\n     %s exit=%s %s %s" % (c, r["exit"], r["signatures"][:2], [m[:150] for m in r["first"][:1]])
            if r["exit"] == 2:
                line += "\n     HARNESS: %s" % (" | ".join(r.get("harness_output_tail", []))[:600])
    except Exception:
        line = "%s FAILED to evaluate: %s" % (sid, (txt + p.stderr)[-300:])
    print(line, flush=True)
    return line


def main():
    a = sys.argv[1:]
    root, tag = a[0], a[1]
    jobs = 3
    extra = []
    items = []
    i = 2
    while i < len(a):
        if a[i] == "--jobs":
            jobs = int(a[i + 1])
            i += 2
        elif a[i] == "--no-suite":
            extra.append("--no-suite")
            i += 1
        else:
            items.append(a[i])
            i += 1
    with ThreadPoolExecutor(jobs) as ex:
        list(ex.map(lambda it: one(root, tag, it, extra), items))


if __name__ == "__main__":
    main()
