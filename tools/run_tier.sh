#!/bin/sh
# usage: tools/run_tier.sh <tier> Cxx Cyy ...   -- runs the checks one after the other, prints one summary block per check
tier="$1"; shift
for c in "$@"; do
  s=$(date +%s)
  out=$(./check "$c" --tier "$tier" --no-evidence 2>&1); rc=$?
  e=$(date +%s)
  echo "=== $c tier=$tier exit=$rc wall=$((e-s))s"
  echo "$out" | grep -v '^counters' | grep -E "^C[0-9]+ tier|VIOLATION|HARNESS|KNOWN-FINDING|OK property|deadline|exhaustive" | cut -c1-400 | head -20
done
