#!/venv/bin/python
"""Rewrites the two generated tables of DESIGN.md (between their marker comments) from seeded/*/meta.json:
§8.4 (all seeded changes, tools/seed_table.py) and §8.9 (round 5: who caught what, tools/seed_table5.py)."""
import os
import re
import subprocess

HERE = os.path.dirname(os.path.dirname(os.path.abspath(__file__)))


def table(tool):
    return subprocess.run([os.path.join(HERE, "tools", tool)], capture_output=True, text=True, check=True).stdout.strip()


def main():
    p = os.path.join(HERE, "DESIGN.md")
    s = open(p).read()
    s = s.replace("@@R5TABLE@@", "<!-- r5 table begin -->\n<!-- r5 table end -->")
    for begin, end, tool in (("<!-- seed table begin -->", "<!-- seed table end -->", "seed_table.py"),
                             ("<!-- r5 table begin -->", "<!-- r5 table end -->", "seed_table5.py")):
        i, j = s.index(begin) + len(begin), s.index(end)
        s = s[:i] + "\n" + table(tool) + "\n" + s[j:]
    open(p, "w").write(s)


if __name__ == "__main__":
    main()
