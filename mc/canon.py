"""Structural state hashing (DESIGN §2.2).

``canon(obj)`` returns a digest of the complete object graph reachable from
``obj``: nothing is dropped, floats are hashed by their bit pattern, arrays by
dtype/shape/bytes, DataFrames by values+labels, linked structures through an
id-memo (back references hash as the visit number of their target), so two
objects with the same digest have the same futures.
"""
import hashlib
import struct

import numpy as np
import pandas as pd


def canon(obj, skip=()):
    h = hashlib.blake2b(digest_size=16)
    memo = {}
    _feed(obj, h, memo, frozenset(skip))
    return h.digest()


def _feed(o, h, memo, skip):
    u = h.update
    if o is None:
        u(b"N")
    elif isinstance(o, (bool, np.bool_)):
        u(b"T" if o else b"F")
    elif isinstance(o, (int, np.integer)):
        u(b"i" + str(int(o)).encode() + b";")
    elif isinstance(o, (float, np.floating)):
        u(b"f" + struct.pack("<d", float(o)))
    elif isinstance(o, str):
        u(b"s" + o.encode() + b"\0")
    elif isinstance(o, bytes):
        u(b"b" + o + b"\0")
    elif isinstance(o, np.ndarray):
        if o.dtype == object:
            u(b"O" + str(o.shape).encode())
            for x in o.ravel().tolist():
                _feed(x, h, memo, skip)
        else:
            u(b"A" + str(o.dtype).encode() + str(o.shape).encode())
            u(np.ascontiguousarray(o).tobytes())
    elif isinstance(o, pd.DataFrame):
        u(b"D")
        _feed(list(map(str, o.columns)), h, memo, skip)
        _feed(list(map(str, o.index)), h, memo, skip)
        for c in range(o.shape[1]):
            _feed(o.iloc[:, c].to_numpy(), h, memo, skip)
    elif isinstance(o, pd.Series):
        u(b"S")
        _feed(list(map(str, o.index)), h, memo, skip)
        _feed(o.to_numpy(), h, memo, skip)
    elif isinstance(o, pd.Index):
        u(b"X")
        _feed(list(map(str, o)), h, memo, skip)
    elif isinstance(o, (list, tuple)):
        u(b"L" if isinstance(o, list) else b"U")
        u(str(len(o)).encode())
        for x in o:
            _feed(x, h, memo, skip)
    elif isinstance(o, dict):
        u(b"M" + str(len(o)).encode())
        try:
            items = sorted(o.items(), key=lambda kv: repr(kv[0]))
        except Exception:
            items = list(o.items())
        for k, v in items:
            _feed(k, h, memo, skip)
            _feed(v, h, memo, skip)
    elif isinstance(o, (set, frozenset)):
        u(b"E")
        for x in sorted(o, key=repr):
            _feed(x, h, memo, skip)
    elif callable(o) and not hasattr(o, "__dict__"):
        u(b"C" + getattr(o, "__qualname__", repr(type(o))).encode())
    else:
        i = id(o)
        if i in memo:
            u(b"R" + str(memo[i]).encode())
            return
        memo[i] = len(memo)
        u(b"o" + type(o).__qualname__.encode())
        d = getattr(o, "__dict__", None)
        if d is None:
            slots = getattr(type(o), "__slots__", None)
            if slots:
                d = {s: getattr(o, s, None) for s in slots}
            else:
                u(repr(o).encode())
                return
        for k in sorted(d):
            if k in skip:
                continue
            u(k.encode() + b"=")
            _feed(d[k], h, memo, skip)
