"""Bounded exhaustive explorer over the real implementation (DESIGN §2.2).

A *system* closes one piece of menelaus with a small driver:

    init(cfg)                      -> state  (live real objects + model/twins; deep-copyable)
    alphabet(cfg, state, pos)      -> list of JSON-able events enabled at this node
    step(cfg, state, ev, pos, ctx) -> JSON-able observation; mutates ``state``;
                                      raises Violation when the oracle fails;
                                      sets ctx.terminal = True to close the branch
    key(cfg, state, pos)           -> hashable (transposition table) or None (plain tree)

Exploration modes (selected by the task dict):
  * dfs  : every event sequence of length ``depth`` after ``prefix``
  * dev  : a default history ``default`` of length L with a menu of alternative
           events at every position; every history with <= k deviations is run
           to completion (prefix sharing through snapshots)

Snapshots are ``copy.deepcopy`` of the node state; to show that snapshot-based
exploration equals from-scratch execution every ``validate_every``-th maximal
path, and every violating path, is re-executed on a freshly constructed state
and the observation traces must be identical (else HarnessError NONDET).
"""
import copy
import hashlib
import re
import json
import os
import time
from collections import Counter

from mc import procstate


_ADDR = re.compile(r"0x[0-9a-fA-F]{6,}")


class Violation(Exception):
    def __init__(self, sub, msg, expected=None, observed=None, sig=None):
        # object addresses in reprs differ between executions; they are not part of a verdict
        msg = _ADDR.sub("0x…", str(msg))
        super().__init__(msg)
        self.sub = sub
        self.msg = msg
        self.expected = expected
        self.observed = observed
        self.sig = sig or sub


class HarnessError(Exception):
    pass


class _HiddenState(Exception):
    """from-scratch executions agree with each other but not with the snapshot-based exploration: the code under test
    keeps state outside the objects the explorer snapshots; the task is explored again without snapshots"""


class Ctx:
    def __init__(self, seed, collect=True):
        self.seed = seed
        self.stats = Counter()
        self.terminal = False
        self.marks = 0  # non-trivial events on the current transition
        self.collect = collect

    def mark(self, name=None, n=1):
        """Flag the current transition as non-trivial (and count ``name``)."""
        self.marks += 1
        if name:
            self.stats[name] += n

    def count(self, name, n=1):
        self.stats[name] += n


class System:
    name = "system"

    def init(self, cfg):
        raise NotImplementedError

    def alphabet(self, cfg, state, pos):
        raise NotImplementedError

    def step(self, cfg, state, ev, pos, ctx):
        raise NotImplementedError

    def key(self, cfg, state, pos):
        return None


def jsonable(o):
    import numpy as np

    if isinstance(o, dict):
        return {str(k): jsonable(v) for k, v in o.items()}
    if isinstance(o, (list, tuple)):
        return [jsonable(v) for v in o]
    if isinstance(o, np.ndarray):
        return jsonable(o.tolist())
    if isinstance(o, (np.integer,)):
        return int(o)
    if isinstance(o, (np.floating,)):
        return float(o)
    if isinstance(o, (np.bool_,)):
        return bool(o)
    if isinstance(o, (str, int, float, bool)) or o is None:
        return o
    return repr(o)


def _same(a, b):
    return json.dumps(jsonable(a), sort_keys=True) == json.dumps(
        jsonable(b), sort_keys=True
    )


def run_path(system, cfg, events, seed, stop_on_violation=True):
    """Execute ``events`` from a freshly constructed state, no explorer involved.

    Returns (observations, violation-or-None)."""
    ctx = Ctx(seed, collect=False)
    procstate.reset()
    state = system.init(cfg)
    obs = []
    for pos, ev in enumerate(events):
        ctx.terminal = False
        try:
            obs.append(system.step(cfg, state, ev, pos, ctx))
        except Violation as v:
            return obs, v
    return obs, None


def artefact(prop, system, cfg, seed, events, v):
    art = {
        "property": prop,
        "system": system.name,
        "cfg": jsonable(cfg),
        "seed": seed,
        "events": jsonable(events),
        "sub": v.sub,
        "signature": v.sig,
        "message": v.msg,
        "expected": jsonable(v.expected),
        "observed": jsonable(v.observed),
    }
    return art


def artefact_id(art):
    s = json.dumps(
        {k: art[k] for k in ("property", "system", "cfg", "events", "sub")},
        sort_keys=True,
    )
    return hashlib.sha1(s.encode()).hexdigest()[:12]


def dev_split(task):
    """Split a dev-mode task into independent tasks by the position/value of the
    first deviation (plus the deviation-free history).  The union of the parts is
    exactly the original set of histories, each explored once."""
    default = task["default"]
    menu = task["menu"]
    per_pos = bool(task.get("menu_per_pos"))
    out = []
    base = dict(task)
    t0 = dict(base)
    t0["k"] = 0
    t0["label"] = task.get("label", "") + "|nodev"
    out.append(t0)
    if task["k"] <= 0:
        return out
    for i in range(len(default)):
        alts = menu[i] if per_pos else menu
        for a in alts:
            if a == default[i]:
                continue
            t = dict(base)
            t["prefix"] = list(default[:i]) + [a]
            t["label"] = task.get("label", "") + "|dev@%d=%s" % (i, a)
            t["cost"] = task.get("cost", 1) * (len(default) - i) / max(1, len(default))
            out.append(t)
    return out


def explore(system, task, seed, prop, max_violations=3, deadline=None):
    """Run one task; returns dict(stats, violations, samples).

    Normally states are snapshots (deepcopy).  If a from-scratch execution disagrees with the snapshot-based path while two
    from-scratch executions agree with each other, the code under test keeps state outside the snapshotted objects; the
    whole task is then explored again with every state rebuilt from scratch (no snapshots, no transposition table), so
    that every verdict is a function of (seed, configuration, events) and replays in a fresh process."""
    try:
        return _explore(system, task, seed, prop, max_violations, deadline, False)
    except _HiddenState as h:
        res = _explore(system, task, seed, prop, max_violations, deadline, True)
        res["stats"]["tasks_reexplored_without_snapshots"] = 1
        res["stats"]["hidden_state_first_seen: " + str(h)[:160]] = 1
        return res


def _explore(system, task, seed, prop, max_violations, deadline, fresh_mode):
    cfg = task["cfg"]
    mode = task.get("mode", "dfs")
    prefix = list(task.get("prefix", ()))
    validate_every = task.get("validate_every", 997)
    ctx = Ctx(seed)
    st = ctx.stats
    violations = []
    vsigs = Counter()
    samples = []
    seen = {}
    path_ev = []
    path_obs = []
    t0 = time.time()

    if mode == "dev":
        default = task["default"]
        menu = task["menu"]  # list of alternative events (same at each position) or per-position lists
        kmax = task["k"]
        total_len = len(default)
        per_pos = bool(menu) and isinstance(menu[0], list) and task.get("menu_per_pos")
    else:
        total_len = len(prefix) + task["depth"]

    def events_at(state, pos, budget):
        if mode == "dev":
            evs = [(default[pos], 0)]
            if budget > 0:
                alts = menu[pos] if per_pos else menu
                for a in alts:
                    if a != default[pos]:
                        evs.append((a, 1))
            return evs
        return [(e, 0) for e in system.alphabet(cfg, state, pos)]

    def record_violation(v, events):
        st["violations_raw"] += 1
        st["sig:" + str(v.sig)] += 1
        vsigs[v.sig] += 1
        if vsigs[v.sig] > max_violations:
            return
        # determinism: the violation must reproduce twice from scratch
        msgs = []
        for _ in range(2):
            _, v2 = run_path(system, cfg, events, seed)
            msgs.append(None if v2 is None else (v2.sub, v2.msg))
        if not fresh_mode and msgs[0] == msgs[1] and msgs[0] != (v.sub, v.msg):
            raise _HiddenState("violation %r on events=%r, from scratch: %r" % (v.sub, events, msgs[0]))
        if msgs[0] != (v.sub, v.msg) or msgs[1] != (v.sub, v.msg):
            raise HarnessError(
                "HARNESS-NONDET: violation %r on %s cfg=%r events=%r did not reproduce from scratch: %r"
                % ((v.sub, v.msg), system.name, cfg, events, msgs)
            )
        violations.append(artefact(prop, system, cfg, seed, events, v))

    def leaf(nmarks):
        st["executions"] += 1
        if nmarks:
            st["nontrivial_executions"] += 1
        n = st["executions"]
        if len(samples) < 1 or (nmarks and len(samples) < 2):
            samples.append(
                {
                    "system": system.name,
                    "cfg": jsonable(cfg),
                    "events": jsonable(path_ev),
                    "last_obs": jsonable(path_obs[-1]) if path_obs else None,
                    "nontrivial_events": nmarks,
                }
            )
        if validate_every and n % validate_every == 1:
            obs2, v2 = run_path(system, cfg, path_ev, seed)
            if not fresh_mode and (v2 is not None or not _same(obs2, path_obs)):
                obs3, v3 = run_path(system, cfg, path_ev, seed)
                if _same(obs2, obs3) and (None if v2 is None else (v2.sub, v2.msg)) == (None if v3 is None else (v3.sub, v3.msg)):
                    raise _HiddenState("events=%r" % (path_ev,))
            if v2 is not None or not _same(obs2, path_obs):
                raise HarnessError(
                    "HARNESS-NONDET: snapshot exploration and fresh execution differ on %s cfg=%r events=%r"
                    % (system.name, cfg, path_ev)
                )
            st["fresh_replays"] += 1

    def do_step(state, ev, pos):
        ctx.terminal = False
        ctx.marks = 0
        try:
            obs = system.step(cfg, state, ev, pos, ctx)
        except Violation as v:
            record_violation(v, path_ev + [ev])
            return None, False
        st["transitions"] += 1
        return obs, True

    def rebuild(events):
        """state after ``events`` from scratch (fresh mode): nothing survives from sibling paths"""
        c2 = Ctx(seed, collect=False)
        procstate.reset()
        s2 = system.init(cfg)
        for p2, e2 in enumerate(events):
            c2.terminal = False
            try:
                system.step(cfg, s2, e2, p2, c2)
            except Violation as v:
                raise HarnessError("HARNESS-NONDET: prefix %r raised %r when rebuilt from scratch" % (events, v.msg))
        return s2

    def rec(state, pos, budget, nmarks):
        if pos >= total_len or ctx.terminal:
            leaf(nmarks)
            return
        if deadline is not None and time.time() > deadline:
            st["deadline_cut"] += 1
            return
        evs = events_at(state, pos, budget)
        if not evs:
            leaf(nmarks)
            return
        last = len(evs) - 1
        for j, (ev, cost) in enumerate(evs):
            if fresh_mode:
                child = rebuild(path_ev)
            else:
                child = state if j == last else copy.deepcopy(state)
            obs, ok = do_step(child, ev, pos)
            if not ok:
                continue
            m = ctx.marks
            term = ctx.terminal
            if not term:
                k = None if fresh_mode else system.key(cfg, child, pos + 1)
                if k is not None:
                    k = (k, budget - cost)
                    rem = total_len - pos - 1
                    if seen.get(k, -1) >= rem:
                        st["pruned"] += 1
                        continue
                    if k not in seen:
                        st["states"] += 1
                    seen[k] = rem
                else:
                    st["states"] += 1
            else:
                st["states"] += 1
                st["terminal_states"] += 1
            path_ev.append(ev)
            path_obs.append(obs)
            ctx.terminal = term
            rec(child, pos + 1, budget - cost, nmarks + (1 if m else 0))
            ctx.terminal = False
            path_ev.pop()
            path_obs.pop()

    procstate.reset()
    state = system.init(cfg)
    st["states"] += 1
    nm = 0
    dead = False
    for pos, ev in enumerate(prefix):
        obs, ok = do_step(state, ev, pos)
        if not ok:
            dead = True
            break
        if ctx.marks:
            nm += 1
        path_ev.append(ev)
        path_obs.append(obs)
        if ctx.terminal:
            break
    if not dead:
        budget0 = 0
        if mode == "dev":
            used = sum(1 for i, e in enumerate(path_ev) if e != default[i])
            budget0 = task["k"] - used
            if budget0 < 0:
                raise HarnessError("dev-mode prefix uses more deviations than k")
        rec(state, len(path_ev), budget0, nm)
    st["wall_task_s"] = 0
    return {
        "stats": dict(st),
        "violations": violations,
        "samples": samples,
        "wall": time.time() - t0,
    }
