"""Runner:  python -m mc.run <Cxx> [--tier quick|thorough] [--replay file] [--only name] [--jobs N]

Loads checks/<cxx>.py, fans its tasks out over worker processes, aggregates the
counters, applies the known-findings policy, writes evidence/<Cxx>.json and
prints VIOLATION / KNOWN-FINDING lines.  Exit 0 = property held on everything
explored, 1 = violation, 2 = harness error (never a property verdict).
"""
import argparse
import importlib
import json
import multiprocessing as mp
import os
import sys
import time
import traceback
import warnings
from collections import Counter

warnings.filterwarnings("ignore")

HERE = os.path.dirname(os.path.dirname(os.path.abspath(__file__)))


def _load(prop):
    return importlib.import_module("checks." + prop.lower())


def _check_repo():
    import menelaus

    repo = os.path.realpath(os.environ.get("VERIF_REPO", "/repo"))
    f = os.path.realpath(menelaus.__file__)
    if not f.startswith(repo + os.sep):
        raise SystemExit(
            "HARNESS-ERROR: menelaus imported from %s, expected under %s" % (f, repo)
        )
    return repo


_MOD = None
_SEED = 0
_PROP = None
_DEADLINE = None


def _winit(prop, seed, deadline):
    global _MOD, _SEED, _PROP, _DEADLINE
    import numpy as np

    warnings.filterwarnings("ignore")
    np.seterr(all="ignore")
    _MOD = _load(prop)
    _SEED = seed
    _PROP = prop
    _DEADLINE = deadline


def _wrun(task):
    from mc import explorer

    try:
        fn = task.get("fn")
        if fn:
            res = getattr(_MOD, fn)(task, _SEED)
        else:
            from mc import pairs

            system = pairs.resolve(_MOD, task["system"])
            res = explorer.explore(system, task, _SEED, _PROP, deadline=_DEADLINE)
            if task.get("pair"):
                res["stats"] = pairs.rename_stats(res["stats"])
        res["task"] = task.get("label", task.get("system"))
        return res
    except explorer.HarnessError as e:
        return {"harness_error": str(e), "task": task.get("label")}
    except Exception:
        return {
            "harness_error": "HARNESS-CRASH in task %r:\n%s"
            % (task.get("label", task.get("system")), traceback.format_exc()),
            "task": task.get("label"),
        }


def main(argv=None):
    ap = argparse.ArgumentParser()
    ap.add_argument("prop")
    ap.add_argument("--tier", default=os.environ.get("VERIF_TIER", "quick"))
    ap.add_argument("--replay")
    ap.add_argument("--only", help="run only tasks whose label contains this string")
    ap.add_argument("--jobs", type=int, default=int(os.environ.get("VERIF_JOBS", "16")))
    ap.add_argument("--no-evidence", action="store_true")
    ap.add_argument("--first", action="store_true",
                    help="stop at the first task that reports a violation (used when evaluating seeded changes; never writes evidence)")
    a = ap.parse_args(argv)
    prop = a.prop.upper()
    tier = a.tier if a.tier in ("quick", "thorough") else "quick"
    try:
        seed = int(os.environ.get("VERIF_SEED", "0"))
    except ValueError:
        seed = 0
    repo = _check_repo()
    mod = _load(prop)
    from mc import procstate

    # record the process-level state of the freshly imported menelaus modules NOW, before tasks() or the derived families
    # construct a detector in this (parent) process: the workers are forked later and must not take state that a detector
    # already touched for the pristine one (on the unchanged tree there is no such state; on a changed tree verdicts found
    # in a worker would otherwise not replay in a fresh process)
    procstate.reset()

    from mc import evidence, findings, replay

    if a.replay:
        return replay.replay(mod, prop, a.replay)

    t0 = time.time()
    tasks = mod.tasks(tier, seed)
    from mc import pairs

    from mc import faults

    tasks = tasks + pairs.derive(mod, tasks, tier) + faults.derive(mod, tasks, tier)
    if a.only:
        tasks = [t for t in tasks if a.only in t.get("label", t.get("system", ""))]
    tasks.sort(key=lambda t: -t.get("cost", 1))
    budget = getattr(mod, "TIME_BUDGET", {}).get(tier)
    deadline = (t0 + budget) if budget else None

    stats = Counter()
    per_system = {}
    violations = []
    samples = []
    herr = []
    slow = []
    jobs = max(1, min(a.jobs, len(tasks)))
    ctx = mp.get_context("fork")
    with ctx.Pool(jobs, initializer=_winit, initargs=(prop, seed, deadline)) as pool:
        for res in pool.imap_unordered(_wrun, tasks, chunksize=1):
            if "harness_error" in res:
                herr.append(res["harness_error"])
                continue
            for k, v in res["stats"].items():
                stats[k] += v
            ps = per_system.setdefault(str(res["task"]).split("|")[0], Counter())
            for k in ("transitions", "executions", "states"):
                ps[k] += res["stats"].get(k, 0)
            violations.extend(res["violations"])
            for s in res["samples"]:
                if len(samples) < 8 or (
                    s.get("nontrivial_events") and sum(1 for x in samples if x.get("nontrivial_events")) < 4
                ):
                    samples.append(s)
            slow.append((res.get("wall", 0), res["task"]))
            if a.first and violations:
                known_now = findings.load(os.path.join(HERE, "KNOWN_FINDINGS.txt"), prop)
                if findings.split(violations, known_now)[0]:  # a violation that is not a listed finding
                    a.no_evidence = True
                    break
    wall = time.time() - t0

    if herr:
        for e in herr[:5]:
            print(e)
        print("HARNESS-ERROR property=%s (%d task(s) failed inside the harness)" % (prop, len(herr)))
        return 2

    known = findings.load(os.path.join(HERE, "KNOWN_FINDINGS.txt"), prop)
    new, listed = findings.split(violations, known)

    # vacuity guard
    required = getattr(mod, "REQUIRED", [])
    if callable(required):
        required = required(tier)
    missing = [r for r in required if stats.get(r, 0) <= 0]
    if a.only:
        missing = []

    ev = evidence.build(
        mod, prop, tier, seed, stats, per_system, samples, wall, len(new), len(tasks), listed
    )
    if not a.no_evidence and not a.only:
        evidence.write(os.path.join(HERE, "evidence", prop + ".json"), ev)

    slow.sort(reverse=True)
    print(
        "%s tier=%s seed=%d tasks=%d states=%d transitions=%d executions=%d nontrivial=%d fresh_replays=%d near_tie=%d wall=%.1fs (slowest task %.1fs %s)"
        % (
            prop, tier, seed, len(tasks), stats["states"], stats["transitions"],
            stats["executions"], stats["nontrivial_executions"], stats["fresh_replays"],
            stats["near_tie_steered"], wall, slow[0][0] if slow else 0, slow[0][1] if slow else "",
        )
    )
    extra = {k: v for k, v in sorted(stats.items()) if not k.startswith("sig:") and k not in (
        "states", "transitions", "executions", "nontrivial_executions", "fresh_replays", "wall_task_s")}
    print("counters:", json.dumps(extra))

    for sig, arts in listed.items():
        print("KNOWN-FINDING: property=%s %s (%d occurrence(s) this run)" % (prop, known[sig], len(arts)))
    if new:
        os.makedirs(os.path.join(HERE, "replays"), exist_ok=True)
        seen = set()
        new.sort(key=lambda a: (len(a["events"]), json.dumps(a["events"])))
        shown_sig = Counter()
        for k, v in sorted(stats.items()):
            if k.startswith("sig:"):
                print("  violations with signature %s: %d" % (k[4:], v))
        for art in new:
            from mc.explorer import artefact_id

            aid = artefact_id(art)
            if aid in seen:
                continue
            seen.add(aid)
            path = os.path.join(HERE, "replays", "%s-%s.json" % (prop, aid))
            with open(path, "w") as f:
                json.dump(art, f, indent=1, sort_keys=True)
            shown_sig[art["signature"]] += 1
            if shown_sig[art["signature"]] <= 2 and len(shown_sig) <= 12:
                print("  [%s] %s: %s" % (art["system"], art["sub"], art["message"][:400]))
                print("VIOLATION property=%s replay=%s" % (prop, path))
        return 1
    if missing:
        print("HARNESS-VACUOUS property=%s counters that must be positive are zero: %s" % (prop, missing))
        return 2
    if stats.get("deadline_cut"):
        print("note: time budget hit, %d subtrees cut (evidence says exhaustive=false)" % stats["deadline_cut"])
    print("OK property=%s" % prop)
    return 0


if __name__ == "__main__":
    sys.exit(main())
