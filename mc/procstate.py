"""Process-level state of the code under test (DESIGN §2.3, "own every source of nondeterminism").

The explorer snapshots the *objects* of a state; anything the library keeps at process level — module globals, class
attributes, mutable default arguments, function attributes, functools caches — is outside those snapshots and survives
from one execution to the next inside a worker process.  On the unchanged tree there is no such state that matters, but a
changed tree may introduce it (a class-level cache keyed too coarsely, a memo that is never invalidated), and then an
execution would depend on the executions that happened to run before it in the same worker: verdicts would not replay.

``reset()`` puts everything the ``menelaus`` modules hold at process level back to what it was when the module was first
seen.  It is called at the start of every task and of every from-scratch execution, so that a from-scratch execution is a
function of (seed, configuration, events) only and replays in any process.
"""
import copy
import sys
import types

_PREFIX = "menelaus"
_SAVED = {}  # module name -> record
RESTORED = [0]  # number of values put back so far in this process (reported by the explorer)
_FUNC_TYPES = (types.FunctionType,)
_SKIP_TYPES = (types.ModuleType, type, types.FunctionType, types.BuiltinFunctionType, staticmethod, classmethod, property)


def _equal(a, b):
    if a is b:
        return True
    if type(a) is not type(b):
        return False
    try:
        r = a == b
        if isinstance(r, bool):
            return r
        return bool(r.all())
    except Exception:
        try:
            return repr(a) == repr(b)
        except Exception:
            return False


def _copy(v):
    """deep copy of a value that can be compared with its copy (sentinels, locks, loggers ... are left alone)"""
    try:
        c = copy.deepcopy(v)
    except Exception:
        return False, None
    if isinstance(v, tuple):
        return (all(_equal(x, y) for x, y in zip(v, c)) and len(v) == len(c)), c
    return _equal(v, c), c


def _put_back(current, saved):
    """returns (changed?, object to bind): containers are restored in place so that every holder of the object sees it"""
    if _equal(current, saved):
        return False, current
    if type(current) is dict and type(saved) is dict:
        current.clear()
        current.update(copy.deepcopy(saved))
        return True, current
    if type(current) is list and type(saved) is list:
        current[:] = copy.deepcopy(saved)
        return True, current
    if type(current) is set and type(saved) is set:
        current.clear()
        current.update(copy.deepcopy(saved))
        return True, current
    return True, copy.deepcopy(saved)


def _functions_of(mod):
    seen = set()
    for name, v in list(vars(mod).items()):
        if isinstance(v, _FUNC_TYPES) and getattr(v, "__module__", None) == mod.__name__:
            if id(v) not in seen:
                seen.add(id(v))
                yield v
        elif hasattr(v, "cache_clear") and callable(v) and getattr(v, "__module__", None) == mod.__name__:
            # a module-level function wrapped in functools.lru_cache / cache: the wrapper (cleared on reset) and the
            # function under it (defaults and attributes)
            if id(v) not in seen:
                seen.add(id(v))
                yield v
            w = getattr(v, "__wrapped__", None)
            if isinstance(w, _FUNC_TYPES) and id(w) not in seen:
                seen.add(id(w))
                yield w
        elif isinstance(v, type) and getattr(v, "__module__", None) == mod.__name__:
            for an, av in list(vars(v).items()):
                f = av.__func__ if isinstance(av, (staticmethod, classmethod)) else av
                if isinstance(f, property):
                    for g in (f.fget, f.fset, f.fdel):
                        if isinstance(g, _FUNC_TYPES) and id(g) not in seen:
                            seen.add(id(g))
                            yield g
                    continue
                w = getattr(f, "__wrapped__", None)
                if hasattr(f, "cache_clear") and id(f) not in seen:
                    seen.add(id(f))
                    yield f
                if isinstance(w, _FUNC_TYPES):
                    f = w
                if isinstance(f, _FUNC_TYPES) and id(f) not in seen:
                    seen.add(id(f))
                    yield f


def _classes_of(mod):
    for name, v in list(vars(mod).items()):
        if isinstance(v, type) and getattr(v, "__module__", None) == mod.__name__:
            yield v


def _is_data(name, v):
    if name.startswith("__") and name.endswith("__"):
        return False
    if isinstance(v, _SKIP_TYPES) or callable(v) and not isinstance(v, (dict, list, set)):
        return False
    return True


def _record(mod):
    rec = {"globals": {}, "global_names": set(vars(mod).keys()), "classes": [], "functions": []}
    for name, v in list(vars(mod).items()):
        if _is_data(name, v):
            ok, c = _copy(v)
            if ok:
                rec["globals"][name] = c
    for cls in _classes_of(mod):
        attrs = {}
        for an, av in list(vars(cls).items()):
            if _is_data(an, av) and not isinstance(av, (types.MemberDescriptorType, types.GetSetDescriptorType)):
                ok, c = _copy(av)
                if ok:
                    attrs[an] = c
        rec["classes"].append((cls, attrs, set(vars(cls).keys())))
    for f in _functions_of(mod):
        if hasattr(f, "cache_clear") and not isinstance(f, _FUNC_TYPES):
            rec["functions"].append((f, None, None, None))
            continue
        ok1, d = _copy(f.__defaults__)
        ok2, kd = _copy(f.__kwdefaults__)
        ok3, fd = _copy(dict(f.__dict__))
        rec["functions"].append((f, d if ok1 else False, kd if ok2 else False, fd if ok3 else False))
    return rec


def _restore(mod, rec):
    n = 0
    g = vars(mod)
    for name in [k for k in list(g.keys()) if k not in rec["global_names"]]:
        if _is_data(name, g[name]):
            del g[name]
            n += 1
    for name, v in rec["globals"].items():
        ch, obj = _put_back(g.get(name), v)
        if ch:
            g[name] = obj
            n += 1
    for cls, attrs, names in rec["classes"]:
        for an in [k for k in list(vars(cls).keys()) if k not in names]:
            if _is_data(an, vars(cls)[an]):
                try:
                    delattr(cls, an)
                    n += 1
                except Exception:
                    pass
        for an, av in attrs.items():
            ch, obj = _put_back(vars(cls).get(an), av)
            if ch:
                try:
                    setattr(cls, an, obj)
                    n += 1
                except Exception:
                    pass
    for f, d, kd, fd in rec["functions"]:
        if hasattr(f, "cache_clear"):
            try:
                f.cache_clear()
            except Exception:
                pass
            if d is None:
                continue
        if d is not False and d is not None and f.__defaults__ is not None and len(d) == len(f.__defaults__):
            new, ch = [], False
            for cur, sav in zip(f.__defaults__, d):
                c1, obj = _put_back(cur, sav)
                ch = ch or c1
                new.append(obj)
            if ch:
                f.__defaults__ = tuple(new)
                n += 1
        if kd is not False and kd is not None and f.__kwdefaults__ is not None:
            for k2, sav in kd.items():
                c1, obj = _put_back(f.__kwdefaults__.get(k2), sav)
                if c1:
                    f.__kwdefaults__[k2] = obj
                    n += 1
        if fd is not False:
            for k2 in [k for k in list(f.__dict__.keys()) if k not in fd and k != "__wrapped__"]:
                del f.__dict__[k2]
                n += 1
            for k2, sav in fd.items():
                if k2 == "__wrapped__":
                    continue
                c1, obj = _put_back(f.__dict__.get(k2), sav)
                if c1:
                    f.__dict__[k2] = obj
                    n += 1
    return n


def reset():
    """Put the process-level state of every loaded ``menelaus`` module back to its first-seen value."""
    for name, mod in list(sys.modules.items()):
        if mod is None or not (name == _PREFIX or name.startswith(_PREFIX + ".")):
            continue
        rec = _SAVED.get(name)
        if rec is None:
            try:
                _SAVED[name] = _record(mod)
            except Exception:
                _SAVED[name] = {"globals": {}, "global_names": set(vars(mod).keys()), "classes": [], "functions": []}
            continue
        RESTORED[0] += _restore(mod, rec)
