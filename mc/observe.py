"""Public observables of menelaus detectors, as JSON-able dicts."""
import numpy as np


def recs_of(det):
    r = getattr(det, "retraining_recs", None)
    if r is None:
        return None
    return [None if x is None else int(x) for x in list(r)]


def stream_obs(det):
    o = {
        "state": det.drift_state,
        "total": int(det.total_samples),
        "since": int(det.samples_since_reset),
    }
    r = recs_of(det)
    if r is not None:
        o["recs"] = r
    return o


def batch_obs(det):
    return {
        "state": det.drift_state,
        "total": int(det.total_batches),
        "since": int(det.batches_since_reset),
    }


def fl(x):
    """float or None, keeping NaN/inf."""
    if x is None:
        return None
    return float(x)
