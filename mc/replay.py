"""Re-execute a violation artefact on a fresh object, without the explorer."""
import json

from mc import explorer


def replay(mod, prop, path):
    art = json.load(open(path))
    from mc import pairs

    if hasattr(mod, "replay") and ":" not in str(art.get("system", "")):
        r = mod.replay(art)
        if r is not None:
            return r
    system = pairs.resolve(mod, art["system"])
    print("replaying %s on %s" % (path, system.name))
    print("cfg    :", json.dumps(art["cfg"]))
    print("events :", json.dumps(art["events"]))
    obs, v = explorer.run_path(system, art["cfg"], art["events"], art["seed"])
    for i, o in enumerate(obs):
        print("  step %d ev=%s obs=%s" % (i, json.dumps(art["events"][i]), json.dumps(explorer.jsonable(o))[:300]))
    if v is None:
        print("no violation on this tree (history passes)")
        return 0
    print("  step %d ev=%s FAILS" % (len(obs), json.dumps(art["events"][len(obs)])))
    print("  sub-check:", v.sub)
    print("  message  :", v.msg)
    print("  expected :", json.dumps(explorer.jsonable(v.expected))[:1000])
    print("  observed :", json.dumps(explorer.jsonable(v.observed))[:1000])
    print("VIOLATION property=%s replay=%s" % (prop, path))
    return 1
