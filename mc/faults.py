"""Refused calls inside every check's histories (DESIGN §8.9): fault injection as an environment answer.

C14 owns "a malformed call is refused and leaves no trace".  The other checks used to explore histories of accepted calls
only, so a change that lets a *refused* call leave a trace in the state a property talks about (counters advanced before the
validation, a statistic updated before the width test ...) was visible to C14 alone.  ``Faulty`` wraps any base System of
a check: at every position of a history, in addition to the base events, the caller may make ONE malformed call (at most
``k`` per history — deviation-bounded) to the real detector held in the explored state; the call must be refused with an
exception, and afterwards the base system's own oracle (model, twin, monitor) goes on judging every accepted call as if
the refused one had never been made.  Nothing new is demanded from code on which refused calls are traceless.

Soundness choices:
* a malformed call that is NOT refused is C14's business: the branch ends without a verdict (counted);
* no fault is offered while the detector reports a drift (most ``update`` methods perform the pending re-initialisation
  before they validate — DESIGN §8.2 — so a refused call may legitimately trigger it) nor before an input width exists
  where the fault needs one;
* ensembles and MD3 are left to C12 / C14 / C19 (their refusal rules are protocol, not shape).
"""
import math

import numpy as np

from mc import rng
from mc.explorer import System, Violation

PREFIX = "Faulty:"
LABEL_READERS = ("DDM", "EDDM", "STEPD", "LinearFourRates", "ADWINAccuracy")
X_STREAM = ("ADWIN", "CUSUM", "PageHinkley", "KdqTreeStreaming", "PCACD")
BATCH = ("HDDDM", "CDBD", "KdqTreeBatch", "NNDVI")

CFGS_PER_SYSTEM = {"quick": 3, "thorough": 5}
K = {"quick": 1, "thorough": 2}


def _is_detector(o):
    cls = type(o)
    return cls.__module__.startswith("menelaus.") and cls.__name__ in LABEL_READERS + X_STREAM + BATCH


def find_detector(state):
    """the detector under test inside a base system's state: key 'det' if it is one, else the first found (sorted keys)"""
    if isinstance(state, dict):
        d = state.get("det")
        if d is not None and _is_detector(d):
            return d
        for k in sorted(state, key=str):
            r = find_detector(state[k])
            if r is not None:
                return r
    elif isinstance(state, (list, tuple)):
        for v in state:
            r = find_detector(v)
            if r is not None:
                return r
    elif _is_detector(state):
        return state
    return None


def kinds_for(det):
    if det is None or getattr(det, "drift_state", None) is not None:
        return []
    name = type(det).__name__
    w = getattr(det, "_input_col_dim", None)
    if name in LABEL_READERS:
        return ["y_true2", "y_pred2"]
    if name in X_STREAM:
        ks = ["rows"]
        if w is not None:
            ks.append("cols")
        return ks
    if name in BATCH and w is not None:
        return ["upd-cols", "ref-cols"]
    return []


def _counters(det):
    out = []
    for a in ("total_samples", "samples_since_reset", "total_batches", "batches_since_reset"):
        try:
            out.append((a, int(getattr(det, a))))
        except Exception:
            pass
    return out


def make_fault(det, kind):
    w = getattr(det, "_input_col_dim", None) or 1
    if kind == "y_true2":
        return lambda: det.update(y_true=[0, 1], y_pred=0, X=None)
    if kind == "y_pred2":
        return lambda: det.update(y_true=0, y_pred=[0, 1], X=None)
    if kind == "rows":
        return lambda: det.update(X=np.zeros((2, w)), y_true=None, y_pred=None)
    if kind == "cols":
        return lambda: det.update(X=np.zeros((1, w + 1)), y_true=None, y_pred=None)
    if kind == "upd-cols":
        return lambda: det.update(X=np.arange(3.0 * (w + 1)).reshape(3, w + 1), y_true=None, y_pred=None)
    if kind == "ref-cols":
        return lambda: det.set_reference(X=np.arange(3.0 * (w + 1)).reshape(3, w + 1), y_true=None, y_pred=None)
    raise ValueError(kind)


class Faulty(System):
    def __init__(self, base):
        self.base = base
        self.name = PREFIX + base.name

    def init(self, cfg):
        return {"s": self.base.init(cfg["base"]), "n": 0, "faults": 0}

    def alphabet(self, cfg, state, pos):
        script = cfg.get("script", ())
        if state["n"] < len(script):  # the base task's own prefix (set-up calls / root split) comes first, fault-free
            return [["ev", script[state["n"]]]]
        evs = [["ev", e] for e in self.base.alphabet(cfg["base"], state["s"], state["n"])]
        if state["faults"] < cfg["k"] and evs:
            evs += [["fault", k] for k in kinds_for(find_detector(state["s"]))]
        return evs

    def step(self, cfg, state, ev, pos, ctx):
        what, e = ev
        if what == "ev":
            obs = self.base.step(cfg["base"], state["s"], e, state["n"], ctx)
            state["n"] += 1
            if state["faults"]:
                ctx.count("accepted_calls_judged_after_a_refused_call")
            return obs
        det = find_detector(state["s"])
        if det is None or e not in kinds_for(det):
            ctx.terminal = True
            return {"fault": "not applicable here"}
        before = _counters(det)
        rng.seed_step(ctx.seed, "fault", cfg["id"], pos)
        try:
            make_fault(det, e)()
        except Exception as ex:
            state["faults"] += 1
            ctx.mark("refused_calls")
            ctx.count("refused:%s:%s" % (type(det).__name__, e))
            after = _counters(det)
            if after != before:
                raise Violation(
                    "refused-call-counted",
                    "%s: a call refused with %s (%s) changed the counters from %r to %r: they no longer equal the number of "
                    "samples / batches processed" % (type(det).__name__, type(ex).__name__, e, before, after),
                    expected=before, observed=after, sig="refused-call-counted:%s" % type(det).__name__)
            return {"fault": e, "refused": type(ex).__name__}
        ctx.count("malformed_call_not_refused(C14's business, branch closed)")
        ctx.terminal = True
        return {"fault": e, "refused": None}

    def key(self, cfg, state, pos):
        k = self.base.key(cfg["base"], state["s"], state["n"])
        if k is None:
            return None
        return (k, state["n"], state["faults"])


def resolve(mod, name):
    return Faulty(mod.SYSTEMS[name[len(PREFIX):]])


def derive(mod, tasks, tier):
    import os

    from mc import pairs

    if os.environ.get("VERIF_FAULTS", pairs.DEFAULT_ON) == "0" or getattr(mod, "NO_FAULTS", False):
        return []
    if getattr(mod, "PROPERTY", "") in ("C14", "C12"):  # C14 explores refused calls natively (ensembles included: a fault aimed at a member object of a C12 ensemble would bypass the ensemble)
        return []
    out = []
    k = K[tier]
    for name, chosen in pairs.choose(mod, tasks, CFGS_PER_SYSTEM[tier]):
        base = mod.SYSTEMS[name]
        cap = pairs.node_cap(tier, name)
        for t in chosen:
            try:
                s0 = base.init(t["cfg"])
                s = max(1, len(base.alphabet(t["cfg"], s0, 0)))
                det = find_detector(s0)
            except Exception:
                continue
            if det is None or s < 1:
                continue
            nodes = min(cap, max(s, 2) ** min(t["depth"], 40))
            # histories of d accepted calls with at most k refused calls (2 kinds) anywhere: ~ s^d * (1 + 2(d+1))^k
            d = max(2, t["depth"])
            while d > 2 and (max(s, 2) ** d) * (1 + 2 * (d + 1)) ** k > nodes * 2:
                d -= 1
            cid = pairs._cid(t["cfg"])
            script = list(t.get("prefix", ()))
            cfg = {"id": "faulty:%s" % cid, "base": t["cfg"], "k": k, "script": script}
            out.append({
                "system": PREFIX + name, "cfg": cfg, "prefix": [], "depth": d + k + len(script),
                "label": "%s%s|%s|k%d|d%d" % (PREFIX, name, cid, k, d + k),
                "cost": 0.5 * t.get("cost", 1), "validate_every": t.get("validate_every", 997), "pair": True,
            })
    return out
