"""Interleaved instances (DESIGN §8.9): every System of a check can be explored as TWO instances living in one process.

The explored object of most checks is one detector (plus its model or twins).  State that lives outside that object — a
mutable default argument, a class attribute used as a per-instance field, a module-level memo or scratch buffer, a table
keyed by something two objects share — is invisible as long as one object serves one stream.  ``Pair`` closes two
instances ``a`` and ``b`` of a base system (same or different configuration) into one system whose events are tagged with
the instance they go to; every instance keeps its own oracle (model / twin / monitor) and its own step counter, so on
code in which instances are independent the pair behaves exactly like two solo runs and nothing new is demanded.

Schedules (all exhaustive in the events of both instances up to the stated length):
  alt   a b a b ...                       strict alternation, both constructed up front
  free  every interleaving                 at every node either instance may move
  seq   a x h, then b is CONSTRUCTED and gets hb events, then a goes on  ("an object made after another one was used",
        and the first one used again after that)
  blocks  like seq but both constructed up front: a runs ahead, b catches up only part of the way, a goes on

``derive`` turns a module's own dfs tasks into pair tasks: per system a few configurations, each paired with itself and
with its neighbour, explored from the initial state (the root split of the base task is dropped) to a depth whose node
count does not exceed that of the base task it was derived from (capped), so the cost stays of the order of the base task.
"""
import json
import math
import os

from mc.explorer import System, Violation

PREFIX = "Pair:"

# systems that are not closed under pairing for a reason that has nothing to do with the code under test
# (none at present); module attribute PAIR_EXCLUDE = {"SystemName", ...} adds to it
EXCLUDE = {}

NODE_CAP = {"quick": 4000, "thorough": 40000}
# systems whose single step costs a millisecond or more (tree builds, histograms, kNN graphs, PCA, ensembles): a quarter
# of the node budget (deterministic, so that the bound explored does not depend on the machine's load)
HEAVY = ("Kdq", "PCACD", "NNDVI", "HDDDM", "CDBD", "MD3", "Stream", "Batch", "Multi", "Ens")


def node_cap(tier, system_name):
    cap = NODE_CAP[tier]
    if any(h in system_name for h in HEAVY):
        cap //= 4
    return cap
CFGS_PER_SYSTEM = {"quick": 3, "thorough": 5}
DEFAULT_ON = "1"  # both derived families are on (validated silent on every check for VERIF_SEED 0 and 1; VERIF_PAIRS=0 / VERIF_FAULTS=0 switch them off)


class Pair(System):
    def __init__(self, base):
        self.base = base
        self.name = PREFIX + base.name

    def init(self, cfg):
        lazy_b = cfg["sched"] == "seq"  # "blocks": same phases, b constructed up front
        sa = self.base.init(cfg["a"])
        sb = self.base.init(cfg["b"])
        alph_b0 = list(self.base.alphabet(cfg["b"], sb, 0))
        return {"s": [sa, None if lazy_b else sb], "n": [0, 0], "term": [False, False], "alph_b0": alph_b0}

    def _alph(self, cfg, state, i):
        if state["term"][i]:
            return []
        script = cfg.get("script", ((), ()))[i]
        if state["n"][i] < len(script):  # the base task's own prefix (set-up calls / root split) comes first
            return [[i, script[state["n"][i]]]]
        if state["s"][i] is None:
            return [[i, e] for e in state["alph_b0"]]
        return [[i, e] for e in self.base.alphabet(cfg["ab"[i]], state["s"][i], state["n"][i])]

    def alphabet(self, cfg, state, pos):
        sched = cfg["sched"]
        if sched == "free":
            return self._alph(cfg, state, 0) + self._alph(cfg, state, 1)
        if sched == "alt":
            first = pos % 2
        else:  # seq / blocks: a x h, b x hb, a for the rest
            first = 0 if (pos < cfg["h"] or pos >= cfg["h"] + cfg["hb"]) else 1
        evs = self._alph(cfg, state, first)
        if not evs:
            evs = self._alph(cfg, state, 1 - first)
        return evs

    def step(self, cfg, state, ev, pos, ctx):
        i, e = ev
        c = cfg["ab"[i]]
        if state["s"][i] is None:
            state["s"][i] = self.base.init(c)
            ctx.count("instances_constructed_after_the_other_was_used")
        ctx.terminal = False
        obs = self.base.step(c, state["s"][i], e, state["n"][i], ctx)
        state["n"][i] += 1
        if ctx.terminal:
            state["term"][i] = True
        ctx.terminal = all(state["term"])
        if state["n"][0] and state["n"][1]:
            ctx.count("steps_with_both_instances_used")
        return [i, obs]

    def key(self, cfg, state, pos):
        ks = []
        for i in (0, 1):
            if state["s"][i] is None:
                ks.append(None)
                continue
            k = self.base.key(cfg["ab"[i]], state["s"][i], state["n"][i])
            if k is None:
                return None
            ks.append(k)
        return (tuple(ks), tuple(state["n"]), tuple(state["term"]), pos)


def resolve(mod, name):
    """System object for a task / artefact system name (pair names are built on the fly)."""
    if name.startswith(PREFIX):
        return Pair(mod.SYSTEMS[name[len(PREFIX):]])
    from mc import faults

    if name.startswith(faults.PREFIX):
        return faults.resolve(mod, name)
    return mod.SYSTEMS[name]


_KEEP = ("states", "transitions", "executions", "nontrivial_executions", "fresh_replays", "violations_raw", "pruned",
         "terminal_states", "deadline_cut", "tasks_reexplored_without_snapshots", "near_tie_steered", "wall_task_s")


def rename_stats(stats):
    """counters of pair tasks are kept apart so that they cannot satisfy a module's own anti-vacuity requirements"""
    out = {}
    for k, v in stats.items():
        if k in _KEEP or k.startswith("sig:") or k.startswith("hidden_state"):
            out[k] = v
        else:
            out["pair:" + k] = v
    out["pair_tasks"] = 1
    return out


def _cid(cfg):
    return str(cfg.get("id", json.dumps(cfg, sort_keys=True, default=repr)))


def choose(mod, tasks, want):
    """per system of the module's own dfs tasks: up to ``want`` base tasks with different configurations, evenly spaced
    through the module's (sorted) configuration list; per configuration the task with the shortest prefix (the root split
    of the module, which also carries whatever set-up calls its histories must start with), then the deepest subtree"""
    excl = set(EXCLUDE.get(getattr(mod, "PROPERTY", ""), ())) | set(getattr(mod, "PAIR_EXCLUDE", ()))
    by_sys = {}
    for t in tasks:
        if t.get("fn") or t.get("mode", "dfs") != "dfs" or "depth" not in t:
            continue
        name = t["system"]
        if name in excl or name not in getattr(mod, "SYSTEMS", {}):
            continue
        cfgs = by_sys.setdefault(name, {})
        cid = _cid(t["cfg"])
        rank = (len(t.get("prefix", ())), -t["depth"])
        if cid not in cfgs or rank < (len(cfgs[cid].get("prefix", ())), -cfgs[cid]["depth"]):
            cfgs[cid] = t
    for name in sorted(by_sys):
        cids = sorted(by_sys[name])
        if len(cids) > want:
            cids = [cids[(j * len(cids)) // want] for j in range(want)]
        yield name, [by_sys[name][c] for c in cids]


# C15's systems rebuild every state by re-executing the recorded calls (a deepcopy would cut the aliasing under test), so a
# derived task costs (nodes x depth) executions; its two-object families (two detectors fed from ONE caller container) are
# native to checks/c15.py.  Every step of a C18 system already runs the original and all row-permuted twins (up to 120
# detectors alive and fed alternately in one execution): state shared between instances shows there, and a derived pair
# would cost two orders of magnitude more per node than elsewhere.
NOT_FOR = ("C15", "C18")


def derive(mod, tasks, tier):
    if os.environ.get("VERIF_PAIRS", DEFAULT_ON) == "0" or getattr(mod, "NO_PAIRS", False):
        return []
    if getattr(mod, "PROPERTY", "") in NOT_FOR:
        return []
    out = []
    for name, chosen in choose(mod, tasks, CFGS_PER_SYSTEM[tier]):
        base = mod.SYSTEMS[name]
        cap = node_cap(tier, name)
        pairs = []
        for j, t in enumerate(chosen):
            pairs.append((t, t))
            if len(chosen) > 1:
                pairs.append((t, chosen[(j + 1) % len(chosen)]))
        seen = set()
        for ta, tb in pairs:
            ida, idb = _cid(ta["cfg"]), _cid(tb["cfg"])
            if (ida, idb) in seen:
                continue
            seen.add((ida, idb))
            try:
                s0 = base.init(ta["cfg"])
                s = max(1, len(base.alphabet(ta["cfg"], s0, 0)))
                s1 = base.init(tb["cfg"])
                s = max(s, len(base.alphabet(tb["cfg"], s1, 0)))
            except Exception:
                continue
            if s < 2:
                continue
            nodes = min(cap, s ** min(ta["depth"], tb["depth"], 40))
            d_alt = max(2, int(math.log(nodes) / math.log(s) + 1e-9))
            d_free = max(2, int(math.log(nodes) / math.log(2 * s) + 1e-9))
            cfg_b = dict(tb["cfg"])
            if "id" in cfg_b:
                # the configuration id only selects the random draws of a step (mc.rng.seed_step): instance b of an
                # equal-configuration pair gets draws of its own (its model / twin is seeded with the same id), so that
                # something handed from one instance to the other is not hidden by being identical anyway
                cfg_b["id"] = "%s~b" % (cfg_b["id"],)
            scheds = [("alt", d_alt), ("seq", d_alt), ("blocks", d_alt)]
            if tier == "thorough":  # every interleaving, at the smaller depth the doubled branching allows
                scheds.append(("free", d_free))
            for sched, depth in scheds:
                pa, pb = list(ta.get("prefix", ())), list(tb.get("prefix", ()))
                depth += len(pa) + len(pb)
                cfg = {"id": "pair:%s+%s:%s" % (ida, idb, sched), "a": ta["cfg"], "b": cfg_b, "sched": sched,
                       "h": depth // 2, "hb": max(1, depth // 2 - 1), "script": [pa, pb]}
                out.append({
                    "system": PREFIX + name, "cfg": cfg, "prefix": [], "depth": depth,
                    "label": "%s%s|%s+%s|%s|d%d" % (PREFIX, name, ida, idb, sched, depth),
                    "cost": 0.5 * max(ta.get("cost", 1), tb.get("cost", 1)),
                    "validate_every": min(ta.get("validate_every", 997), tb.get("validate_every", 997)),
                    "pair": True,
                })
    return out
