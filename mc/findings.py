"""KNOWN_FINDINGS.txt handling (DESIGN §2.7).

Lines:
  finding: property=Cxx sig=<signature> <what fails>
  fixed: property=Cxx <commit> <what failed>        (suppresses nothing)
The file is read only; it is never written at run time.
"""
import os
import re


def load(path, prop):
    known = {}
    if not os.path.exists(path):
        return known
    for line in open(path):
        line = line.strip()
        m = re.match(r"finding:\s+property=(\S+)\s+sig=(\S+)\s+(.*)$", line)
        if m and m.group(1) == prop:
            known[m.group(2)] = "sig=%s %s" % (m.group(2), m.group(3))
    return known


def split(violations, known):
    new = []
    listed = {}
    for art in violations:
        sig = art.get("signature")
        if sig in known:
            listed.setdefault(sig, []).append(art)
        else:
            new.append(art)
    return new, listed
