"""Evidence writer (DESIGN §2.8) with schema self-check."""
import json
import os

SCHEMA = "/root/.vp/EVIDENCE.schema.json"
LOCAL_SCHEMA = os.path.join(os.path.dirname(os.path.abspath(__file__)), "EVIDENCE.schema.json")


def build(mod, prop, tier, seed, stats, per_system, samples, wall, nviol, ntasks, listed):
    desc = mod.describe(tier) if hasattr(mod, "describe") else {}
    skip = {"states", "transitions", "executions", "nontrivial_executions", "wall_task_s"}
    cov = {
        "states": int(stats.get("states", 0)),
        "transitions": int(stats.get("transitions", 0)),
        "traces_validated_against_impl": int(stats.get("executions", 0)),
        "evaluations": int(stats.get("executions", 0)),
        "distinct_nontrivial": int(stats.get("nontrivial_executions", 0)),
        "rule": desc.get("rule", ""),
        "samples": samples[:10] if samples else [],
        "exhaustive": not stats.get("deadline_cut"),
        "bounds": desc.get("bounds", {}),
        "tasks": ntasks,
        "fresh_replays_identical": int(stats.get("fresh_replays", 0)),
        "near_tie_steered": int(stats.get("near_tie_steered", 0)),
        "counters": {k: int(v) for k, v in sorted(stats.items()) if k not in skip},
        "per_system": {k: dict(v) for k, v in sorted(per_system.items())},
        "explanation": desc.get("explanation", ""),
        "known_findings_reported": sorted(listed.keys()),
    }
    if stats.get("pair_tasks"):
        from mc import faults, pairs

        cov["bounds"] = dict(cov["bounds"])
        cov["bounds"]["derived_families"] = {
            "tasks": int(stats.get("pair_tasks", 0)),
            "Pair:<System> (mc/pairs.py)": "two instances of a base system of this check in one process (same configuration twice with "
            "draws of their own, and neighbouring configurations; %d configurations per system), events tagged by instance, each "
            "instance judged by its own oracle; schedules alt / free / seq / blocks, every event sequence from the initial state up "
            "to the depth whose node count stays below that of the base task (cap %d nodes, a quarter for systems with "
            "millisecond steps)" % (pairs.CFGS_PER_SYSTEM[tier], pairs.NODE_CAP[tier]),
            "Faulty:<System> (mc/faults.py)": "base histories with at most %d refused (malformed) call(s) anywhere; the call must be "
            "refused, the counters must not move, the base oracle goes on judging the accepted calls" % faults.K[tier],
            "counters": "prefixed pair: (kept apart from the module's own anti-vacuity counters)",
        }
        cov["rule"] = (cov["rule"] + " Derived families (two interleaved instances; refused calls inside histories) are "
                       "enumerated the same way and counted in the same totals.").strip()
    if stats.get("deadline_cut"):
        cov["cap"] = "time budget reached; %d subtrees not expanded" % stats["deadline_cut"]
    return {
        "property_id": prop,
        "tier": tier,
        "seed": int(seed),
        "level": "model_checking",
        "coverage": cov,
        "assumptions": desc.get("assumptions", []),
        "wall_s": round(float(wall), 2),
        "violations": int(nviol),
    }


def write(path, ev):
    os.makedirs(os.path.dirname(path), exist_ok=True)
    try:
        import jsonschema

        sp = SCHEMA if os.path.exists(SCHEMA) else LOCAL_SCHEMA
        if os.path.exists(sp):
            jsonschema.validate(ev, json.load(open(sp)))
    except ImportError:
        pass
    tmp = path + ".tmp"
    with open(tmp, "w") as f:
        json.dump(ev, f, indent=1, sort_keys=True)
    os.replace(tmp, path)
