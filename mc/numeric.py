"""Tolerance / tie policy (DESIGN §2.4).

* numeric observables: relative 1e-9 / absolute 1e-12 (NaN == NaN, inf == inf)
* decisions ``lhs ⋈ rhs`` predicted by a reference model go through a
  ``Decider``.  A comparison whose relative margin is <= TIE is *numerically
  undecidable*; ``lockstep`` may flip such comparisons (and only such) to follow
  the implementation, and counts it.  Exact ties (margin == 0) are enforced
  strictly when the configuration is declared dyadic-closed (``exact=True``).
"""
import copy
import itertools
import math

import numpy as np

REL = 1e-9
ABS = 1e-12
TIE = 1e-9


def isnum(x):
    return isinstance(x, (int, float, np.integer, np.floating)) and not isinstance(
        x, (bool, np.bool_)
    )


def close(a, b, rel=REL, abs_=ABS):
    """Structural closeness of two observation values."""
    if a is None or b is None:
        return a is None and b is None
    if isinstance(a, (bool, np.bool_)) or isinstance(b, (bool, np.bool_)):
        return bool(a) == bool(b) and isinstance(a, (bool, np.bool_)) == isinstance(
            b, (bool, np.bool_)
        )
    if isnum(a) and isnum(b):
        a = float(a)
        b = float(b)
        if math.isnan(a) or math.isnan(b):
            return math.isnan(a) and math.isnan(b)
        if math.isinf(a) or math.isinf(b):
            return a == b
        return abs(a - b) <= max(abs_, rel * max(abs(a), abs(b)))
    if isinstance(a, str) or isinstance(b, str):
        return a == b
    if isinstance(a, dict) and isinstance(b, dict):
        if set(a) != set(b):
            return False
        return all(close(a[k], b[k], rel, abs_) for k in a)
    if isinstance(a, (list, tuple, np.ndarray)) and isinstance(
        b, (list, tuple, np.ndarray)
    ):
        a = list(a)
        b = list(b)
        if len(a) != len(b):
            return False
        return all(close(x, y, rel, abs_) for x, y in zip(a, b))
    return a == b


def diff_keys(exp, obs, rel=REL, abs_=ABS):
    """Keys of the expected dict on which obs disagrees (obs may carry more)."""
    bad = []
    for k, v in exp.items():
        if k not in obs or not close(v, obs[k], rel, abs_):
            bad.append(k)
    return bad


class Decider:
    """Comparison recorder for reference models.

    Every threshold comparison of a model goes through gt/ge/lt/le.  ``near``
    lists the indices of comparisons that were numerically undecidable; a
    Decider constructed with ``flips`` inverts exactly those comparisons.
    """

    def __init__(self, flips=(), exact=False, tie=TIE):
        self.i = 0
        self.flips = frozenset(flips)
        self.near = []
        self.exact = exact
        self.tie = tie
        self.min_margin = math.inf
        self.exact_ties = 0

    def _cmp(self, a, b, op, exact=None):
        a = float(a)
        b = float(b)
        if op == "gt":
            r = a > b
        elif op == "ge":
            r = a >= b
        elif op == "lt":
            r = a < b
        else:
            r = a <= b
        idx = self.i
        self.i += 1
        if math.isnan(a) or math.isnan(b) or math.isinf(a) or math.isinf(b):
            return (not r) if idx in self.flips else r
        den = max(abs(a), abs(b), 1e-300)
        margin = abs(a - b) / den
        if margin < self.min_margin:
            self.min_margin = margin
        if margin == 0.0:
            self.exact_ties += 1
            if not (self.exact if exact is None else exact):
                self.near.append(idx)
        elif margin <= self.tie:
            self.near.append(idx)
        if idx in self.flips:
            r = not r
        return r

    def gt(self, a, b, exact=None):
        return self._cmp(a, b, "gt", exact)

    def ge(self, a, b, exact=None):
        return self._cmp(a, b, "ge", exact)

    def lt(self, a, b, exact=None):
        return self._cmp(a, b, "lt", exact)

    def le(self, a, b, exact=None):
        return self._cmp(a, b, "le", exact)


def lockstep(model, call, agree, exact=False, stats=None, max_flip=3, tie=TIE):
    """Advance ``model`` by one step in lock-step with the implementation.

    call(model_copy, decider) -> expected observation
    agree(expected) -> bool   (comparison with what the implementation did)

    Returns (new_model, expected, ok).  If the straight run disagrees but the
    step contained numerically undecidable comparisons, every combination of up
    to ``max_flip`` flipped near-tie comparisons is tried; the first agreeing one
    is adopted (``near_tie_steered``).  The caller raises the violation if ok is
    False.
    """
    m0 = copy.deepcopy(model)
    d0 = Decider(exact=exact, tie=tie)
    exp0 = call(m0, d0)
    if stats is not None:
        if d0.exact_ties:
            stats["exact_ties"] += d0.exact_ties
        if d0.min_margin < 0.5:
            stats["decisions_within_factor2"] += 1
    if agree(exp0):
        return m0, exp0, True
    near = d0.near[:8]
    for k in range(1, min(max_flip, len(near)) + 1):
        for flips in itertools.combinations(near, k):
            m1 = copy.deepcopy(model)
            d1 = Decider(flips=flips, exact=exact, tie=tie)
            exp1 = call(m1, d1)
            if agree(exp1):
                if stats is not None:
                    stats["near_tie_steered"] += 1
                return m1, exp1, True
    return m0, exp0, False
