"""Ownership of numpy's global random state (DESIGN §2.3).

Before every call into menelaus (and before the reference model / twin consumes
randomness for the same step) the harness executes ``seed_step(base, cfg_id,
step)``.  The global RNG state at the start of a transition is therefore a
function of (VERIF_SEED, configuration, step index) only; it is not part of the
explored state and any history replays identically in any process.
"""
import zlib

import numpy as np


def derive(base, *parts):
    """Stable 32-bit seed from the base seed and arbitrary repr-able parts."""
    s = repr((int(base),) + tuple(parts)).encode()
    return zlib.crc32(s) & 0x7FFFFFFF


def seed_step(base, *parts):
    v = derive(base, *parts)
    np.random.seed(v)
    return v
