"""C12 — an ensemble is its election applied to members that run exactly as if alone.

Explored (DESIGN §4 C12): StreamingEnsemble over mixes of {ADWIN, DDM,
PageHinkley, KdqTreeStreaming, LinearFourRates} and BatchEnsemble over mixes of
{KdqTreeBatch, HDDDM, NNDVI, CDBD}, each election type, column selectors (none /
one column / a subset) on ndarray and DataFrame input; ALL event sequences of
the bound over update(x, y, y^) from a 3-symbol menu, reset() and (batch)
set_reference(b).

Oracle: every member is deep-copied into a solo twin BEFORE the ensemble is
built.  ``update`` / ``set_reference`` of every member -- ensemble copy and twin
alike -- are wrapped from the harness by a shim that seeds numpy from
(VERIF_SEED, configuration, member key, method, call number), so a stochastic
member sees the same draws alone and inside the ensemble whatever the other
members consumed.  After every event
  * each member's complete canonical state (mc.canon.canon) == its twin's, the
    twin having been driven alone with the columns the harness cut out of the
    raw data itself (not through the ensemble's selector functions);
  * ensemble.drift_states / retraining_recs == the twins' values;
  * ensemble.drift_state == the election model of models/election.py applied to
    the twins' states in insertion order (ConfirmedElection model carries its
    counters across calls and across reset());
  * the ensemble's own counters count updates and restart only on reset().
"""
import copy
import hashlib

import numpy as np
import pandas as pd

from menelaus.change_detection import ADWIN, PageHinkley
from menelaus.concept_drift import DDM, LinearFourRates
from menelaus.data_drift import CDBD, HDDDM, NNDVI, KdqTreeBatch, KdqTreeStreaming
from menelaus.ensemble import BatchEnsemble, StreamingEnsemble

from checks.c13 import TAG, make_election
from mc import rng
from mc.canon import canon
from mc.explorer import HarnessError, System, Violation, jsonable
from models import election as M

PROPERTY = "C12"
# safety net only (the bounds are sized for ~30 s / ~7 min on 16 idle cores)
TIME_BUDGET = {"quick": 3600, "thorough": 4 * 3600}
COLS = ["a", "b", "c"]

# ---------------------------------------------------------------- members
# small parameters so that members alarm (at different times) within 4-5 updates
FACTORY = {
    "adwin": lambda: ADWIN(delta=0.9, max_buckets=2, new_sample_thresh=1, window_size_thresh=2, subwindow_size_thresh=1),
    "ddm": lambda: DDM(n_threshold=2, warning_scale=0.5, drift_scale=1.5),
    "ph": lambda: PageHinkley(delta=0.0, threshold=0.5, burn_in=1),
    "kdq": lambda: KdqTreeStreaming(window_size=2, persistence=0.3, alpha=0.4, bootstrap_samples=2, count_ubound=1),
    "lfr": lambda: LinearFourRates(time_decay_factor=0.6, warning_level=0.3, detect_level=0.1, burn_in=1, num_mc=10),
    "kdqb": lambda: KdqTreeBatch(alpha=0.3, bootstrap_samples=2, count_ubound=1),
    "hdddm": lambda: HDDDM(detect_batch=1, statistic="stdev", significance=1.0, subsets=2),
    "hdddm2": lambda: HDDDM(detect_batch=2, statistic="stdev", significance=0.5, subsets=2),
    "nndvi": lambda: NNDVI(k_nn=2, sampling_times=8, alpha=0.05),
    "cdbd": lambda: CDBD(detect_batch=2, statistic="tstat", significance=0.2, subsets=2),
}
STOCHASTIC = {"kdq", "lfr", "kdqb", "hdddm", "hdddm2", "nndvi", "cdbd"}

# stream menu: (row of three features, y_true, y_pred)
ROWS = [
    ([0.0, 0.0, 1.0], 1, 1),
    ([4.0, 1.0, 0.0], 1, 0),
    ([0.0, 6.0, 2.0], 0, 1),
]
# batch menu: baseline, column 0 moved, columns 1 and 2 moved
BATCHES = [
    [[0.0, 0.0, 1.0], [1.0, 2.0, 0.0], [2.0, 1.0, 1.0], [3.0, 3.0, 0.0]],
    [[8.0, 1.0, 0.0], [9.0, 0.0, 1.0], [7.0, 3.0, 1.0], [9.0, 2.0, 0.0], [8.0, 2.0, 1.0]],
    [[1.0, 9.0, 5.0], [0.0, 7.0, 6.0], [3.0, 8.0, 5.0], [2.0, 9.0, 7.0]],
]
FIRST_REFS = (0, 2)
LATER_REF = 2


def make_data(rows, container, cols=None):
    """Fresh container with the given columns of ``rows`` (list of 3-feature rows)."""
    idx = list(range(3)) if cols is None else list(cols)
    ary = np.array([[r[c] for c in idx] for r in rows], dtype=float)
    if container == "dataframe":
        return pd.DataFrame(ary, columns=[COLS[c] for c in idx])
    return ary


def make_selector(container, cols):
    cols = list(cols)
    if container == "dataframe":
        names = [COLS[c] for c in cols]
        return lambda X: X[names]
    return lambda X: X[:, cols]


# ---------------------------------------------------------------- RNG shim
class Shim:
    """Replaces ``det.update`` / ``det.set_reference`` as an instance attribute.

    Seeds numpy from (seed, cfg id, member key, method, call number) and then
    runs the class's own method.  Deep-copies together with its detector.
    """

    def __init__(self, det, method, cfg_id, mkey):
        self.det = det
        self.method = method
        self.cfg_id = cfg_id
        self.mkey = mkey
        self.calls = 0
        self.seed = 0
        self.drew = 0

    def __call__(self, *args, **kwargs):
        self.calls += 1
        rng.seed_step(self.seed, "C12", self.cfg_id, self.mkey, self.method, self.calls)
        pos0 = np.random.get_state()[2]
        try:
            return getattr(type(self.det), self.method)(self.det, *args, **kwargs)
        finally:
            if np.random.get_state()[2] != pos0:
                self.drew += 1


def install_shims(det, cfg_id, mkey, batch):
    shims = [Shim(det, "update", cfg_id, mkey)]
    det.update = shims[0]
    if batch:
        shims.append(Shim(det, "set_reference", cfg_id, mkey))
        det.set_reference = shims[1]
    return shims


def _attr_diff(a, b):
    da, db = vars(a), vars(b)
    bad = []
    for k in sorted(set(da) | set(db)):
        if k not in da or k not in db:
            bad.append(k + " (missing on one side)")
        elif isinstance(da[k], Shim) or isinstance(db[k], Shim):
            ca, cb = getattr(da[k], "calls", None), getattr(db[k], "calls", None)
            if ca != cb:
                bad.append("%s (called %r times in the ensemble, %r times alone)" % (k, ca, cb))
        elif canon(da[k]) != canon(db[k]):
            bad.append(k)
    return bad


def _short(o, n=160):
    s = repr(o)
    return s if len(s) <= n else s[:n] + "..."


# ---------------------------------------------------------------- system
class EnsembleSys(System):
    def __init__(self, name, batch):
        self.name = name
        self.batch = batch

    # -- construction
    def init(self, cfg):
        members = {}
        for key in cfg["members"]:
            members[key] = FACTORY[key]()
        # solo twins first, before any ensemble exists
        twins = {k: copy.deepcopy(m) for k, m in members.items()}
        shims = []
        for k in members:
            shims += install_shims(members[k], cfg["id"], k, self.batch)
            shims += install_shims(twins[k], cfg["id"], k, self.batch)
        selectors = {
            k: make_selector(cfg["container"], cols) for k, cols in cfg["selectors"].items() if cols is not None
        }
        el = make_election(cfg["election"]["kind"], cfg["election"]["params"])
        cls = BatchEnsemble if self.batch else StreamingEnsemble
        ens = cls(detectors=members, election=el, column_selectors=selectors)
        return {
            "ens": ens,
            "twins": twins,
            "model": M.make_model(cfg["election"]["kind"], cfg["election"]["params"]),
            "shims": shims,
            "updates": 0,
            "since": 0,
            "prev": {k: None for k in members},
            "key": None,
            "digests": {k: canon(t) for k, t in twins.items()},
        }

    def alphabet(self, cfg, state, pos):
        if self.batch:
            if pos == 0:
                return [["ref", r] for r in FIRST_REFS]
            return [["u", 0], ["u", 1], ["u", 2], ["reset"], ["ref", LATER_REF]]
        return [["u", 0], ["u", 1], ["u", 2], ["reset"]]

    def key(self, cfg, state, pos):
        return state["key"]

    # -- helpers
    def _counters(self, ens):
        if self.batch:
            return int(ens.total_batches), int(ens.batches_since_reset)
        return int(ens.total_samples), int(ens.samples_since_reset)

    def _call_both(self, cfg, state, ev, pos, ctx, on_ens, on_twin, what):
        """Run the event on the ensemble, then on every twin alone."""
        ens, twins = state["ens"], state["twins"]
        for s in state["shims"]:
            s.seed = ctx.seed
            s.drew = 0
        err = None
        rng.seed_step(ctx.seed, cfg["id"], pos, "ensemble")
        try:
            on_ens(ens)
        except Exception as e:  # noqa: BLE001 - any exception must be explained by a member failing alone
            err = e
        terr = {}
        for k, tw in twins.items():
            rng.seed_step(ctx.seed, cfg["id"], pos, "twin", k)
            try:
                on_twin(k, tw)
            except Exception as e:  # noqa: BLE001
                terr[k] = e
        if err is not None or terr:
            same = err is not None and any(type(e) is type(err) and str(e) == str(err) for e in terr.values())
            if same:
                # the member fails on its own in exactly the same way: nothing the ensemble added
                ctx.count("member_raises_alone_too")
                ctx.terminal = True
                return False
            raise Violation(
                "ensemble-exception",
                "%s: %s raised %r but the members run alone raised %r (event %r)"
                % (self.name, what, err, {k: repr(e) for k, e in terr.items()}, ev),
                expected={k: repr(e) for k, e in terr.items()},
                observed=repr(err),
                sig="ensemble-exception:%s" % what,
            )
        return True

    def _compare_members(self, cfg, state, ev, what):
        ens, twins = state["ens"], state["twins"]
        if list(ens.detectors.keys()) != list(twins.keys()):
            raise Violation("member-set", "%s: ensemble members %r, constructed with %r" % (self.name, list(ens.detectors), list(twins)))
        digests = {}
        for k, tw in twins.items():
            mem = ens.detectors[k]
            if not isinstance(vars(mem).get("update"), Shim) or not isinstance(vars(tw).get("update"), Shim):
                raise HarnessError("HARNESS-CRASH: RNG shim lost on member %r" % k)
            cm, ct = canon(mem), canon(tw)
            if cm != ct:
                bad = _attr_diff(mem, tw)
                sel = cfg["selectors"].get(k)
                raise Violation(
                    "member-state",
                    "%s: after %s (%r) member %r (%s, selector %r, %s input) is not in the state it reaches when run alone; "
                    "differing attributes: %s; e.g. %s: ensemble %s / alone %s"
                    % (
                        self.name, what, ev, k, type(mem).__name__, sel, cfg["container"], bad[:8],
                        bad[0] if bad else "?",
                        _short(vars(mem).get(bad[0].split(" ")[0])) if bad else "?",
                        _short(vars(tw).get(bad[0].split(" ")[0])) if bad else "?",
                    ),
                    expected={"drift_state": tw.drift_state, "differing": bad[:8]},
                    observed={"drift_state": mem.drift_state},
                    sig="member-state:%s:%s" % (type(mem).__name__, what),
                )
            digests[k] = cm
        return digests

    def _views(self, state):
        ens, twins = state["ens"], state["twins"]
        exp_states = {k: tw.drift_state for k, tw in twins.items()}
        got_states = ens.drift_states
        if got_states != exp_states or not isinstance(got_states, dict):
            raise Violation(
                "drift_states",
                "%s.drift_states %r, members alone report %r" % (self.name, got_states, exp_states),
                expected=exp_states,
                observed=got_states,
            )
        exp_recs = {k: jsonable(tw.retraining_recs) for k, tw in twins.items() if hasattr(tw, "retraining_recs")}
        got = ens.retraining_recs
        got_recs = {k: jsonable(v) for k, v in got.items()} if isinstance(got, dict) else got
        if got_recs != exp_recs:
            raise Violation(
                "retraining_recs",
                "%s.retraining_recs %r, members alone report %r" % (self.name, got_recs, exp_recs),
                expected=exp_recs,
                observed=got_recs,
            )
        return exp_states, exp_recs

    def _own_counters(self, state, what):
        tot, since = self._counters(state["ens"])
        if (tot, since) != (state["updates"], state["since"]):
            raise Violation(
                "ensemble-counters",
                "%s after %s: total=%d since_reset=%d, expected %d updates in total and %d since the last explicit reset()"
                % (self.name, what, tot, since, state["updates"], state["since"]),
                expected={"total": state["updates"], "since": state["since"]},
                observed={"total": tot, "since": since},
                sig="ensemble-counters:%s" % what,
            )
        return tot, since

    def _finish(self, state, digests):
        ens = state["ens"]
        h = hashlib.blake2b(digest_size=16)
        for d in digests.values():
            h.update(d)
        state["digests"] = digests
        h.update(canon(ens.election))
        h.update(canon([state["model"].canon(), ens.drift_state, state["updates"], state["since"]]))
        state["key"] = h.digest()

    # -- one event
    def step(self, cfg, state, ev, pos, ctx):
        ens, twins = state["ens"], state["twins"]
        cont = cfg["container"]
        kind = ev[0]
        ekind = cfg["election"]["kind"]
        ctx.count("%s_input_events" % cont)

        if kind == "u":
            if self.batch:
                rows, y, p = BATCHES[ev[1]], None, None
            else:
                r, y, p = ROWS[ev[1]]
                rows = [r]
            X = make_data(rows, cont)
            ok = self._call_both(
                cfg, state, ev, pos, ctx,
                lambda e: e.update(X, y, p),
                lambda k, tw: tw.update(X=make_data(rows, cont, cfg["selectors"].get(k)), y_true=y, y_pred=p),
                "update",
            )
            if not ok:
                return {"raised": True}
            state["updates"] += 1
            state["since"] += 1
            digests = self._compare_members(cfg, state, ev, "update")
            states, recs = self._views(state)
            exp = state["model"].step([states[k] for k in twins])
            got = ens.drift_state
            if got != exp["verdict"] or not (got is None or type(got) is str):
                raise Violation(
                    "ensemble-verdict",
                    "%s with %s%r: drift_state %r after update, the election applied to the members %r (insertion order) gives %r"
                    % (self.name, ekind, cfg["election"]["params"], got, states, exp["verdict"]),
                    expected=exp["verdict"],
                    observed=got,
                    sig="ensemble-verdict:%s" % ekind,
                )
            if exp["counters"] is not None and list(ens.election.wait_period_counters) != exp["counters"]:
                raise Violation(
                    "election-counters",
                    "%s: ConfirmedElection counters %r after update, one evaluation per update gives %r"
                    % (self.name, ens.election.wait_period_counters, exp["counters"]),
                    expected=exp["counters"],
                    observed=list(ens.election.wait_period_counters),
                )
            tot, since = self._own_counters(state, "update")
            self._bookkeeping(cfg, state, ctx, states, got, exp)
            state["prev"] = dict(states)
            self._finish(state, digests)
            return {"verdict": got, "members": states, "recs": recs, "total": tot, "since": since}

        if kind == "reset":
            before = state["digests"]
            was_drift = ens.drift_state
            ok = self._call_both(cfg, state, ev, pos, ctx, lambda e: e.reset(), lambda k, tw: tw.reset(), "reset")
            if not ok:
                return {"raised": True}
            state["since"] = 0
            digests = self._compare_members(cfg, state, ev, "reset")
            states, recs = self._views(state)
            if ens.drift_state is not None:
                raise Violation(
                    "reset-drift-state",
                    "%s.drift_state is %r after reset()" % (self.name, ens.drift_state),
                    expected=None,
                    observed=ens.drift_state,
                )
            tot, since = self._own_counters(state, "reset")
            ctx.mark("reset_fanout_members", len(twins))
            changed = sum(1 for k in twins if digests[k] != before[k])
            if changed:
                ctx.count("reset_changed_member_state", changed)
            if changed >= 2:
                ctx.count("reset_changed_several_members")
            if any(v == "drift" for v in state["prev"].values()):
                ctx.count("reset_while_a_member_reports_drift")
            if was_drift == "drift":
                ctx.count("reset_after_ensemble_drift")
            if state["updates"] and since == 0 and tot > 0:
                ctx.count("reset_restarts_ensemble_counter")
            state["prev"] = dict(states)
            self._finish(state, digests)
            return {"verdict": ens.drift_state, "members": states, "recs": recs, "total": tot, "since": since}

        if kind == "ref":
            rows = BATCHES[ev[1]]
            X = make_data(rows, cont)
            before = state["digests"]
            ok = self._call_both(
                cfg, state, ev, pos, ctx,
                lambda e: e.set_reference(X),
                lambda k, tw: tw.set_reference(X=make_data(rows, cont, cfg["selectors"].get(k)), y_true=None, y_pred=None),
                "set_reference",
            )
            if not ok:
                return {"raised": True}
            digests = self._compare_members(cfg, state, ev, "set_reference")
            states, recs = self._views(state)
            tot, since = self._own_counters(state, "set_reference")
            ctx.mark("set_reference_fanout_members", len(twins))
            changed = sum(1 for k in twins if digests[k] != before[k])
            if changed == len(twins):
                ctx.count("set_reference_changed_every_member")
            if state["updates"]:
                ctx.count("set_reference_after_updates")
            if any(cfg["selectors"].get(k) is not None for k in twins):
                ctx.count("set_reference_through_selectors")
            state["prev"] = dict(states)
            self._finish(state, digests)
            return {"verdict": ens.drift_state, "members": states, "recs": recs, "total": tot, "since": since}

        raise HarnessError("HARNESS-CRASH: unknown event %r" % (ev,))

    def _bookkeeping(self, cfg, state, ctx, states, got, exp):
        ekind = cfg["election"]["kind"]
        vals = list(states.values())
        ctx.count("verdict_%s_%s" % (ekind, TAG[got]))
        if got is not None:
            ctx.mark()
        if got == "drift" and any(v is None for v in vals):
            ctx.count("ensemble_drift_while_a_member_is_none")
        if got is None and any(v == "drift" for v in vals):
            ctx.count("ensemble_none_while_a_member_drifts")
        if got == "drift" and not any(v == "drift" for v in vals):
            ctx.count("ensemble_drift_with_no_member_in_drift_now")
        if len(set(vals)) > 1:
            ctx.count("members_disagree")
        for k, v in states.items():
            if v == "drift":
                ctx.mark("member_drift_%s" % k)
                if cfg["selectors"].get(k) is not None:
                    ctx.count("selector_restricted_member_alarms")
                    if len(cfg["selectors"][k]) == 1:
                        ctx.count("single_column_member_alarms")
                    else:
                        ctx.count("column_subset_member_alarms")
                else:
                    ctx.count("unrestricted_member_alarms")
            elif v == "warning":
                ctx.mark("member_warning_%s" % k)
            if state["prev"].get(k) == "drift":
                ctx.count("member_restarts_itself_inside_ensemble")
        drew = {}
        for s in state["shims"]:
            if s.drew:
                drew.setdefault(s.mkey, 0)
                drew[s.mkey] += 1
        if drew:
            ctx.count("stochastic_member_consumed_randomness", len(drew))
        if len(drew) >= 2:
            ctx.count("several_stochastic_members_drew_in_one_update")
        if exp.get("waiting_votes"):
            ctx.count("confirmed_waiting_vote_in_ensemble")
        if exp.get("warned_while_waiting"):
            ctx.count("confirmed_member_warning_while_waiting_in_ensemble")


SYSTEMS = {"Stream": EnsembleSys("Stream", False), "Batch": EnsembleSys("Batch", True)}

# ---------------------------------------------------------------- configurations
# (members in insertion order, [selector variant A, selector variant B])
STREAM_MIXES = [
    (["adwin", "ddm"], [{"adwin": [0], "ddm": None}, {"adwin": [1], "ddm": [0, 1]}]),
    (["ddm", "ph", "kdq"], [{"ddm": None, "ph": [0], "kdq": [0, 1]}, {"ddm": [2], "ph": [1], "kdq": None}]),
    (["lfr", "adwin", "ph"], [{"lfr": None, "adwin": [0], "ph": [0]}, {"lfr": [0, 2], "adwin": [1], "ph": [0]}]),
    (["kdq", "lfr"], [{"kdq": [0, 1], "lfr": None}, {"kdq": [1, 2], "lfr": [1]}]),
    (["adwin", "ddm", "ph", "kdq"], [{"adwin": [0], "ddm": None, "ph": [0], "kdq": [0, 1]}, {"adwin": [1], "ddm": None, "ph": [1], "kdq": [0, 2]}]),
    (["ph", "lfr", "ddm", "adwin"], [{"ph": [0], "lfr": None, "ddm": None, "adwin": [0]}, {"ph": [1], "lfr": [0], "ddm": [0, 1], "adwin": [0]}]),
]
BATCH_MIXES = [
    (["kdqb", "hdddm"], [{"kdqb": None, "hdddm": None}, {"kdqb": [0, 1], "hdddm": [0]}]),
    (["nndvi", "cdbd", "kdqb"], [{"nndvi": None, "cdbd": [1], "kdqb": [0, 1]}, {"nndvi": [0, 2], "cdbd": [1], "kdqb": None}]),
    (["hdddm2", "cdbd"], [{"hdddm2": [0, 1], "cdbd": [1]}, {"hdddm2": None, "cdbd": [1]}]),
    (["kdqb", "hdddm", "nndvi", "cdbd"], [{"kdqb": None, "hdddm": [0], "nndvi": [0, 2], "cdbd": [1]}, {"kdqb": [1, 2], "hdddm": None, "nndvi": None, "cdbd": [1]}]),
    (["nndvi", "hdddm2", "hdddm"], [{"nndvi": [0, 2], "hdddm2": [0, 1], "hdddm": [0]}, {"nndvi": None, "hdddm2": None, "hdddm": [1]}]),
]
# two parameterisations per election type
ELECTIONS = [
    [("SimpleMajority", {}), ("SimpleMajority", {})],
    [("MinimumApproval", {"approvals_needed": 1}), ("MinimumApproval", {"approvals_needed": 2})],
    [("OrderedApproval", {"approvals_needed": 1, "confirmations_needed": 1}), ("OrderedApproval", {"approvals_needed": 2, "confirmations_needed": 0})],
    [("Confirmed", {"sensitivity": 2, "wait_time": 2}), ("Confirmed", {"sensitivity": 1, "wait_time": 1})],
]
CONTAINERS = ["ndarray", "dataframe"]

DEPTH = {
    # stream_cheap: mixes without a stochastic member; *_deep: one parameterisation per (mix, election type) for batch,
    # the ConfirmedElection configuration of every mix for stream; batch depth includes the initial set_reference
    "quick": {"stream_cheap": 6, "stream": 5, "stream_deep": 5, "batch": 5, "batch_deep": 5},
    "thorough": {"stream_cheap": 8, "stream": 6, "stream_deep": 7, "batch": 5, "batch_deep": 6},
}


def depth_of(tier, system, cfg):
    d = DEPTH[tier]
    if system == "Stream":
        if _cheap(cfg):
            return d["stream_cheap"]
        if cfg["election"]["kind"] == "Confirmed" and cfg["pi"] == cfg["mix"] % 2:
            return d["stream_deep"]
        return d["stream"]
    if cfg["pi"] == (cfg["mix"] + cfg["etype"]) % 2:
        return d["batch_deep"]
    return d["batch"]


COMBOS = [(0, 0), (1, 1), (0, 1), (1, 0)]  # (container, selector variant)


def configs(tier, system):
    """Mixes x election types; containers, selector variants and the two
    parameterisations rotate so that every mix meets both containers and both
    selector variants, and every election type meets every mix (quick/batch:
    two election types per mix, every type on at least two mixes)."""
    mixes = STREAM_MIXES if system == "Stream" else BATCH_MIXES
    out = []
    for i, (members, variants) in enumerate(mixes):
        types = [i % 4, (i + 2) % 4] if (system == "Batch" and tier == "quick") else [0, 1, 2, 3]
        plist = []
        for j in types:
            if tier == "quick":
                plist.append((j, (i + j) % 2))
            else:
                plist += [(j, 0), (j, 1)]
        for n, (j, pi) in enumerate(plist):
            ekind, eparams = ELECTIONS[j][pi]
            c, v = COMBOS[(n + (2 * (i % 2) if len(plist) == 2 else i)) % 4]
            container = CONTAINERS[c]
            out.append(
                {
                    "id": "%s-m%d-%s%d-%s-v%d" % (system[0], i, ekind[:2], pi, container[:2], v),
                    "mix": i,
                    "etype": j,
                    "pi": pi,
                    "members": members,
                    "selectors": variants[v],
                    "election": {"kind": ekind, "params": eparams},
                    "container": container,
                }
            )
    return out


def _cheap(cfg):
    return not (set(cfg["members"]) & STOCHASTIC)


COST = {"adwin": 0.1, "ddm": 0.05, "ph": 0.05, "kdq": 3.0, "lfr": 2.0, "kdqb": 6.0, "hdddm": 3.0, "hdddm2": 2.0, "nndvi": 2.0, "cdbd": 1.5}


def tasks(tier, seed):
    out = []
    for cfg in configs(tier, "Stream"):
        depth = depth_of(tier, "Stream", cfg)
        split = 1 if depth <= 5 else 2
        firsts = [["u", 0], ["u", 1], ["u", 2], ["reset"]]
        prefixes = [[a] for a in firsts] if split == 1 else [[a, b] for a in firsts for b in firsts]
        for pre in prefixes:
            out.append(
                {
                    "system": "Stream",
                    "cfg": cfg,
                    "prefix": pre,
                    "depth": depth - split,
                    "label": "Stream|%s|%s" % (cfg["id"], "".join(str(e[1]) if len(e) > 1 else "r" for e in pre)),
                    "cost": sum(COST[m] for m in cfg["members"]) * 4 ** (depth - split),
                    "validate_every": 97,
                }
            )
    for cfg in configs(tier, "Batch"):
        depth = depth_of(tier, "Batch", cfg)
        later = [["u", 0], ["u", 1], ["u", 2], ["reset"], ["ref", LATER_REF]]
        for r in FIRST_REFS:
            for b in later:
                out.append(
                    {
                        "system": "Batch",
                        "cfg": cfg,
                        "prefix": [["ref", r], b],
                        "depth": depth - 2,
                        "label": "Batch|%s|%d%s" % (cfg["id"], r, b[0][0] + str(b[1]) if len(b) > 1 else "r"),
                        "cost": sum(COST[m] for m in cfg["members"]) * 5 ** (depth - 2),
                        "validate_every": 53,
                    }
                )
    return out


REQUIRED = [
    # every verdict of every election
    "verdict_SimpleMajority_drift", "verdict_SimpleMajority_none",
    "verdict_MinimumApproval_drift", "verdict_MinimumApproval_none",
    "verdict_OrderedApproval_drift", "verdict_OrderedApproval_none",
    "verdict_Confirmed_drift", "verdict_Confirmed_warning", "verdict_Confirmed_none",
    "confirmed_waiting_vote_in_ensemble",
    # ensemble and members differ
    "ensemble_drift_while_a_member_is_none",
    "ensemble_none_while_a_member_drifts",
    "ensemble_drift_with_no_member_in_drift_now",
    "members_disagree",
    # every member type alarms inside an ensemble
    "member_drift_adwin", "member_drift_ddm", "member_drift_ph", "member_drift_kdq", "member_drift_lfr",
    "member_drift_kdqb", "member_drift_hdddm", "member_drift_hdddm2", "member_drift_nndvi", "member_drift_cdbd",
    "member_warning_ddm", "member_warning_lfr",
    "member_restarts_itself_inside_ensemble",
    # selectors
    "selector_restricted_member_alarms", "single_column_member_alarms", "column_subset_member_alarms",
    "unrestricted_member_alarms",
    "ndarray_input_events", "dataframe_input_events",
    # randomness really is consumed by members, several per update
    "stochastic_member_consumed_randomness", "several_stochastic_members_drew_in_one_update",
    # fan-outs
    "reset_fanout_members", "reset_changed_member_state", "reset_changed_several_members",
    "reset_while_a_member_reports_drift", "reset_after_ensemble_drift", "reset_restarts_ensemble_counter",
    "set_reference_fanout_members", "set_reference_changed_every_member", "set_reference_after_updates",
    "set_reference_through_selectors",
]


def describe(tier):
    d = DEPTH[tier]
    return {
        "rule": "every event sequence of the stated depth (prefix-shared DFS over the real ensemble, snapshots by deepcopy, "
        "transposition on the full canonical state of members + election + counters) for every configuration; "
        "a history is non-trivial when some update made the ensemble or a member report warning/drift or when it "
        "contains reset()/set_reference()",
        "bounds": {
            "stream_alphabet": ["update(row k, y, y^) for k in 0..2", "reset()"],
            "batch_alphabet": ["set_reference(b0|b2) first", "update(batch k) k in 0..2", "reset()", "set_reference(b2)"],
            "depth": d,
            "depth_rule": "stream_cheap: mixes without a stochastic member; stream_deep: the ConfirmedElection configuration "
            "(one parameterisation) of every other mix; batch_deep: one parameterisation per (mix, election type); "
            "batch depths include the initial set_reference",
            "stream_mixes": [m for m, _ in STREAM_MIXES],
            "batch_mixes": [m for m, _ in BATCH_MIXES],
            "elections": [[k, p] for pair in ELECTIONS for (k, p) in pair],
            "containers": CONTAINERS,
            "selector_variants_per_mix": 2,
            "configurations": {"Stream": len(configs(tier, "Stream")), "Batch": len(configs(tier, "Batch"))},
            "member_parameters": "checks/c12.py FACTORY (small windows/thresholds so members alarm within the bound)",
        },
        "explanation": "states = distinct canonical states (members, election, counters); traces_validated_against_impl = "
        "maximal event sequences on which every member was compared with its solo twin after every event",
        "assumptions": [
            "members draw randomness only from numpy's global generator; update/set_reference of every member (ensemble copy "
            "and solo twin) are wrapped by a harness shim that seeds it from (VERIF_SEED, configuration, member key, method, "
            "call number)",
            "solo twins receive the selected columns cut by the harness from the raw menu data in the same container type",
            "set_reference leaves the ensemble's own counters and drift_state alone (only reset() restarts the counter)",
            "an exception raised by the ensemble is accepted only if a member run alone raises the identical exception",
            "not every mix x election x selector x container combination is explored: each mix meets every election type, "
            "both containers and both selector variants (rotating design)",
        ],
    }
