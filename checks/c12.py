"""C12 — an ensemble is its election applied to members that run exactly as if alone.

Explored (DESIGN §4 C12): StreamingEnsemble over mixes of {ADWIN, DDM,
PageHinkley, KdqTreeStreaming, LinearFourRates} and BatchEnsemble over mixes of
{KdqTreeBatch, HDDDM, NNDVI, CDBD}, each election type, column selectors (none /
one column / a subset) on ndarray and DataFrame input; ALL event sequences of
the bound over update(x, y, y^) from a 3-symbol menu, reset() and (batch)
set_reference(b).

Oracle: every member is deep-copied into a solo twin BEFORE the ensemble is
built.  ``update`` / ``set_reference`` of every member -- ensemble copy and twin
alike -- are wrapped from the harness by a shim that seeds numpy from
(VERIF_SEED, configuration, member key, method, call number), so a stochastic
member sees the same draws alone and inside the ensemble whatever the other
members consumed.  After every event
  * each member's complete canonical state (mc.canon.canon) == its twin's, the
    twin having been driven alone with the columns the harness cut out of the
    raw data itself (not through the ensemble's selector functions);
  * ensemble.drift_states / retraining_recs == the twins' values;
  * ensemble.drift_state == the election model of models/election.py applied to
    the twins' states in insertion order (ConfirmedElection model carries its
    counters across calls and across reset());
  * the ensemble's own counters count updates and restart only on reset().

Round-3 families (EXTENDING.md), every one an additional set of configurations whose id starts with
``<S|B>-x-<family>`` (the oracle is unchanged):
  factory    selectors made by ONE loop of default-argument lambdas (shared code object, no closure),
             functools.partial objects (no __code__), instances of one callable class, bound methods
  viewcopy   selectors that return views of the caller's data (slices, 1-D column views, .iloc) or explicit copies
  overlap    overlapping / identical / reversed-order column subsets
  somesel    a selector for only some members; ensembles constructed without the column_selectors argument
  dfnamed    DataFrame input with .loc / .filter / Series / to_numpy() selectors (named columns)
  sameclass  the same detector class twice (identical and different parameters)
  single     ensembles with a single member under every election type
  cref       BatchEnsemble.set_reference mid-stream under ConfirmedElection with longer waits
  labels     y_true / y_pred as bools, numpy ints, 1-element arrays / lists (stream) and label arrays (batch)
  shared     two ensembles sharing ONE (stateless) election object, driven with different data

Round 3b, family ``long`` (ids ``<S|B>-x-long-...``): deviation-bounded LONG histories under ConfirmedElection with waiting
times 0 ... 12.  A default history on which nothing (or one level shift, or a standing warning) happens, and every choice of
<= k positions replaced by every alternative event (a pulse in the column of ONE member, reset(), set_reference) -- so that
isolated alarms of different members occur at every pair of distances, closer and farther apart than the waiting time, with
the quiet updates in between on which nothing but the election's waiting counters moves.  Same oracle; whatever the
ensemble exposes is read defensively (a missing / None / non-integer ``wait_period_counters``, a property that raises) and
reported as a violation, never as a harness crash.

Round 5, family ``callerobj`` (systems StreamShared / BatchShared, ids ``<S|B>-x-callerobj-...``): TWO ensembles in one process
whose constructor arguments are the same caller-owned objects -- one selector dict edited in place between the constructions
(entries replaced / deleted / added) or cleared afterwards, no column_selectors argument for either with one of them
configured afterwards through the documented ``column_selectors`` attribute (before / after the other is built, or at any
point of the history), one member dict refilled in place with fresh detectors, one stateless election object (and
``ensemble.election`` replaced on one of them afterwards).  Every interleaving of the two ensembles' events up to the depth;
each ensemble is judged by the unchanged single-ensemble oracle against its own solo twins and the columns IT was given /
configured with, and after every event the ensemble that was not addressed must be exactly where it was.
"""
import copy
import functools
import hashlib
import os

import numpy as np
import pandas as pd

from menelaus.change_detection import ADWIN, CUSUM, PageHinkley
from menelaus.concept_drift import DDM, LinearFourRates
from menelaus.data_drift import CDBD, HDDDM, NNDVI, KdqTreeBatch, KdqTreeStreaming
from menelaus.ensemble import BatchEnsemble, StreamingEnsemble

from checks.c13 import TAG, make_election
from mc import rng
from mc.canon import canon
from mc.explorer import HarnessError, System, Violation, dev_split, jsonable
from models import election as M

PROPERTY = "C12"
# safety net only (the bounds are sized for ~30 s / ~7 min on 16 idle cores)
TIME_BUDGET = {"quick": 3600, "thorough": 4 * 3600}
COLS = ["a", "b", "c"]

# ---------------------------------------------------------------- members
# small parameters so that members alarm (at different times) within 4-5 updates
FACTORY = {
    "adwin": lambda: ADWIN(delta=0.9, max_buckets=2, new_sample_thresh=1, window_size_thresh=2, subwindow_size_thresh=1),
    "ddm": lambda: DDM(n_threshold=2, warning_scale=0.5, drift_scale=1.5),
    "ph": lambda: PageHinkley(delta=0.0, threshold=0.5, burn_in=1),
    "kdq": lambda: KdqTreeStreaming(window_size=2, persistence=0.3, alpha=0.4, bootstrap_samples=2, count_ubound=1),
    "lfr": lambda: LinearFourRates(time_decay_factor=0.6, warning_level=0.3, detect_level=0.1, burn_in=1, num_mc=10),
    "kdqb": lambda: KdqTreeBatch(alpha=0.3, bootstrap_samples=2, count_ubound=1),
    "hdddm": lambda: HDDDM(detect_batch=1, statistic="stdev", significance=1.0, subsets=2),
    "hdddm2": lambda: HDDDM(detect_batch=2, statistic="stdev", significance=0.5, subsets=2),
    "nndvi": lambda: NNDVI(k_nn=2, sampling_times=8, alpha=0.05),
    "cdbd": lambda: CDBD(detect_batch=2, statistic="tstat", significance=0.2, subsets=2),
}
# round 3: the same class again -- "_b" = identical parameters, "2" = other parameters
FACTORY.update({
    "adwin_b": FACTORY["adwin"],
    "adwin2": lambda: ADWIN(delta=0.5, max_buckets=1, new_sample_thresh=2, window_size_thresh=2, subwindow_size_thresh=1),
    "ddm_b": FACTORY["ddm"],
    "ddm2": lambda: DDM(n_threshold=1, warning_scale=1, drift_scale=2),
    "ph_b": FACTORY["ph"],
    "ph2": lambda: PageHinkley(delta=0.0, threshold=0.5, burn_in=1, direction="negative"),
    "kdq_b": FACTORY["kdq"],
    "kdqb_b": FACTORY["kdqb"],
    "cdbd2": lambda: CDBD(detect_batch=1, statistic="stdev", significance=0.5, subsets=2),
    "hdddm_b": FACTORY["hdddm"],
})
# round 3b (family "long"): members that stay silent on a constant stream and answer an isolated pulse / a level shift
FACTORY.update({
    "cusum": lambda: CUSUM(target=0.0, sd_hat=1.0, burn_in=0, delta=0.005, threshold=2, direction=None),
    "ph3": lambda: PageHinkley(delta=0.01, threshold=2.0, burn_in=3),
    "ddmw": lambda: DDM(n_threshold=4, warning_scale=0.5, drift_scale=1.5),  # warns for ever on alternating outcomes
})
STOCHASTIC = {"kdq", "lfr", "kdqb", "hdddm", "hdddm2", "nndvi", "cdbd", "kdq_b", "kdqb_b", "cdbd2", "hdddm_b"}

# stream menu: (row of three features, y_true, y_pred)
ROWS = [
    ([0.0, 0.0, 1.0], 1, 1),
    ([4.0, 1.0, 0.0], 1, 0),
    ([0.0, 6.0, 2.0], 0, 1),
]
# batch menu: baseline, column 0 moved, columns 1 and 2 moved
BATCHES = [
    [[0.0, 0.0, 1.0], [1.0, 2.0, 0.0], [2.0, 1.0, 1.0], [3.0, 3.0, 0.0]],
    [[8.0, 1.0, 0.0], [9.0, 0.0, 1.0], [7.0, 3.0, 1.0], [9.0, 2.0, 0.0], [8.0, 2.0, 1.0]],
    [[1.0, 9.0, 5.0], [0.0, 7.0, 6.0], [3.0, 8.0, 5.0], [2.0, 9.0, 7.0]],
]
# family "long": a constant stream, isolated pulses in ONE column each, the same on a shifted level of column 0, and a
# wrong prediction; a configuration of the family carries its menu in cfg["rows"] = "long"
LONG_ROWS = [
    ([0.0, 0.0, 0.0], 1, 1),  # 0 quiet
    ([5.0, 0.0, 0.0], 1, 1),  # 1 pulse in column 0
    ([0.0, 5.0, 0.0], 1, 1),  # 2 pulse in column 1
    ([0.0, 0.0, 5.0], 1, 1),  # 3 pulse in column 2
    ([3.0, 0.0, 0.0], 1, 1),  # 4 column 0 on its shifted level
    ([3.0, 5.0, 0.0], 1, 1),  # 5 shifted level + pulse in column 1
    ([3.0, 0.0, 5.0], 1, 1),  # 6 shifted level + pulse in column 2
    ([0.0, 0.0, 0.0], 1, 0),  # 7 quiet, wrong prediction
]
ROW_MENUS = {None: ROWS, "long": LONG_ROWS}
FIRST_REFS = (0, 2)
LATER_REF = 2


def make_data(rows, container, cols=None):
    """Fresh container with the given columns of ``rows`` (list of 3-feature rows)."""
    idx = list(range(3)) if cols is None else list(cols)
    ary = np.array([[r[c] for c in idx] for r in rows], dtype=float)
    if container == "dataframe":
        return pd.DataFrame(ary, columns=[COLS[c] for c in idx])
    return ary


def make_selector(container, cols):
    cols = list(cols)
    if container == "dataframe":
        names = [COLS[c] for c in cols]
        return lambda X: X[names]
    return lambda X: X[:, cols]


# ---------------------------------------------------------------- round 3: selector styles
def _pick_cols(X, cols=None, names=None):
    return X[names] if names is not None else X[:, cols]


class ColumnPicker:
    """One class, many instances: a selector that is an object, and one whose bound method is the selector."""

    def __init__(self, container, cols):
        self.cols = list(cols)
        self.names = [COLS[c] for c in cols] if container == "dataframe" else None

    def __call__(self, X):
        return X[self.names] if self.names is not None else X[:, self.cols]

    def pick(self, X):
        return self(X)


def _span(cols):
    a, b = cols[0], cols[-1] + 1
    if list(cols) != list(range(a, b)):
        raise HarnessError("HARNESS-CRASH: view selectors need a contiguous ascending column range, got %r" % (cols,))
    return a, b


def build_selectors(cfg):
    """-> {member key: selector callable} for the members that have one.  cfg["styles"] maps member keys to a style
    (default "closure" = the pre-round-3 make_selector)."""
    cont = cfg["container"]
    styles = cfg.get("styles") or {}
    out = {}
    items = [(k, cols) for k, cols in cfg["selectors"].items() if cols is not None]
    # all "loop" selectors come out of ONE loop: same code object, no closure cells, only __defaults__ differ
    for k, cols in items:
        if styles.get(k) == "loop":
            if cont == "dataframe":
                out[k] = lambda X, _names=[COLS[c] for c in cols]: X[_names]
            else:
                out[k] = lambda X, _cols=list(cols): X[:, _cols]
    for k, cols in items:
        st = styles.get(k, "closure")
        cols = list(cols)
        names = [COLS[c] for c in cols]
        if st == "loop":
            continue
        if st == "closure":
            out[k] = make_selector(cont, cols)
        elif st == "partial":
            out[k] = functools.partial(_pick_cols, names=names) if cont == "dataframe" else functools.partial(_pick_cols, cols=cols)
        elif st == "object":
            out[k] = ColumnPicker(cont, cols)
        elif st == "method":
            out[k] = ColumnPicker(cont, cols).pick
        elif st == "copy":
            out[k] = (lambda X, n=names: X[n].copy()) if cont == "dataframe" else (lambda X, c=cols: X[:, c].copy())
        elif st == "view":  # ndarray: basic slice = a view of the caller's array; DataFrame: .iloc slice
            a, b = _span(cols)
            out[k] = (lambda X, a=a, b=b: X.iloc[:, a:b]) if cont == "dataframe" else (lambda X, a=a, b=b: X[:, a:b])
        elif st == "view1d":  # one column as a 1-D view / a Series
            (c,) = cols
            out[k] = (lambda X, n=COLS[c]: X[n]) if cont == "dataframe" else (lambda X, c=c: X[:, c])
        elif st == "loc":
            out[k] = lambda X, n=names: X.loc[:, n]
        elif st == "filter":
            out[k] = lambda X, n=names: X.filter(items=n)
        elif st == "to_numpy":
            out[k] = lambda X, n=names: X[n].to_numpy()
        else:
            raise HarnessError("HARNESS-CRASH: unknown selector style %r" % st)
    return out


def twin_input(cfg, key, rows):
    """What member ``key`` must have been handed: built by the harness from the raw menu rows, in the container kind
    the member's selector style produces -- never through the selector objects given to the ensemble."""
    cont = cfg["container"]
    cols = cfg["selectors"].get(key)
    if cols is None:
        return make_data(rows, cont)
    st = (cfg.get("styles") or {}).get(key, "closure")
    cols = list(cols)
    if st == "view":
        a, b = _span(cols)
        full = make_data(rows, cont)
        return full.iloc[:, a:b] if cont == "dataframe" else full[:, a:b]
    if st == "view1d":
        (c,) = cols
        full = make_data(rows, cont)
        return full[COLS[c]] if cont == "dataframe" else full[:, c]
    if st == "to_numpy":
        return make_data(rows, "ndarray", cols)
    return make_data(rows, cont, cols)


# ---------------------------------------------------------------- round 3: label styles
def make_labels(style, y, p, nrows):
    """(y_true, y_pred) for one call; a fresh pair of objects on every call."""
    if style in (None, "int"):
        return y, p
    if y is None:  # batch menu: labels are unused by every batch member, any array will do
        if style == "batch_arrays":
            return np.arange(nrows) % 2, np.ones(nrows, dtype=int)
        if style == "batch_bools":
            return np.arange(nrows) % 2 == 0, [bool(i % 3) for i in range(nrows)]
        if style == "batch_columns":
            return (np.arange(nrows) % 3).reshape(-1, 1), pd.Series(np.zeros(nrows))
        raise HarnessError("HARNESS-CRASH: unknown batch label style %r" % style)
    if style == "bool":
        return bool(y), bool(p)
    if style == "npint":
        return np.int64(y), np.int8(p)
    if style == "npbool":
        return np.bool_(y), np.bool_(p)
    if style == "array1":
        return np.array([y]), np.array([p])
    if style == "list1":
        return [y], [p]
    if style == "array0d":
        return np.array(y), np.array([[p]])
    raise HarnessError("HARNESS-CRASH: unknown label style %r" % style)


# ---------------------------------------------------------------- RNG shim
class Shim:
    """Replaces ``det.update`` / ``det.set_reference`` as an instance attribute.

    Seeds numpy from (seed, cfg id, member key, method, call number) and then
    runs the class's own method.  Deep-copies together with its detector.
    """

    def __init__(self, det, method, cfg_id, mkey):
        self.det = det
        self.method = method
        self.cfg_id = cfg_id
        self.mkey = mkey
        self.calls = 0
        self.seed = 0
        self.drew = 0

    def __call__(self, *args, **kwargs):
        self.calls += 1
        rng.seed_step(self.seed, "C12", self.cfg_id, self.mkey, self.method, self.calls)
        pos0 = np.random.get_state()[2]
        try:
            return getattr(type(self.det), self.method)(self.det, *args, **kwargs)
        finally:
            if np.random.get_state()[2] != pos0:
                self.drew += 1


def install_shims(det, cfg_id, mkey, batch):
    shims = [Shim(det, "update", cfg_id, mkey)]
    det.update = shims[0]
    if batch:
        shims.append(Shim(det, "set_reference", cfg_id, mkey))
        det.set_reference = shims[1]
    return shims


def _attr_diff(a, b):
    da, db = vars(a), vars(b)
    bad = []
    for k in sorted(set(da) | set(db)):
        if k not in da or k not in db:
            bad.append(k + " (missing on one side)")
        elif isinstance(da[k], Shim) or isinstance(db[k], Shim):
            ca, cb = getattr(da[k], "calls", None), getattr(db[k], "calls", None)
            if ca != cb:
                bad.append("%s (called %r times in the ensemble, %r times alone)" % (k, ca, cb))
        elif canon(da[k]) != canon(db[k]):
            bad.append(k)
    return bad


def _read(owner, what, fn):
    """Read one public observable of the ensemble; an exception here is the ensemble's, not the harness's."""
    try:
        return fn()
    except Exception as e:  # noqa: BLE001
        raise Violation(
            "ensemble-observable",
            "%s: reading %s raised %r" % (owner, what, e),
            expected="readable", observed=repr(e), sig="ensemble-observable:%s" % what,
        )


def _short(o, n=160):
    s = repr(o)
    return s if len(s) <= n else s[:n] + "..."


# ---------------------------------------------------------------- system
class EnsembleSys(System):
    def __init__(self, name, batch):
        self.name = name
        self.batch = batch

    # -- construction
    def init(self, cfg):
        members = {}
        for key in cfg["members"]:
            members[key] = FACTORY[key]()
        # solo twins first, before any ensemble exists
        twins = {k: copy.deepcopy(m) for k, m in members.items()}
        shims = []
        for k in members:
            shims += install_shims(members[k], cfg["id"], k, self.batch)
            shims += install_shims(twins[k], cfg["id"], k, self.batch)
        selectors = build_selectors(cfg)
        el = make_election(cfg["election"]["kind"], cfg["election"]["params"])
        cls = BatchEnsemble if self.batch else StreamingEnsemble
        if cfg.get("omit_selectors"):
            if selectors:
                raise HarnessError("HARNESS-CRASH: omit_selectors with selectors %r" % (cfg["selectors"],))
            ens = cls(detectors=members, election=el)  # the documented default: no column_selectors argument at all
        else:
            ens = cls(detectors=members, election=el, column_selectors=selectors)
        extra = {}
        if cfg.get("partner"):
            # a second ensemble over its own members of the same kinds, sharing the (stateless) election OBJECT
            if cfg["election"]["kind"] == "Confirmed" or set(cfg["members"]) & STOCHASTIC:
                raise HarnessError("HARNESS-CRASH: partner ensembles are for stateless elections and deterministic members")
            extra["ens_b"] = cls(detectors={k: FACTORY[k]() for k in cfg["members"]}, election=el, column_selectors=build_selectors(cfg))
            extra["model_b"] = M.make_model(cfg["election"]["kind"], cfg["election"]["params"])
        return dict(extra, **{
            "ens": ens,
            "twins": twins,
            "model": M.make_model(cfg["election"]["kind"], cfg["election"]["params"]),
            "shims": shims,
            "updates": 0,
            "since": 0,
            "prev": {k: None for k in members},
            "expired_before": False,
            "key": None,
            "digests": {k: canon(t) for k, t in twins.items()},
        })

    def alphabet(self, cfg, state, pos):
        if self.batch:
            if pos == 0:
                return [["ref", r] for r in FIRST_REFS]
            return [["u", 0], ["u", 1], ["u", 2], ["reset"], ["ref", LATER_REF]]
        return [["u", 0], ["u", 1], ["u", 2], ["reset"]]

    def key(self, cfg, state, pos):
        return state["key"]

    # -- helpers
    def _counters(self, ens):
        if self.batch:
            return _read(self.name, "total_batches / batches_since_reset", lambda: (int(ens.total_batches), int(ens.batches_since_reset)))
        return _read(self.name, "total_samples / samples_since_reset", lambda: (int(ens.total_samples), int(ens.samples_since_reset)))

    def _call_both(self, cfg, state, ev, pos, ctx, on_ens, on_twin, what):
        """Run the event on the ensemble, then on every twin alone."""
        ens, twins = state["ens"], state["twins"]
        for s in state["shims"]:
            s.seed = ctx.seed
            s.drew = 0
        err = None
        rng.seed_step(ctx.seed, cfg["id"], pos, "ensemble")
        try:
            on_ens(ens)
        except Exception as e:  # noqa: BLE001 - any exception must be explained by a member failing alone
            err = e
        terr = {}
        for k, tw in twins.items():
            rng.seed_step(ctx.seed, cfg["id"], pos, "twin", k)
            try:
                on_twin(k, tw)
            except Exception as e:  # noqa: BLE001
                terr[k] = e
        if err is not None or terr:
            same = err is not None and any(type(e) is type(err) and str(e) == str(err) for e in terr.values())
            if same:
                # the member fails on its own in exactly the same way: nothing the ensemble added
                ctx.count("member_raises_alone_too")
                ctx.terminal = True
                return False
            raise Violation(
                "ensemble-exception",
                "%s: %s raised %r but the members run alone raised %r (event %r)"
                % (self.name, what, err, {k: repr(e) for k, e in terr.items()}, ev),
                expected={k: repr(e) for k, e in terr.items()},
                observed=repr(err),
                sig="ensemble-exception:%s" % what,
            )
        return True

    def _compare_members(self, cfg, state, ev, what):
        ens, twins = state["ens"], state["twins"]
        if list(ens.detectors.keys()) != list(twins.keys()):
            raise Violation("member-set", "%s: ensemble members %r, constructed with %r" % (self.name, list(ens.detectors), list(twins)))
        digests = {}
        for k, tw in twins.items():
            mem = ens.detectors[k]
            if not isinstance(vars(mem).get("update"), Shim) or not isinstance(vars(tw).get("update"), Shim):
                raise HarnessError("HARNESS-CRASH: RNG shim lost on member %r" % k)
            cm, ct = canon(mem), canon(tw)
            if cm != ct:
                bad = _attr_diff(mem, tw)
                sel = cfg["selectors"].get(k)
                raise Violation(
                    "member-state",
                    "%s: after %s (%r) member %r (%s, selector %r, %s input) is not in the state it reaches when run alone; "
                    "differing attributes: %s; e.g. %s: ensemble %s / alone %s"
                    % (
                        self.name, what, ev, k, type(mem).__name__, sel, cfg["container"], bad[:8],
                        bad[0] if bad else "?",
                        _short(vars(mem).get(bad[0].split(" ")[0])) if bad else "?",
                        _short(vars(tw).get(bad[0].split(" ")[0])) if bad else "?",
                    ),
                    expected={"drift_state": tw.drift_state, "differing": bad[:8]},
                    observed={"drift_state": mem.drift_state},
                    sig="member-state:%s:%s" % (type(mem).__name__, what),
                )
            digests[k] = cm
        return digests

    def _views(self, state):
        ens, twins = state["ens"], state["twins"]
        exp_states = {k: tw.drift_state for k, tw in twins.items()}
        got_states = _read(self.name, "drift_states", lambda: ens.drift_states)
        if not isinstance(got_states, dict) or got_states != exp_states:
            raise Violation(
                "drift_states",
                "%s.drift_states %r, members alone report %r" % (self.name, got_states, exp_states),
                expected=exp_states,
                observed=got_states,
            )
        exp_recs = {k: jsonable(tw.retraining_recs) for k, tw in twins.items() if hasattr(tw, "retraining_recs")}
        got = _read(self.name, "retraining_recs", lambda: ens.retraining_recs)
        got_recs = {k: jsonable(v) for k, v in got.items()} if isinstance(got, dict) else got
        if got_recs != exp_recs:
            raise Violation(
                "retraining_recs",
                "%s.retraining_recs %r, members alone report %r" % (self.name, got_recs, exp_recs),
                expected=exp_recs,
                observed=got_recs,
            )
        return exp_states, exp_recs

    def _own_counters(self, state, what):
        tot, since = self._counters(state["ens"])
        if (tot, since) != (state["updates"], state["since"]):
            raise Violation(
                "ensemble-counters",
                "%s after %s: total=%d since_reset=%d, expected %d updates in total and %d since the last explicit reset()"
                % (self.name, what, tot, since, state["updates"], state["since"]),
                expected={"total": state["updates"], "since": state["since"]},
                observed={"total": tot, "since": since},
                sig="ensemble-counters:%s" % what,
            )
        return tot, since

    def _finish(self, state, digests):
        ens = state["ens"]
        h = hashlib.blake2b(digest_size=16)
        for d in digests.values():
            h.update(d)
        state["digests"] = digests
        h.update(canon(ens.election))
        h.update(canon([state["model"].canon(), ens.drift_state, state["updates"], state["since"]]))
        if "ens_b" in state:
            b = state["ens_b"]
            h.update(canon([list(b.detectors.values()), b.drift_state, int(b.total_samples), int(b.samples_since_reset)]))
        state["key"] = h.digest()

    # -- one event
    def step(self, cfg, state, ev, pos, ctx):
        ens, twins = state["ens"], state["twins"]
        cont = cfg["container"]
        kind = ev[0]
        ekind = cfg["election"]["kind"]
        ctx.count("%s_input_events" % cont)

        if kind == "u":
            if self.batch:
                rows, y, p = BATCHES[ev[1]], None, None
            else:
                r, y, p = ROW_MENUS[cfg.get("rows")][ev[1]]
                rows = [r]
            X = make_data(rows, cont)
            lab = cfg.get("labels")
            ey, ep = make_labels(lab, y, p, len(rows))

            def twin_update(k, tw):
                ty, tp = make_labels(lab, y, p, len(rows))
                tw.update(X=twin_input(cfg, k, rows), y_true=ty, y_pred=tp)

            ok = self._call_both(cfg, state, ev, pos, ctx, lambda e: e.update(X, ey, ep), twin_update, "update")
            if not ok:
                return {"raised": True}
            state["updates"] += 1
            state["since"] += 1
            digests = self._compare_members(cfg, state, ev, "update")
            states, recs = self._views(state)
            exp = state["model"].step([states[k] for k in twins])
            got = _read(self.name, "drift_state", lambda: ens.drift_state)
            if not (got is None or type(got) is str) or got != exp["verdict"]:
                raise Violation(
                    "ensemble-verdict",
                    "%s with %s%r: drift_state %r after update, the election applied to the members %r (insertion order) gives %r"
                    % (self.name, ekind, cfg["election"]["params"], got, states, exp["verdict"]),
                    expected=exp["verdict"],
                    observed=got,
                    sig="ensemble-verdict:%s" % ekind,
                )
            if exp["counters"] is not None:
                # read defensively: an ensemble that did not consult its election leaves None (or a stale list) here, and
                # that must be a verdict about the code under test, never a crash of the harness
                raw = getattr(ens.election, "wait_period_counters", None)
                try:
                    seen_counters = [int(c) for c in raw]
                except Exception:  # noqa: BLE001 - None / not a sequence of integers
                    seen_counters = None
                if seen_counters != exp["counters"]:
                    raise Violation(
                        "election-counters",
                        "%s: ConfirmedElection%r counters %r after update %d (members %r), one evaluation of the election per "
                        "update gives %r" % (self.name, cfg["election"]["params"], raw, state["updates"], states, exp["counters"]),
                        expected=exp["counters"],
                        observed=jsonable(raw),
                    )
            tot, since = self._own_counters(state, "update")
            self._bookkeeping(cfg, state, ctx, states, got, exp)
            obs = {"verdict": got, "members": states, "recs": recs, "total": tot, "since": since}
            if "ens_b" in state:
                obs["partner"] = self._partner_update(cfg, state, ev, pos, ctx, digests, got)
            state["prev"] = dict(states)
            self._finish(state, digests)
            return obs

        if kind == "reset":
            before = state["digests"]
            was_drift = ens.drift_state
            ok = self._call_both(cfg, state, ev, pos, ctx, lambda e: e.reset(), lambda k, tw: tw.reset(), "reset")
            if not ok:
                return {"raised": True}
            state["since"] = 0
            digests = self._compare_members(cfg, state, ev, "reset")
            states, recs = self._views(state)
            if ens.drift_state is not None:
                raise Violation(
                    "reset-drift-state",
                    "%s.drift_state is %r after reset()" % (self.name, ens.drift_state),
                    expected=None,
                    observed=ens.drift_state,
                )
            tot, since = self._own_counters(state, "reset")
            ctx.mark("reset_fanout_members", len(twins))
            changed = sum(1 for k in twins if digests[k] != before[k])
            if changed:
                ctx.count("reset_changed_member_state", changed)
            if changed >= 2:
                ctx.count("reset_changed_several_members")
            if any(v == "drift" for v in state["prev"].values()):
                ctx.count("reset_while_a_member_reports_drift")
            if was_drift == "drift":
                ctx.count("reset_after_ensemble_drift")
            if state["updates"] and since == 0 and tot > 0:
                ctx.count("reset_restarts_ensemble_counter")
            state["prev"] = dict(states)
            self._finish(state, digests)
            return {"verdict": ens.drift_state, "members": states, "recs": recs, "total": tot, "since": since}

        if kind == "ref":
            rows = BATCHES[ev[1]]
            X = make_data(rows, cont)
            before = state["digests"]
            lab = cfg.get("labels")
            if lab in (None, "int"):
                on_ens = lambda e: e.set_reference(X)  # noqa: E731
            else:
                ey, ep = make_labels(lab, None, None, len(rows))
                on_ens = lambda e: e.set_reference(X, ey, ep)  # noqa: E731

            def twin_ref(k, tw):
                ty, tp = make_labels(lab, None, None, len(rows))
                tw.set_reference(X=twin_input(cfg, k, rows), y_true=ty, y_pred=tp)

            ok = self._call_both(cfg, state, ev, pos, ctx, on_ens, twin_ref, "set_reference")
            if not ok:
                return {"raised": True}
            if getattr(ens.election, "wait_period_counters", None) and any(ens.election.wait_period_counters):
                ctx.count("set_reference_while_confirmed_members_are_waiting")
            digests = self._compare_members(cfg, state, ev, "set_reference")
            states, recs = self._views(state)
            tot, since = self._own_counters(state, "set_reference")
            ctx.mark("set_reference_fanout_members", len(twins))
            changed = sum(1 for k in twins if digests[k] != before[k])
            if changed == len(twins):
                ctx.count("set_reference_changed_every_member")
            if state["updates"]:
                ctx.count("set_reference_after_updates")
            if any(cfg["selectors"].get(k) is not None for k in twins):
                ctx.count("set_reference_through_selectors")
            state["prev"] = dict(states)
            self._finish(state, digests)
            return {"verdict": ens.drift_state, "members": states, "recs": recs, "total": tot, "since": since}

        raise HarnessError("HARNESS-CRASH: unknown event %r" % (ev,))

    def _partner_update(self, cfg, state, ev, pos, ctx, digests, verdict_a):
        """The second ensemble (sharing the election object) is updated with ANOTHER row; its verdict must be the rule
        applied to ITS members, and the first ensemble must not notice."""
        ens, b = state["ens"], state["ens_b"]
        r, y, p = ROWS[(ev[1] + 1) % len(ROWS)]
        lab = cfg.get("labels")
        by, bp = make_labels(lab, y, p, 1)
        try:
            b.update(make_data([r], cfg["container"]), by, bp)
        except Exception as e:  # noqa: BLE001
            raise Violation("partner-exception", "%s: the second ensemble sharing the election raised %r" % (self.name, e),
                            expected="accepted", observed=repr(e))
        bstates = {k: d.drift_state for k, d in b.detectors.items()}
        exp = state["model_b"].step(list(bstates.values()))["verdict"]
        if b.drift_state != exp:
            raise Violation(
                "shared-election-verdict",
                "%s: second ensemble sharing the %s object reports %r, the rule applied to its own members %r gives %r"
                % (self.name, cfg["election"]["kind"], b.drift_state, bstates, exp),
                expected=exp, observed=b.drift_state, sig="shared-election-verdict:%s" % cfg["election"]["kind"],
            )
        if ens.drift_state != verdict_a:
            raise Violation(
                "shared-election-crosstalk",
                "%s: drift_state of the first ensemble changed from %r to %r when the second one was updated"
                % (self.name, verdict_a, ens.drift_state), expected=verdict_a, observed=ens.drift_state,
            )
        for k, m in ens.detectors.items():
            if canon(m) != digests[k]:
                raise Violation("shared-election-crosstalk", "%s: member %r of the first ensemble changed when the second "
                                "ensemble was updated" % (self.name, k), expected="unchanged", observed="changed")
        ctx.count("shared_election_partner_updates")
        if exp != verdict_a:
            ctx.count("shared_election_ensembles_disagree")
        if exp == "drift":
            ctx.count("shared_election_partner_drift")
        return {"verdict": b.drift_state, "members": bstates}

    def _bookkeeping(self, cfg, state, ctx, states, got, exp):
        ekind = cfg["election"]["kind"]
        vals = list(states.values())
        fam = cfg.get("family")
        if fam:
            ctx.count("family_%s_updates" % fam)
            if got is not None:
                ctx.count("family_%s_ensemble_alarms" % fam)
            if any(v is not None for v in vals):
                ctx.count("family_%s_member_alarms" % fam)
            styles = cfg.get("styles") or {}
            for k in states:
                if cfg["selectors"].get(k) is not None:
                    ctx.count("selector_style_%s" % styles.get(k, "closure"))
            if cfg.get("labels"):
                ctx.count("label_style_%s" % cfg["labels"])
            if cfg.get("omit_selectors"):
                ctx.count("ensemble_built_without_column_selectors")
            classes = [type(d) for d in state["ens"].detectors.values()]
            if len(set(classes)) < len(classes):
                ctx.count("same_class_twice_updates")
                if len({states[k] for k in states if type(state["ens"].detectors[k]) is classes[0]}) > 1:
                    ctx.count("same_class_members_in_different_states")
            if len(classes) == 1:
                ctx.count("single_member_updates")
                if got != vals[0]:
                    ctx.count("single_member_ensemble_differs_from_its_member")
            if any(sorted(c) != list(c) for c in cfg["selectors"].values() if c):
                ctx.count("reversed_order_subset_updates")
        ctx.count("verdict_%s_%s" % (ekind, TAG[got]))
        if got is not None:
            ctx.mark()
        if got == "drift" and any(v is None for v in vals):
            ctx.count("ensemble_drift_while_a_member_is_none")
        if got is None and any(v == "drift" for v in vals):
            ctx.count("ensemble_none_while_a_member_drifts")
        if got == "drift" and not any(v == "drift" for v in vals):
            ctx.count("ensemble_drift_with_no_member_in_drift_now")
        if len(set(vals)) > 1:
            ctx.count("members_disagree")
        for k, v in states.items():
            if v == "drift":
                ctx.mark("member_drift_%s" % k)
                if cfg["selectors"].get(k) is not None:
                    ctx.count("selector_restricted_member_alarms")
                    if len(cfg["selectors"][k]) == 1:
                        ctx.count("single_column_member_alarms")
                    else:
                        ctx.count("column_subset_member_alarms")
                else:
                    ctx.count("unrestricted_member_alarms")
            elif v == "warning":
                ctx.mark("member_warning_%s" % k)
            if state["prev"].get(k) == "drift":
                ctx.count("member_restarts_itself_inside_ensemble")
        drew = {}
        for s in state["shims"]:
            if s.drew:
                drew.setdefault(s.mkey, 0)
                drew[s.mkey] += 1
        if drew:
            ctx.count("stochastic_member_consumed_randomness", len(drew))
        if len(drew) >= 2:
            ctx.count("several_stochastic_members_drew_in_one_update")
        if exp.get("waiting_votes"):
            ctx.count("confirmed_waiting_vote_in_ensemble")
        if exp.get("warned_while_waiting"):
            ctx.count("confirmed_member_warning_while_waiting_in_ensemble")
        if ekind == "Confirmed":
            # round 3b: the updates on which "nothing happens" are the ones that move a ConfirmedElection
            wait = cfg["election"]["params"]["wait_time"]
            quiet = all(v is None for v in vals)
            pre = "long_" if fam == "long" else ""
            if quiet and exp.get("waiting_votes"):
                ctx.count(pre + "confirmed_quiet_update_while_a_member_waits")
                if got == "drift":
                    ctx.count(pre + "confirmed_drift_on_a_quiet_update")
            if quiet and not exp.get("waiting_votes"):
                ctx.count(pre + "confirmed_quiet_update_nobody_waiting")
            if exp.get("expired") and wait > 0:
                ctx.count(pre + "confirmed_wait_ran_out")
            if exp.get("alarms") and exp.get("waiting_votes") and got == "drift":
                ctx.count(pre + "confirmed_alarm_joins_a_waiting_member")
            if exp.get("alarms") and state["expired_before"] and not exp.get("waiting_votes"):
                ctx.count(pre + "confirmed_alarm_after_an_earlier_wait_ran_out")
                if got is None:
                    ctx.count(pre + "confirmed_late_alarm_not_confirmed")
            if exp.get("counters") and max(exp["counters"]) >= 6:
                ctx.count(pre + "confirmed_member_waiting_for_5_or_more_updates")
            if fam == "long":
                ctx.count("long_wait_time_%d_updates" % wait)
                ctx.count("long_history_%s_updates" % cfg.get("history"))
            if exp.get("expired") and wait > 0:
                state["expired_before"] = True


SYSTEMS = {"Stream": EnsembleSys("Stream", False), "Batch": EnsembleSys("Batch", True)}

# ---------------------------------------------------------------- configurations
# (members in insertion order, [selector variant A, selector variant B])
STREAM_MIXES = [
    (["adwin", "ddm"], [{"adwin": [0], "ddm": None}, {"adwin": [1], "ddm": [0, 1]}]),
    (["ddm", "ph", "kdq"], [{"ddm": None, "ph": [0], "kdq": [0, 1]}, {"ddm": [2], "ph": [1], "kdq": None}]),
    (["lfr", "adwin", "ph"], [{"lfr": None, "adwin": [0], "ph": [0]}, {"lfr": [0, 2], "adwin": [1], "ph": [0]}]),
    (["kdq", "lfr"], [{"kdq": [0, 1], "lfr": None}, {"kdq": [1, 2], "lfr": [1]}]),
    (["adwin", "ddm", "ph", "kdq"], [{"adwin": [0], "ddm": None, "ph": [0], "kdq": [0, 1]}, {"adwin": [1], "ddm": None, "ph": [1], "kdq": [0, 2]}]),
    (["ph", "lfr", "ddm", "adwin"], [{"ph": [0], "lfr": None, "ddm": None, "adwin": [0]}, {"ph": [1], "lfr": [0], "ddm": [0, 1], "adwin": [0]}]),
]
BATCH_MIXES = [
    (["kdqb", "hdddm"], [{"kdqb": None, "hdddm": None}, {"kdqb": [0, 1], "hdddm": [0]}]),
    (["nndvi", "cdbd", "kdqb"], [{"nndvi": None, "cdbd": [1], "kdqb": [0, 1]}, {"nndvi": [0, 2], "cdbd": [1], "kdqb": None}]),
    (["hdddm2", "cdbd"], [{"hdddm2": [0, 1], "cdbd": [1]}, {"hdddm2": None, "cdbd": [1]}]),
    (["kdqb", "hdddm", "nndvi", "cdbd"], [{"kdqb": None, "hdddm": [0], "nndvi": [0, 2], "cdbd": [1]}, {"kdqb": [1, 2], "hdddm": None, "nndvi": None, "cdbd": [1]}]),
    (["nndvi", "hdddm2", "hdddm"], [{"nndvi": [0, 2], "hdddm2": [0, 1], "hdddm": [0]}, {"nndvi": None, "hdddm2": None, "hdddm": [1]}]),
]
# two parameterisations per election type
ELECTIONS = [
    [("SimpleMajority", {}), ("SimpleMajority", {})],
    [("MinimumApproval", {"approvals_needed": 1}), ("MinimumApproval", {"approvals_needed": 2})],
    [("OrderedApproval", {"approvals_needed": 1, "confirmations_needed": 1}), ("OrderedApproval", {"approvals_needed": 2, "confirmations_needed": 0})],
    [("Confirmed", {"sensitivity": 2, "wait_time": 2}), ("Confirmed", {"sensitivity": 1, "wait_time": 1})],
]
CONTAINERS = ["ndarray", "dataframe"]

DEPTH = {
    # stream_cheap: mixes without a stochastic member; *_deep: one parameterisation per (mix, election type) for batch,
    # the ConfirmedElection configuration of every mix for stream; batch depth includes the initial set_reference
    "quick": {"stream_cheap": 6, "stream": 5, "stream_deep": 5, "batch": 5, "batch_deep": 5},
    "thorough": {"stream_cheap": 8, "stream": 6, "stream_deep": 7, "batch": 5, "batch_deep": 6},
}


def depth_of(tier, system, cfg):
    d = DEPTH[tier]
    if system == "Stream":
        if _cheap(cfg):
            return d["stream_cheap"]
        if cfg["election"]["kind"] == "Confirmed" and cfg["pi"] == cfg["mix"] % 2:
            return d["stream_deep"]
        return d["stream"]
    if cfg["pi"] == (cfg["mix"] + cfg["etype"]) % 2:
        return d["batch_deep"]
    return d["batch"]


COMBOS = [(0, 0), (1, 1), (0, 1), (1, 0)]  # (container, selector variant)


def configs(tier, system):
    """Mixes x election types; containers, selector variants and the two
    parameterisations rotate so that every mix meets both containers and both
    selector variants, and every election type meets every mix (quick/batch:
    two election types per mix, every type on at least two mixes)."""
    mixes = STREAM_MIXES if system == "Stream" else BATCH_MIXES
    out = []
    for i, (members, variants) in enumerate(mixes):
        types = [i % 4, (i + 2) % 4] if (system == "Batch" and tier == "quick") else [0, 1, 2, 3]
        plist = []
        for j in types:
            if tier == "quick":
                plist.append((j, (i + j) % 2))
            else:
                plist += [(j, 0), (j, 1)]
        for n, (j, pi) in enumerate(plist):
            ekind, eparams = ELECTIONS[j][pi]
            c, v = COMBOS[(n + (2 * (i % 2) if len(plist) == 2 else i)) % 4]
            container = CONTAINERS[c]
            out.append(
                {
                    "id": "%s-m%d-%s%d-%s-v%d" % (system[0], i, ekind[:2], pi, container[:2], v),
                    "mix": i,
                    "etype": j,
                    "pi": pi,
                    "members": members,
                    "selectors": variants[v],
                    "election": {"kind": ekind, "params": eparams},
                    "container": container,
                }
            )
    return out


def _cheap(cfg):
    return not (set(cfg["members"]) & STOCHASTIC)


# ---------------------------------------------------------------- round-3 configurations
SM = ("SimpleMajority", {})
MA1 = ("MinimumApproval", {"approvals_needed": 1})
MA2 = ("MinimumApproval", {"approvals_needed": 2})
OA10 = ("OrderedApproval", {"approvals_needed": 1, "confirmations_needed": 0})
OA11 = ("OrderedApproval", {"approvals_needed": 1, "confirmations_needed": 1})
OA20 = ("OrderedApproval", {"approvals_needed": 2, "confirmations_needed": 0})
CE11 = ("Confirmed", {"sensitivity": 1, "wait_time": 1})
CE12 = ("Confirmed", {"sensitivity": 1, "wait_time": 2})
CE13 = ("Confirmed", {"sensitivity": 1, "wait_time": 3})
CE21 = ("Confirmed", {"sensitivity": 2, "wait_time": 1})
CE22 = ("Confirmed", {"sensitivity": 2, "wait_time": 2})
CE23 = ("Confirmed", {"sensitivity": 2, "wait_time": 3})
ND, DA = "ndarray", "dataframe"


def _x(system, family, tag, members, selectors, election, container, depth=None, **kw):
    """One round-3 configuration.  ``selectors``: {key: cols}; members without an entry have no selector."""
    cfg = {
        "id": "%s-x-%s-%s-%s%s" % (system[0], family, tag, election[0][:2], container[:2]),
        "family": family,
        "members": list(members),
        "selectors": {k: selectors.get(k) for k in members},
        "election": {"kind": election[0], "params": election[1]},
        "container": container,
    }
    if depth is not None:
        cfg["depth_delta"] = depth  # relative to the family default depth
    cfg.update(kw)
    return cfg


def _all(members, style):
    return {k: style for k in members}


def extra_configs(system):
    S, B = "Stream", "Batch"
    m3 = ["adwin", "ph", "ddm"]
    s3 = {"adwin": [0], "ph": [1], "ddm": [0, 1]}
    if system == S:
        out = [
            # ---- factory: one loop of default-argument lambdas / partial objects / callable objects / bound methods
            _x(S, "factory", "loop", m3, s3, SM, ND, 1, styles=_all(m3, "loop")),
            _x(S, "factory", "loop", m3, s3, CE22, DA, styles=_all(m3, "loop")),
            _x(S, "factory", "partial", m3, s3, MA1, ND, styles=_all(m3, "partial")),
            _x(S, "factory", "partial", m3, s3, OA11, DA, styles=_all(m3, "partial")),
            _x(S, "factory", "object", m3, s3, CE11, ND, styles=_all(m3, "object")),
            _x(S, "factory", "object", m3, s3, SM, DA, styles=_all(m3, "object")),
            _x(S, "factory", "method", m3, s3, OA20, ND, styles=_all(m3, "method")),
            _x(S, "factory", "method", m3, s3, MA2, DA, styles=_all(m3, "method")),
            _x(S, "factory", "loopkdq", ["kdq", "adwin", "ph"], {"kdq": [0, 1], "adwin": [0], "ph": [1]}, MA1, ND,
               styles=_all(["kdq", "adwin", "ph"], "loop")),
            _x(S, "factory", "mixed", ["kdq", "adwin", "ddm"], {"kdq": [1, 2], "adwin": [1], "ddm": [0]}, SM, DA,
               styles={"kdq": "partial", "adwin": "object", "ddm": "loop"}),
            # ---- viewcopy: views of the caller's row (the whole-row member comes after the view members) / explicit copies
            _x(S, "viewcopy", "view", ["adwin", "ph", "ddm", "kdq"], {"adwin": [0], "ph": [1], "ddm": [1, 2]}, MA1, ND,
               styles={"adwin": "view", "ph": "view1d", "ddm": "view"}),
            _x(S, "viewcopy", "view", ["adwin", "kdq", "ph"], {"adwin": [0], "kdq": [0, 1], "ph": [2]}, CE22, DA,
               styles={"adwin": "view1d", "kdq": "view", "ph": "view"}),
            _x(S, "viewcopy", "copy", m3, s3, OA11, ND, styles=_all(m3, "copy")),
            _x(S, "viewcopy", "copy", m3, s3, MA1, DA, styles=_all(m3, "copy")),
            # ---- overlap: identical, overlapping and reversed-order subsets
            _x(S, "overlap", "rev", ["adwin", "ph", "kdq", "ddm"], {"adwin": [1], "ph": [1], "kdq": [1, 0], "ddm": [2, 1, 0]}, MA2, ND),
            _x(S, "overlap", "twokdq", ["kdq", "kdq_b", "adwin"], {"kdq": [0, 1], "kdq_b": [2, 1], "adwin": [1]}, OA11, DA),
            # ---- somesel: a selector for only some members / no column_selectors argument at all
            _x(S, "somesel", "one", ["kdq", "ph", "ddm"], {"ph": [2]}, CE11, ND),
            _x(S, "somesel", "omit", ["kdq", "ddm"], {}, SM, ND, omit_selectors=True),
            _x(S, "somesel", "omit", ["ddm", "lfr"], {}, MA1, DA, omit_selectors=True),
            # ---- dfnamed: named columns through .loc / .filter / a Series / to_numpy()
            _x(S, "dfnamed", "loc", ["adwin", "kdq", "ddm"], {"adwin": [1], "kdq": [0, 2], "ddm": [1]}, MA1, DA,
               styles={"adwin": "view1d", "kdq": "loc", "ddm": "filter"}),
            _x(S, "dfnamed", "tonumpy", ["ph", "kdq", "adwin"], {"ph": [1], "kdq": [0, 1], "adwin": [2]}, CE22, DA,
               styles={"ph": "to_numpy", "kdq": "to_numpy", "adwin": "filter"}),
            # ---- sameclass: one class twice, identical ("_b") and different ("2") parameters
            _x(S, "sameclass", "ddm", ["ddm", "ddm2", "ddm_b"], {}, SM, ND),
            _x(S, "sameclass", "adwin", ["adwin", "adwin_b", "adwin2"], {"adwin": [0], "adwin_b": [1], "adwin2": [0]}, CE22, ND),
            _x(S, "sameclass", "phkdq", ["ph", "ph2", "kdq", "kdq_b"], {"ph": [0], "ph2": [0], "kdq": [0, 1], "kdq_b": [1, 2]}, OA11, DA),
            # ---- single: one member, every election type
            _x(S, "single", "ddm", ["ddm"], {}, SM, ND, 1),
            _x(S, "single", "ddm", ["ddm"], {}, CE12, DA, 1),
            _x(S, "single", "adwin", ["adwin"], {"adwin": [0]}, MA1, DA, 1),
            _x(S, "single", "adwin", ["adwin"], {"adwin": [0]}, MA2, ND, 1),
            _x(S, "single", "ph", ["ph"], {"ph": [1]}, OA10, ND, 1),
            _x(S, "single", "ph", ["ph"], {"ph": [1]}, CE21, DA, 1),
            _x(S, "single", "kdq", ["kdq"], {}, CE11, ND),
            _x(S, "single", "lfr", ["lfr"], {}, SM, DA),
            # ---- labels: y_true / y_pred in other legal shapes (LinearFourRates takes 0/1 int-likes only: C16)
            _x(S, "labels", "bool", ["ddm", "lfr", "adwin"], {"adwin": [0]}, MA1, ND, labels="bool"),
            _x(S, "labels", "npint", ["ddm", "ph", "adwin2"], {"ph": [0], "adwin2": [1]}, SM, DA, labels="npint"),
            _x(S, "labels", "array1", ["ddm", "lfr"], {}, CE11, ND, labels="array1"),
            _x(S, "labels", "list1", ["ddm", "ddm2", "ph"], {"ph": [0]}, OA11, DA, labels="list1"),
            _x(S, "labels", "array0d", ["lfr", "ddm"], {}, MA2, ND, labels="array0d"),
            _x(S, "labels", "npbool", ["ddm2", "adwin", "ph"], {"adwin": [1], "ph": [0]}, CE22, ND, labels="npbool"),
            # ---- shared: two ensembles share one stateless election object
            _x(S, "shared", "sm", m3, {"adwin": [0], "ph": [1]}, SM, ND, 1, partner=True),
            _x(S, "shared", "ma", m3, {"adwin": [0], "ph": [1]}, MA2, DA, partner=True),
            _x(S, "shared", "oa", m3, {"adwin": [0], "ph": [1]}, OA11, ND, partner=True),
        ]
    else:
        out = [
            _x(B, "factory", "loop", ["hdddm", "cdbd", "kdqb"], {"hdddm": [0, 1], "cdbd": [1], "kdqb": [1, 2]}, MA1, ND,
               styles=_all(["hdddm", "cdbd", "kdqb"], "loop")),
            _x(B, "factory", "objpart", ["hdddm", "cdbd"], {"hdddm": [0, 2], "cdbd": [1]}, SM, DA,
               styles={"hdddm": "object", "cdbd": "partial"}),
            _x(B, "viewcopy", "view", ["cdbd", "hdddm", "nndvi"], {"cdbd": [1], "hdddm": [0, 1]}, MA1, ND,
               styles={"cdbd": "view1d", "hdddm": "view"}),
            _x(B, "viewcopy", "view", ["cdbd", "kdqb"], {"cdbd": [1]}, OA11, DA, styles={"cdbd": "view"}),
            _x(B, "overlap", "rev", ["hdddm", "kdqb", "nndvi"], {"hdddm": [1, 0], "kdqb": [0, 1], "nndvi": [1, 2]}, MA2, ND),
            _x(B, "somesel", "omit", ["kdqb", "hdddm"], {}, SM, DA, omit_selectors=True),
            _x(B, "dfnamed", "series", ["cdbd", "hdddm"], {"cdbd": [1], "hdddm": [0, 2]}, MA1, DA,
               styles={"cdbd": "view1d", "hdddm": "to_numpy"}),
            _x(B, "sameclass", "two", ["cdbd", "cdbd2", "kdqb", "kdqb_b"], {"cdbd": [0], "cdbd2": [1], "kdqb": [0, 1]}, OA11, ND),
            _x(B, "single", "hdddm", ["hdddm"], {}, SM, ND, 1),
            _x(B, "single", "nndvi", ["nndvi"], {}, CE11, DA, 1),
            # ---- cref: set_reference at every later position while ConfirmedElection members are waiting
            _x(B, "cref", "two", ["kdqb", "hdddm"], {"hdddm": [0]}, CE23, ND, 1),
            _x(B, "cref", "hdm", ["hdddm2", "cdbd"], {"cdbd": [1]}, CE12, DA, 1),
            _x(B, "cref", "single", ["hdddm"], {}, CE13, ND, 1),
            _x(B, "labels", "arrays", ["hdddm", "cdbd"], {"cdbd": [1]}, MA1, ND, labels="batch_arrays"),
            _x(B, "labels", "bools", ["kdqb", "nndvi"], {}, SM, DA, labels="batch_bools"),
            _x(B, "labels", "columns", ["hdddm2", "cdbd2"], {"cdbd2": [0]}, CE11, ND, labels="batch_columns"),
        ]
    ids = [c["id"] for c in out]
    if len(set(ids)) != len(ids):
        raise HarnessError("HARNESS-CRASH: duplicate round-3 configuration ids %r" % sorted(i for i in ids if ids.count(i) > 1))
    return out


FAMILIES = ("factory", "viewcopy", "overlap", "somesel", "dfnamed", "sameclass", "single", "cref", "labels", "shared")
# family default depths (batch depths include the initial set_reference); cheap = no stochastic member
XDEPTH = {
    "quick": {"stream_cheap": 5, "stream": 5, "batch": 4},
    "thorough": {"stream_cheap": 7, "stream": 6, "batch": 5},
}


def xdepth(tier, system, cfg):
    d = XDEPTH[tier]
    base = d["batch"] if system == "Batch" else (d["stream_cheap"] if _cheap(cfg) else d["stream"])
    return base + cfg.get("depth_delta", 0)


# ---------------------------------------------------------------- round 3b: family "long"
def CE(sensitivity, wait_time):
    return ("Confirmed", {"sensitivity": sensitivity, "wait_time": wait_time})


LONG = {
    # a configuration of the family names its plan: L = length of the default history, k = number of positions replaced
    # (every choice of <= k positions x every alternative event is executed)
    "quick": {"pairs": (10, 2), "far": (24, 1), "batch": (8, 2)},
    "thorough": {"pairs": (16, 2), "far": (36, 1), "batch": (11, 2)},
}
U = lambda k: ["u", k]  # noqa: E731
RST = ["reset"]


def long_configs(system):
    """Deviation-bounded LONG histories: a default history on which (almost) nothing happens, with every choice of <= k
    positions replaced by every alternative event -- isolated alarms of different members at every pair of distances,
    below and above the waiting time of the ConfirmedElection, with the quiet updates in between."""
    S, B = "Stream", "Batch"
    three = ["ph", "adwin", "cusum"]
    own = {"ph": [0], "adwin": [1], "cusum": [2]}
    two = ["cusum", "ph3"]
    two_sel = {"cusum": [1], "ph3": [2]}
    out = []

    def add(system, tag, members, sel, el, cont, plan, history, menu):
        p = el[1]
        tag = "%s%s" % (tag, "%d.%d" % (p["sensitivity"], p["wait_time"]) if el[0] == "Confirmed" else "")
        out.append(_x(system, "long", tag, members, sel, el, cont, rows="long" if system == S else None, plan=plan,
                      history=history, menu=menu))

    if system == S:
        # flat: a constant stream; alternatives: a pulse in the column of ONE member, reset().  plan "pairs": two
        # replaced positions = two isolated alarms (same or different members) at every pair of positions
        add(S, "flat", three, own, CE(2, 3), ND, "pairs", "flat", [U(1), U(2), U(3), RST])
        add(S, "two", two, two_sel, CE(2, 0), ND, "pairs", "flat", [U(2), U(3), RST])
        add(S, "two", two, two_sel, CE(1, 5), ND, "pairs", "flat", [U(2), U(3), RST])
        add(S, "two", two, two_sel, CE(2, 6), DA, "pairs", "flat", [U(2), U(3), RST])
        add(S, "two", two, two_sel, CE(3, 4), ND, "pairs", "flat", [U(2), U(3), RST])  # sensitivity above the number of members
        # plan "far": one replaced position in a much longer history, waiting times beyond ten updates
        add(S, "far", three, own, CE(1, 12), ND, "far", "flat", [U(1), U(2), U(3), RST])
        # shift: column 0 moves to another level for good at one third of the history (its member alarms there and
        # re-learns); alternatives: a pulse in the column of one of the OTHER members, reset()
        shift_menu = {"flat": [U(2), U(3), RST], "shifted": [U(5), U(6), RST]}
        add(S, "shift", three, own, CE(2, 4), ND, "far", "shift", shift_menu)
        add(S, "shift", three, {"adwin": [0], "ph": [1], "cusum": [2]}, CE(2, 8), ND, "far", "shift", shift_menu)
        add(S, "shift", three, {"cusum": [0], "adwin": [1], "ph": [2]}, CE(3, 11), ND, "far", "shift", shift_menu)
        # warn: a member that reports "warning" on every update of the default history (alternating outcomes)
        add(S, "warn", ["ddmw", "ph", "cusum"], {"ph": [0], "cusum": [1]}, CE(2, 5), ND, "far", "warn", [U(0), U(7), U(1), U(2), RST])
        # a stateless election over the same long histories (the ensemble's own counters, members restarting themselves)
        add(S, "flatma", three, own, MA1, ND, "far", "flat", [U(1), U(2), U(3), RST])
    else:
        later = [U(1), U(2), RST, ["ref", LATER_REF]]
        add(B, "hdm", ["hdddm2", "cdbd"], {"cdbd": [1]}, CE(2, 4), ND, "batch", "batch", later)
        add(B, "hdm", ["hdddm", "cdbd2"], {"hdddm": [0, 2], "cdbd2": [1]}, CE(1, 6), DA, "batch", "batch", later)
    return out


def _one_deviation_chunks(task, n):
    """A k = 1 dev task cut into n tasks by the range the replaced position lies in (the alternatives are removed from the
    menus outside the range; the deviation-free history is run by every part)."""
    if n <= 1:
        return [task]
    if task["k"] != 1:
        raise HarnessError("HARNESS-CRASH: _one_deviation_chunks needs k = 1")
    L = len(task["default"])
    menus = task["menu"] if task.get("menu_per_pos") else [task["menu"]] * L
    out = []
    for c in range(n):
        lo, hi = c * L // n, (c + 1) * L // n
        t = dict(task)
        t.update(menu=[menus[i] if lo <= i < hi else [] for i in range(L)], menu_per_pos=True, prefix=list(task["default"][:lo]),
                 label="%s|dev@%d-%d" % (task["label"], lo, hi - 1), cost=task["cost"] / n)
        out.append(t)
    return out


def _long_tasks(tier):
    out = []
    for sysn in ("Stream", "Batch"):
        for cfg in long_configs(sysn):
            L, k = LONG[tier][cfg["plan"]]
            hist, menu = cfg["history"], cfg["menu"]
            task = {"system": sysn, "cfg": cfg, "mode": "dev", "k": k, "label": "%s|%s|%s%d.%d" % (sysn, cfg["id"], hist, L, k),
                    "cost": sum(COST[m] for m in cfg["members"]) * L ** k, "validate_every": 97 if sysn == "Stream" else 53}
            if hist == "flat":
                task.update(default=[U(0)] * L, menu=menu)
            elif hist == "shift":
                a = L // 3
                task.update(default=[U(0)] * a + [U(4)] * (L - a), menu=[menu["flat"]] * a + [menu["shifted"]] * (L - a), menu_per_pos=True)
            elif hist == "warn":
                task.update(default=[U(0) if i % 2 == 0 else U(7) for i in range(L)], menu=menu)
            elif hist == "batch":
                task.update(default=[["ref", 0]] + [U(0)] * (L - 1), menu=[[["ref", 2]]] + [menu] * (L - 1), menu_per_pos=True)
            else:
                raise HarnessError("HARNESS-CRASH: unknown long history %r" % hist)
            # the "pairs" / "batch" plans are split by their first replaced position (mc.explorer.dev_split: same set of
            # histories, every part re-runs its prefix and one fresh replay); the k = 1 "far" plans stay whole in the quick
            # tier (a few seconds each) and are cut into four ranges of the replaced position in the thorough tier
            if cfg["plan"] in ("pairs", "batch"):
                out += dev_split(task)
            else:
                out += _one_deviation_chunks(task, 4 if tier == "thorough" else 1)
    return out


# ---------------------------------------------------------------- round 5: family "callerobj"
# Two ensembles in ONE process whose constructor arguments are the SAME caller-owned objects: one selector dict that the
# caller edits in place between the two constructions (entries replaced / deleted / added) or clears afterwards, no
# column_selectors argument at all for either (whatever the library uses as its default) with one of them configured
# afterwards through the documented ``column_selectors`` attribute (before / after the other one is built, or in the
# middle of the history), one member dict refilled in place with fresh detectors, one stateless election object (and
# ``ensemble.election`` replaced afterwards on one of them).  Events are tagged with the ensemble they go to and EVERY
# interleaving is explored; each ensemble is judged by EnsembleSys.step exactly as if it were the only one (its members'
# solo twins were deep-copied before it was built, its columns are cut by the harness from the raw data according to what
# THAT ensemble was given at construction time / configured with afterwards), and after every event every other ensemble
# must be untouched (members == twins, views, drift_state, counters).
CALLEROBJ_DEPTH = {"quick": {"stream": 4, "stream_kdq": 3, "batch": 4}, "thorough": {"stream": 5, "stream_kdq": 4, "batch": 5}}
PROBE_ROW = [[0.0, 1.0, 2.0], [10.0, 11.0, 12.0]]


def _identity_selector(X):
    return X


class SharedArgsSys(System):
    """n ensembles built by ``cfg["script"]`` from caller-owned objects kept in the state (so that snapshots keep their
    aliasing), each with the complete per-ensemble oracle state of EnsembleSys."""

    def __init__(self, name, base):
        self.name = name
        self.base = base
        self.batch = base.batch

    # -- construction
    def _new(self, cfg, sub, caller):
        share = cfg["share"]
        if share.get("members"):
            members = caller["mem"]  # the caller's ONE dict, currently filled with this ensemble's fresh detectors
            if list(members) != list(sub["members"]):
                raise HarnessError("HARNESS-CRASH: script builds %s from a member dict holding %r" % (sub["id"], list(members)))
        else:
            members = {k: FACTORY[k]() for k in sub["members"]}
        twins = {k: copy.deepcopy(m) for k, m in members.items()}  # before shims, before any ensemble sees them
        shims = []
        for k in members:
            shims += install_shims(members[k], sub["id"], k, self.batch)
            shims += install_shims(twins[k], sub["id"], k, self.batch)
        el = caller["el"] if share.get("election") else make_election(sub["election"]["kind"], sub["election"]["params"])
        cls = BatchEnsemble if self.batch else StreamingEnsemble
        if sub.get("omit_selectors"):
            ens = cls(detectors=members, election=el)
        elif share.get("sel"):
            ens = cls(detectors=members, election=el, column_selectors=caller["sel"])
        else:
            ens = cls(detectors=members, election=el, column_selectors=build_selectors(sub))
        return {
            "ens": ens, "twins": twins, "model": M.make_model(sub["election"]["kind"], sub["election"]["params"]),
            "shims": shims, "updates": 0, "since": 0, "prev": {k: None for k in members}, "expired_before": False,
            "key": None, "digests": {k: canon(t) for k, t in twins.items()},
        }

    def _set_selector(self, sub, st, key, cols):
        f = _identity_selector if cols is None else make_selector(sub["container"], cols)
        try:
            st["ens"].column_selectors[key] = f
        except Exception as e:  # noqa: BLE001
            raise Violation("attribute-config", "%s: ensemble.column_selectors[%r] = <selector> raised %r" % (self.name, key, e),
                            expected="accepted (documented attribute)", observed=repr(e))
        sub["selectors"][key] = None if cols is None else list(cols)
        (sub.get("styles") or {}).pop(key, None)

    def init(self, cfg):
        subs = [copy.deepcopy(c) for c in cfg["subs"]]
        share = cfg["share"]
        caller = {"sel": {}, "mem": {}, "el": None}
        if share.get("election"):
            e0 = subs[0]["election"]
            if e0["kind"] == "Confirmed" or any(s["election"] != e0 for s in subs):
                raise HarnessError("HARNESS-CRASH: a shared election object must be stateless and the same for every ensemble")
            caller["el"] = make_election(e0["kind"], e0["params"])
        S = [None] * len(subs)
        for op in cfg["script"]:
            what = op[0]
            if what == "seledit":  # the caller edits ITS dict in place so that it describes ensemble op[1]
                new = build_selectors(subs[op[1]])
                for k in [k for k in caller["sel"] if k not in new]:
                    del caller["sel"][k]
                for k, f in new.items():
                    caller["sel"][k] = f
            elif what == "selclear":  # the caller is done with its dict
                caller["sel"].clear()
            elif what == "memedit":  # the caller refills ITS member dict with fresh detectors for ensemble op[1]
                caller["mem"].clear()
                caller["mem"].update({k: FACTORY[k]() for k in subs[op[1]]["members"]})
            elif what == "new":
                S[op[1]] = self._new(cfg, subs[op[1]], caller)
            elif what == "attr":  # documented attribute, used after construction
                self._set_selector(subs[op[1]], S[op[1]], op[2], op[3])
            elif what == "elattr":
                i, kind, params = op[1], op[2], op[3]
                S[i]["ens"].election = make_election(kind, params)
                S[i]["model"] = M.make_model(kind, params)
                subs[i]["election"] = {"kind": kind, "params": params}
            else:
                raise HarnessError("HARNESS-CRASH: unknown script op %r" % (op,))
        if any(s is None for s in S):
            raise HarnessError("HARNESS-CRASH: script %r does not build every ensemble" % (cfg["script"],))
        n = len(S)
        return {"S": S, "subs": subs, "caller": caller, "n": [0] * n, "term": [False] * n, "refd": [not self.batch] * n,
                "verdict": [None] * n, "configured": [0] * n}

    # -- events
    def alphabet(self, cfg, state, pos):
        out = []
        for i in range(len(state["S"])):
            if state["term"][i]:
                continue
            if not state["refd"][i]:
                out.append([i, ["ref", FIRST_REFS[i % len(FIRST_REFS)]]])
            else:
                out += [[i, ["u", r]] for r in cfg.get("urows", (0, 1, 2))] + [[i, ["reset"]]]
                if self.batch:
                    out.append([i, ["ref", LATER_REF]])
            for j, key, cols in cfg.get("sel_events", ()):
                if j == i and state["subs"][i]["selectors"].get(key) != (None if cols is None else list(cols)):
                    out.append([i, ["sel", key, cols]])
        return out

    def _probe(self, sub, st):
        """what the ensemble's selector table really does to a probe -- part of the transposition key only (two states
        whose tables differ are never merged), never an oracle"""
        out = []
        for k in sub["members"]:
            try:
                r = st["ens"].column_selectors[k](make_data(PROBE_ROW, sub["container"]))
                out.append([k, np.asarray(r, dtype=float).ravel().tolist()])
            except Exception as e:  # noqa: BLE001
                out.append([k, "?" + type(e).__name__])
        return out

    def key(self, cfg, state, pos):
        h = hashlib.blake2b(digest_size=16)
        for i, st in enumerate(state["S"]):
            sub = state["subs"][i]
            h.update(st["key"] or b"never used")
            h.update(canon([sub["selectors"], sub["election"], self._probe(sub, st), state["term"][i], state["refd"][i],
                            state["verdict"][i]]))
        return h.digest()

    def _untouched(self, state, j, ev, ctx):
        """ensemble j was not addressed by ``ev``: it must be exactly where its own last event left it"""
        sub, st = state["subs"][j], state["S"][j]
        what = "an event on another ensemble"
        self.base._compare_members(sub, st, ev, what)
        self.base._views(st)
        got = _read(self.name, "drift_state", lambda: st["ens"].drift_state)
        if got != state["verdict"][j]:
            raise Violation(
                "other-ensemble-verdict",
                "%s: drift_state of ensemble %d went from %r to %r on %s (%r)" % (self.name, j, state["verdict"][j], got, what, ev),
                expected=state["verdict"][j], observed=got)
        self.base._own_counters(st, what)
        ctx.count("callerobj_other_ensemble_checked_untouched")

    def step(self, cfg, state, ev, pos, ctx):
        i, e = ev
        sub, st = state["subs"][i], state["S"][i]
        others = [j for j in range(len(state["S"])) if j != i and not state["term"][j]]
        if e[0] == "sel":
            self._set_selector(sub, st, e[1], e[2])
            state["configured"][i] += 1
            for j in [i] + others:
                self._untouched(state, j, ev, ctx)
            ctx.count("callerobj_attribute_configured_during_the_history")
            if state["n"][i]:
                ctx.count("callerobj_attribute_configured_after_updates")
            ctx.terminal = all(state["term"])
            return [i, {"configured": [e[1], e[2]]}]
        ctx.terminal = False
        obs = self.base.step(sub, st, e, state["n"][i], ctx)
        state["n"][i] += 1
        if ctx.terminal:
            state["term"][i] = True
        else:
            state["verdict"][i] = obs.get("verdict")
            if e[0] == "ref":
                state["refd"][i] = True
        for j in others:
            self._untouched(state, j, ev, ctx)
        ctx.terminal = all(state["term"])
        # anti-vacuity
        share = cfg["share"]
        ctx.count("callerobj_events")
        if all(state["n"]):
            ctx.count("callerobj_events_with_every_ensemble_used")
        for tag in cfg["tags"]:
            ctx.count("callerobj_%s" % tag)
        if state["configured"][i] and e[0] == "u":
            ctx.count("callerobj_update_after_attribute_configuration")
        if e[0] == "u" and not state["term"][i]:
            mine = obs.get("members") or {}
            for j in others:
                if state["n"][j] and state["verdict"][j] != state["verdict"][i]:
                    ctx.count("callerobj_ensembles_disagree")
                theirs = state["S"][j]["prev"]
                if any(k in theirs and theirs[k] != v for k, v in mine.items()):
                    ctx.count("callerobj_same_key_members_in_different_states")
        return [i, obs]


SYSTEMS["StreamShared"] = SharedArgsSys("StreamShared", SYSTEMS["Stream"])
SYSTEMS["BatchShared"] = SharedArgsSys("BatchShared", SYSTEMS["Batch"])
# the generic Pair: family is not derived from these (a pair of pairs = four ensembles; the schedules of mc/pairs.py over
# the single-ensemble systems stay on)
PAIR_EXCLUDE = {"StreamShared", "BatchShared"}

BUILD2 = [["new", 0], ["new", 1]]
SELEDIT2 = [["seledit", 0], ["new", 0], ["seledit", 1], ["new", 1]]
MEMEDIT2 = [["memedit", 0], ["new", 0], ["memedit", 1], ["new", 1]]
ALLEDIT2 = [["seledit", 0], ["memedit", 0], ["new", 0], ["seledit", 1], ["memedit", 1], ["new", 1]]


def _sub(system, tag, i, members, selectors, election, container, **kw):
    c = _x(system, "callerobj", "%s#%d" % (tag, i), members, selectors, election, container, **kw)
    return c


def _co(system, tag, container, subs, script, share, tags, sel_events=(), kind=None, urows=(1, 2)):
    """subs: list of (members, selectors, election[, extra]); urows: the menu entries used for update() -- entries 1 and 2
    (every column differs between them and from the other columns) unless the configuration asks for all three"""
    sc = []
    for i, s in enumerate(subs):
        extra = s[3] if len(s) > 3 else {}
        sc.append(_sub(system, tag, i, s[0], s[1], s[2], container, **extra))
    return {"id": "%s-x-callerobj-%s-%s" % (system[0], tag, container[:2]), "family": "callerobj", "container": container, "subs": sc,
            "script": script, "share": share, "tags": list(tags), "sel_events": [list(x) for x in sel_events],
            "members": sorted({m for s in sc for m in s["members"]}), "kind": kind, "urows": list(urows)}


def callerobj_configs(system):
    S, B = "Stream", "Batch"
    OMIT = {"omit_selectors": True}
    out = []
    if system == S:
        m3 = ["adwin", "ph", "ddm"]
        a = {"adwin": [0], "ph": [1], "ddm": [0, 1]}
        b = {"adwin": [1], "ph": [0]}  # both replaced, ddm's entry deleted
        c = {"adwin": [0], "ph": [2], "ddm": [1]}  # one kept, one replaced, one added
        same = {"adwin": [0], "ph": [1]}
        out += [
            # one selector dict, edited in place between the two constructions
            _co(S, "seledit-rd", ND, [(m3, a, MA1), (m3, b, SM)], SELEDIT2, {"sel": True}, ["selector_dict_edited_between_constructions"],
                urows=(0, 1, 2)),
            _co(S, "seledit-ad", DA, [(m3, b, CE22), (m3, c, OA11)], SELEDIT2, {"sel": True}, ["selector_dict_edited_between_constructions"]),
            # ... and cleared by the caller once both ensembles exist
            _co(S, "selclear", ND, [(m3, a, MA1), (m3, c, MA1)], SELEDIT2 + [["selclear"]], {"sel": True},
                ["selector_dict_edited_between_constructions", "selector_dict_cleared_after_construction"]),
            # the same dict, unchanged, for both; afterwards one / the other is configured through its attribute at every
            # point of the history
            _co(S, "selattr", ND, [(m3, same, MA1), (m3, same, SM)], [["seledit", 0]] + BUILD2, {"sel": True},
                ["same_selector_dict_for_both"], sel_events=[(0, "adwin", [1]), (1, "ph", [2]), (1, "ddm", [0])]),
            _co(S, "selattr-own", DA, [(m3, same, OA11), (m3, same, OA11)], BUILD2, {"election": True},
                ["shared_election_object"], sel_events=[(0, "ph", [0]), (1, "adwin", [2])]),
            # no column_selectors argument for either; one configured through the attribute before / after the other is built
            _co(S, "default-before", ND, [(["kdq", "ddm"], {}, MA1, OMIT), (["kdq", "ddm"], {}, MA1, OMIT)],
                [["new", 0], ["attr", 0, "kdq", [0, 1]], ["attr", 0, "ddm", [2]], ["new", 1]], {},
                ["no_selector_argument_then_attribute"], kind="kdq", urows=(0, 1, 2)),
            _co(S, "default-after", DA, [(["ddm", "kdq"], {}, SM, OMIT), (["ddm", "kdq"], {}, MA2, OMIT)],
                BUILD2 + [["attr", 1, "kdq", [1, 2]]], {}, ["no_selector_argument_then_attribute"], kind="kdq"),
            # (same width, other column order: a streaming member cannot change its number of columns in mid-history)
            _co(S, "default-mid", ND, [(["kdq", "ddm"], {}, SM, OMIT), (["kdq", "ddm"], {}, MA1, OMIT)], BUILD2, {},
                ["no_selector_argument_then_attribute"], sel_events=[(0, "kdq", [2, 1, 0]), (1, "kdq", [1, 0, 2])], kind="kdq"),
            # one member dict refilled in place with fresh detectors (same keys / other keys and order)
            _co(S, "members-same", ND, [(m3, a, MA1), (m3, a, MA1)], MEMEDIT2, {"members": True}, ["member_dict_refilled_between_constructions"]),
            _co(S, "members-other", DA, [(m3, a, SM), (["ddm", "adwin", "ph2"], {"adwin": [1], "ph2": [0]}, CE11)], MEMEDIT2,
                {"members": True}, ["member_dict_refilled_between_constructions"]),
            # everything shared: selector dict, member dict, (stateless) election object
            _co(S, "all", ND, [(m3, a, MA1), (m3, b, MA1)], ALLEDIT2, {"sel": True, "members": True, "election": True},
                ["selector_dict_edited_between_constructions", "member_dict_refilled_between_constructions", "shared_election_object"]),
            # one election object for both, then ensemble.election replaced on one of them
            _co(S, "elattr", ND, [(m3, a, MA1), (m3, c, MA1)], BUILD2 + [["elattr", 0, "Confirmed", {"sensitivity": 2, "wait_time": 2}]],
                {"election": True}, ["shared_election_object", "election_replaced_afterwards"]),
        ]
    else:
        h2 = ["hdddm", "cdbd"]
        out += [
            _co(B, "seledit", ND, [(h2, {"hdddm": [0, 1], "cdbd": [1]}, MA1), (h2, {"hdddm": [2], "cdbd": [0]}, SM)], SELEDIT2,
                {"sel": True}, ["selector_dict_edited_between_constructions"]),
            _co(B, "seledit-del", DA, [(h2, {"hdddm": [0], "cdbd": [1]}, CE11), (h2, {"cdbd": [2]}, MA1)], SELEDIT2,
                {"sel": True}, ["selector_dict_edited_between_constructions"]),
            _co(B, "default-before", DA, [(["hdddm", "hdddm2"], {}, MA1, OMIT), (["hdddm", "hdddm2"], {}, MA1, OMIT)],
                [["new", 0], ["attr", 0, "hdddm", [0]], ["attr", 0, "hdddm2", [1, 2]], ["new", 1]], {}, ["no_selector_argument_then_attribute"]),
            _co(B, "default-mid", ND, [(["hdddm", "hdddm2"], {}, SM, OMIT), (["hdddm", "hdddm2"], {}, MA2, OMIT)], BUILD2, {},
                ["no_selector_argument_then_attribute"], sel_events=[(0, "hdddm", [1]), (1, "hdddm2", [0, 2])]),
            _co(B, "all", ND, [(h2, {"hdddm": [0, 2], "cdbd": [1]}, MA1), (h2, {"hdddm": [1], "cdbd": [1]}, MA1)], ALLEDIT2,
                {"sel": True, "members": True, "election": True},
                ["selector_dict_edited_between_constructions", "member_dict_refilled_between_constructions", "shared_election_object"]),
        ]
    ids = [c["id"] for c in out]
    if len(set(ids)) != len(ids):
        raise HarnessError("HARNESS-CRASH: duplicate callerobj configuration ids")
    return out


def _callerobj_tasks(tier):
    out = []
    for sysn in ("Stream", "Batch"):
        name = sysn + "Shared"
        system = SYSTEMS[name]
        for cfg in callerobj_configs(sysn):
            d = CALLEROBJ_DEPTH[tier]
            depth = d["batch"] if sysn == "Batch" else (d["stream_kdq"] if cfg.get("kind") == "kdq" else d["stream"])
            firsts = system.alphabet(cfg, system.init(cfg), 0)
            for f in firsts:
                out.append({
                    "system": name, "cfg": cfg, "prefix": [f], "depth": depth - 1,
                    "label": "%s|%s|%d%s" % (name, cfg["id"], f[0], "".join(str(x) for x in f[1][:2])),
                    "cost": sum(COST[m] for s in cfg["subs"] for m in s["members"]) * len(firsts) ** (depth - 1) * 0.2,
                    "validate_every": 53,
                })
    return out


REQUIRED_CALLEROBJ = (
    ["family_callerobj_updates", "family_callerobj_member_alarms", "family_callerobj_ensemble_alarms",
     "callerobj_events", "callerobj_events_with_every_ensemble_used", "callerobj_other_ensemble_checked_untouched",
     "callerobj_ensembles_disagree", "callerobj_same_key_members_in_different_states",
     "callerobj_attribute_configured_during_the_history", "callerobj_attribute_configured_after_updates",
     "callerobj_update_after_attribute_configuration"]
    + ["callerobj_" + t for t in (
        "selector_dict_edited_between_constructions", "selector_dict_cleared_after_construction", "same_selector_dict_for_both",
        "no_selector_argument_then_attribute", "member_dict_refilled_between_constructions", "shared_election_object",
        "election_replaced_afterwards")]
)


COST = {"adwin": 0.1, "ddm": 0.05, "ph": 0.05, "kdq": 3.0, "lfr": 2.0, "kdqb": 6.0, "hdddm": 3.0, "hdddm2": 2.0, "nndvi": 2.0, "cdbd": 1.5,
        "cusum": 0.05, "ph3": 0.05, "ddmw": 0.05}
for _k in list(FACTORY):
    COST.setdefault(_k, COST.get(_k.rstrip("2").replace("_b", ""), 1.0))
# mutant triage: "off" = pre-round-3 tasks, "only" = round-3 families alone, "nolong" = everything but the round-3b family
# "long", "long" = that family alone, "callerobj" = the round-5 family alone
ROUND3 = os.environ.get("VERIF_ROUND3", "")


def _stream_tasks(cfg, depth):
    out = []
    split = 1 if depth <= 5 else 2
    firsts = [["u", 0], ["u", 1], ["u", 2], ["reset"]]
    prefixes = [[a] for a in firsts] if split == 1 else [[a, b] for a in firsts for b in firsts]
    for pre in prefixes:
        out.append(
            {
                "system": "Stream",
                "cfg": cfg,
                "prefix": pre,
                "depth": depth - split,
                "label": "Stream|%s|%s" % (cfg["id"], "".join(str(e[1]) if len(e) > 1 else "r" for e in pre)),
                "cost": sum(COST[m] for m in cfg["members"]) * 4 ** (depth - split),
                "validate_every": 97,
            }
        )
    return out


def _batch_tasks(cfg, depth):
    out = []
    later = [["u", 0], ["u", 1], ["u", 2], ["reset"], ["ref", LATER_REF]]
    for r in FIRST_REFS:
        for b in later:
            out.append(
                {
                    "system": "Batch",
                    "cfg": cfg,
                    "prefix": [["ref", r], b],
                    "depth": depth - 2,
                    "label": "Batch|%s|%d%s" % (cfg["id"], r, b[0][0] + str(b[1]) if len(b) > 1 else "r"),
                    "cost": sum(COST[m] for m in cfg["members"]) * 5 ** (depth - 2),
                    "validate_every": 53,
                }
            )
    return out


def tasks(tier, seed):
    out = []
    if ROUND3 == "long":
        return _long_tasks(tier)
    if ROUND3 == "callerobj":
        return _callerobj_tasks(tier)
    if ROUND3 != "only":
        for cfg in configs(tier, "Stream"):
            out += _stream_tasks(cfg, depth_of(tier, "Stream", cfg))
        for cfg in configs(tier, "Batch"):
            out += _batch_tasks(cfg, depth_of(tier, "Batch", cfg))
    if ROUND3 != "off":
        for cfg in extra_configs("Stream"):
            out += _stream_tasks(cfg, xdepth(tier, "Stream", cfg))
        for cfg in extra_configs("Batch"):
            out += _batch_tasks(cfg, xdepth(tier, "Batch", cfg))
        if ROUND3 != "nolong":
            out += _long_tasks(tier)
        out += _callerobj_tasks(tier)
    return out


REQUIRED = [
    # every verdict of every election
    "verdict_SimpleMajority_drift", "verdict_SimpleMajority_none",
    "verdict_MinimumApproval_drift", "verdict_MinimumApproval_none",
    "verdict_OrderedApproval_drift", "verdict_OrderedApproval_none",
    "verdict_Confirmed_drift", "verdict_Confirmed_warning", "verdict_Confirmed_none",
    "confirmed_waiting_vote_in_ensemble",
    # ensemble and members differ
    "ensemble_drift_while_a_member_is_none",
    "ensemble_none_while_a_member_drifts",
    "ensemble_drift_with_no_member_in_drift_now",
    "members_disagree",
    # every member type alarms inside an ensemble
    "member_drift_adwin", "member_drift_ddm", "member_drift_ph", "member_drift_kdq", "member_drift_lfr",
    "member_drift_kdqb", "member_drift_hdddm", "member_drift_hdddm2", "member_drift_nndvi", "member_drift_cdbd",
    "member_warning_ddm", "member_warning_lfr",
    "member_restarts_itself_inside_ensemble",
    # selectors
    "selector_restricted_member_alarms", "single_column_member_alarms", "column_subset_member_alarms",
    "unrestricted_member_alarms",
    "ndarray_input_events", "dataframe_input_events",
    # randomness really is consumed by members, several per update
    "stochastic_member_consumed_randomness", "several_stochastic_members_drew_in_one_update",
    # fan-outs
    "reset_fanout_members", "reset_changed_member_state", "reset_changed_several_members",
    "reset_while_a_member_reports_drift", "reset_after_ensemble_drift", "reset_restarts_ensemble_counter",
    "set_reference_fanout_members", "set_reference_changed_every_member", "set_reference_after_updates",
    "set_reference_through_selectors",
]
# round 3: only counters that cannot depend on VERIF_SEED (event counts; alarms of the deterministic members ADWIN / DDM /
# PageHinkley).  Alarms of the batch members (all of them draw random numbers) are reported, not demanded.
REQUIRED_R3 = (
    ["family_%s_updates" % f for f in (
        "factory", "viewcopy", "overlap", "somesel", "dfnamed", "sameclass", "single", "cref", "labels", "shared")]
    + ["family_%s_member_alarms" % f for f in (
        "factory", "viewcopy", "overlap", "somesel", "dfnamed", "sameclass", "single", "labels", "shared")]
    + ["family_%s_ensemble_alarms" % f for f in ("factory", "viewcopy", "sameclass", "single", "labels", "shared")]
    + ["selector_style_%s" % s for s in ("loop", "partial", "object", "method", "view", "view1d", "copy", "loc", "filter", "to_numpy")]
    + ["label_style_%s" % s for s in ("bool", "npint", "npbool", "array1", "list1", "array0d", "batch_arrays", "batch_bools", "batch_columns")]
    + ["ensemble_built_without_column_selectors", "same_class_twice_updates", "same_class_members_in_different_states",
       "single_member_updates", "single_member_ensemble_differs_from_its_member", "reversed_order_subset_updates",
       "shared_election_partner_updates", "shared_election_ensembles_disagree", "shared_election_partner_drift"]
)
# round 3b, family "long": the stream members of the family are deterministic (PageHinkley, ADWIN, CUSUM with given
# target, DDM), so these cannot depend on VERIF_SEED; the two batch configurations only add to them
REQUIRED_LONG = (
    ["family_long_updates", "family_long_member_alarms", "family_long_ensemble_alarms"]
    + ["long_history_%s_updates" % h for h in ("flat", "shift", "warn", "batch")]
    + ["long_confirmed_" + c for c in (
        "quiet_update_while_a_member_waits", "quiet_update_nobody_waiting", "drift_on_a_quiet_update", "wait_ran_out",
        "alarm_joins_a_waiting_member", "alarm_after_an_earlier_wait_ran_out", "late_alarm_not_confirmed",
        "member_waiting_for_5_or_more_updates")]
    + ["long_wait_time_0_updates", "member_drift_cusum", "member_drift_ph3", "member_warning_ddmw"]
)
_REQUIRED_BASE = REQUIRED


def REQUIRED(tier):  # noqa: F811 - the list above stays the pre-round-3 requirement
    if ROUND3 == "off":
        return list(_REQUIRED_BASE)
    if ROUND3 == "only":
        return list(REQUIRED_R3) + list(REQUIRED_LONG) + list(REQUIRED_CALLEROBJ)
    if ROUND3 == "long":
        return list(REQUIRED_LONG)
    if ROUND3 == "callerobj":
        return list(REQUIRED_CALLEROBJ)
    if ROUND3 == "nolong":
        return list(_REQUIRED_BASE) + list(REQUIRED_R3) + list(REQUIRED_CALLEROBJ)
    return list(_REQUIRED_BASE) + list(REQUIRED_R3) + list(REQUIRED_LONG) + list(REQUIRED_CALLEROBJ)


def describe(tier):
    d = DEPTH[tier]
    return {
        "rule": "every event sequence of the stated depth (prefix-shared DFS over the real ensemble, snapshots by deepcopy, "
        "transposition on the full canonical state of members + election + counters) for every configuration; family long: a "
        "default history with every choice of <= k positions replaced by every alternative event (bounds.round3b_long); "
        "a history is non-trivial when some update made the ensemble or a member report warning/drift or when it "
        "contains reset()/set_reference()",
        "bounds": {
            "stream_alphabet": ["update(row k, y, y^) for k in 0..2", "reset()"],
            "batch_alphabet": ["set_reference(b0|b2) first", "update(batch k) k in 0..2", "reset()", "set_reference(b2)"],
            "depth": d,
            "depth_rule": "stream_cheap: mixes without a stochastic member; stream_deep: the ConfirmedElection configuration "
            "(one parameterisation) of every other mix; batch_deep: one parameterisation per (mix, election type); "
            "batch depths include the initial set_reference",
            "stream_mixes": [m for m, _ in STREAM_MIXES],
            "batch_mixes": [m for m, _ in BATCH_MIXES],
            "elections": [[k, p] for pair in ELECTIONS for (k, p) in pair],
            "containers": CONTAINERS,
            "selector_variants_per_mix": 2,
            "configurations": {"Stream": len(configs(tier, "Stream")), "Batch": len(configs(tier, "Batch"))},
            "member_parameters": "checks/c12.py FACTORY (small windows/thresholds so members alarm within the bound)",
            "round3": {
                "families": {f: [c["id"] for sysn in ("Stream", "Batch") for c in extra_configs(sysn) if c["family"] == f] for f in FAMILIES},
                "depth": XDEPTH[tier],
                "depth_rule": "stream_cheap: no stochastic member; a configuration's depth_delta is added (single-member and one "
                "factory / shared configuration are one deeper); batch depths include the initial set_reference; same alphabets as above",
                "selector_styles": ["closure (pre-round-3)", "loop: default-argument lambdas from one loop", "partial", "object (callable class)",
                                    "method (bound)", "view (basic slice / .iloc)", "view1d (1-D column view / Series)", "copy", "loc", "filter", "to_numpy"],
                "label_styles": ["int (pre-round-3)", "bool", "npint", "npbool", "array1", "list1", "array0d", "batch_arrays", "batch_bools", "batch_columns"],
                "shared": "second ensemble over fresh members of the same kinds, sharing the stateless election object, updated with row (k+1) mod 3 after every update(row k)",
            },
            "round3b_long": {
                "rule": "dev mode: the default history with every choice of <= k positions replaced by every alternative event of the "
                "configuration's menu, all run to completion (pairs and batch plans are split by the first replaced position, the thorough far plans into four ranges of the replaced position)",
                "plans (L = history length, k = replaced positions)": {k: list(v) for k, v in LONG[tier].items()},
                "stream_rows": [list(r) for r in LONG_ROWS],
                "histories": {
                    "flat": "update(row 0) x L",
                    "shift": "update(row 0) x L//3 then update(row 4) for good (column 0 on another level)",
                    "warn": "rows 0 / 7 alternating (a DDM member warns on every update)",
                    "batch": "set_reference(b0) then update(b0) x (L-1); position 0 may be set_reference(b2) instead",
                },
                "configurations": [
                    {"id": c["id"], "members": c["members"], "selectors": c["selectors"], "election": c["election"], "plan": c["plan"],
                     "history": c["history"], "alternatives": c["menu"]}
                    for sysn in ("Stream", "Batch") for c in long_configs(sysn)
                ],
                "members": "ph / adwin as above; cusum = CUSUM(target 0, sd 1, burn_in 0, threshold 2); ph3 = PageHinkley(delta .01, "
                "threshold 2, burn_in 3); ddmw = DDM(n_threshold 4, warning .5, drift 1.5)",
            },
            "round5_callerobj": {
                "rule": "systems StreamShared / BatchShared: two ensembles built in init() by the configuration's script from "
                "caller-owned objects that stay in the explored state; events are [ensemble index, event]; every interleaving "
                "(either ensemble may move at every node) of update(row/batch k in urows), reset(), (batch) set_reference -- the "
                "first event of a batch ensemble is its set_reference -- and, where listed, ensemble.column_selectors[key] = "
                "selector; depth counts the events of both ensembles together",
                "depth": CALLEROBJ_DEPTH[tier],
                "script_ops": {
                    "seledit i": "the caller's ONE selector dict is edited in place (stale keys deleted, the others assigned) to describe ensemble i",
                    "selclear": "the caller clears that dict after both ensembles exist",
                    "memedit i": "the caller's ONE member dict is cleared and refilled with fresh detectors for ensemble i",
                    "new i": "ensemble i is constructed from the caller's objects as they are now (share: which arguments are the "
                    "caller's shared objects; omit_selectors: no column_selectors argument at all)",
                    "attr i key cols": "ensemble_i.column_selectors[key] = selector of cols",
                    "elattr i": "ensemble_i.election = a new election object",
                },
                "configurations": [
                    {"id": c["id"], "share": c["share"], "script": c["script"], "urows": c["urows"], "attribute_events": c["sel_events"],
                     "ensembles": [{"members": s_["members"], "selectors": s_["selectors"], "election": s_["election"],
                                    "no_selector_argument": bool(s_.get("omit_selectors"))} for s_ in c["subs"]]}
                    for sysn in ("Stream", "Batch") for c in callerobj_configs(sysn)
                ],
                "transposition": "per-ensemble canonical keys + each ensemble's intended selectors / election + what its real selector "
                "table does to a probe (so states whose tables differ are never merged; the probe is not an oracle)",
            },
        },
        "explanation": "states = distinct canonical states (members, election, counters); traces_validated_against_impl = "
        "maximal event sequences on which every member was compared with its solo twin after every event",
        "assumptions": [
            "members draw randomness only from numpy's global generator; update/set_reference of every member (ensemble copy "
            "and solo twin) are wrapped by a harness shim that seeds it from (VERIF_SEED, configuration, member key, method, "
            "call number)",
            "solo twins receive the selected columns cut by the harness from the raw menu data in the same container type",
            "set_reference leaves the ensemble's own counters and drift_state alone (only reset() restarts the counter)",
            "an exception raised by the ensemble is accepted only if a member run alone raises the identical exception",
            "not every mix x election x selector x container combination is explored: each mix meets every election type, "
            "both containers and both selector variants (rotating design)",
            "round 3: the solo twin of a member whose selector returns a view / Series / to_numpy() array receives the same kind of "
            "object, produced by the harness's own slicing of a separately built container (never by the selector objects the "
            "ensemble holds)",
            "round 3: label arguments are rebuilt for every call (ensemble and each twin get their own equal objects); batch members "
            "document y_true / y_pred as unused, so batch label arrays are arbitrary; LinearFourRates gets 0/1 int-likes only",
            "round 3b: in the long histories at most k (2, or 1 in the longest) positions differ from the default history; a "
            "CUSUM member whose very first sample is the pulse raises ValueError (zero variance) on the next update exactly as it "
            "does alone -- those histories end there (member_raises_alone_too)",
            "round 3b: wait_period_counters of a ConfirmedElection must be a list of integers equal to one evaluation of the "
            "election per update from the very first update on (None / anything else is reported as election-counters)",
            "round 5 (callerobj): both ensembles are constructed in init() (construction of an ensemble after another one has been "
            "used is the generic Pair: seq schedule of mc/pairs.py); only stateless election objects are shared; the caller never "
            "hands the same DETECTOR objects to two ensembles (they would legitimately share state) -- the member dict is refilled "
            "with fresh detectors; attribute configuration in mid-history keeps a streaming member's number of columns (or the "
            "member refuses the sample exactly as it does alone: member_raises_alone_too); entries of column_selectors are "
            "assigned, never deleted (what a deleted entry means is not documented); the generic Pair: family is not derived "
            "from StreamShared / BatchShared (PAIR_EXCLUDE)",
            "round 3: two ensembles share an election object only for the stateless elections (pure functions of the member list); "
            "sharing a ConfirmedElection (per-position counters) and nesting an ensemble inside an ensemble are not documented and "
            "are left out",
        ],
    }
