"""C13 — each election returns exactly what its voting rule says for every vote pattern.

Three parts (DESIGN §4 C13):

1. SimpleMajority / MinimumApproval(a) / OrderedApproval(a, c): EVERY vector in
   {None, warning, drift}^n for n = 1..5 (6 thorough), a = 1..n+1, c = 0..n+1, on
   stub members that expose nothing but ``drift_state``.  Oracle: the counting
   predicates of models/election.py; result is exactly "drift" or None; turning
   one more member to drift never retracts a drift verdict.  One election object
   per parameter set serves all vectors (the rule is per call, whatever came
   before).
2. ConfirmedElection(sensitivity 1..n+1, wait_time 0..3), n <= 4 (5 thorough):
   reachable-state exploration over ``wait_period_counters`` (transposition key =
   the counters) -- every reachable counter state x every vote vector, lock-step
   with the state machine of models/election.py, invariant 0 <= c_i <= wait_time.
   The task checks afterwards that all (wait_time+1)^n counter states were
   reached and each was expanded with all 3^n vectors.
3. Secondary TLA+ model tla/ConfirmedElection.tla (n = 3, wait <= 2,
   sensitivities 1..4): TLC checks the counter invariant and dumps the labelled
   state graph; EVERY edge is replayed on the real class (source state reached
   by replaying a BFS path) and verdict + counters are compared.

Round-3 families (EXTENDING.md; every one is an additional task, labels say which):
  Votes|..|n0          the empty member list (every rule is defined on it: 0 alarms)
  VotesFar             thresholds far above n (n+2 .. 2**63, 10**30): never drift
  VotesZero            OrderedApproval(a = 0, c >= 1) -- the rule "at least a + c"
  VotesReuse           ONE election object serving member lists of every length
                       0..N in interleaved order (nothing may survive a call)
  VotesSpell           reports in other legal spellings: equal-but-not-identical
                       str objects, numpy.str_, a str subclass; members that expose
                       drift_state through a property / __slots__ / a real
                       menelaus detector whose state was set through its setter
  Confirmed|fam-*      n = 0; sensitivity 0 and far above n; spelled reports;
                       wait_time 6..40 (complete counter-state space)
  ConfirmedStagger     n = 3, wait_time 5 (every pair of alarm offsets 0..7),
                       300 (boundary offsets) and 10**9 (never expires): staggered
                       alarms followed by long quiet stretches, in lock-step with
                       the model; variants quiet / sustained drift / warning pause
  ConfirmedTLA         thorough: N = 4, MaxSens = 5 (2.3e6 edges)

Round-5 families (TWO election objects alive in one process; "fn" tasks, so the generic Pair: family does not reach
them; system ElectionPair; every object judged by its own voting-rule model):
  PairVotes|AxB|na,nb  stateless rules: every ordered pair of parameter sets (same class: same / different parameters,
                       equal / different member counts; different classes) x every interleaving of (construct, sweep
                       all vectors, sweep again) of the two objects + strict alternation over every ordered pair of
                       vectors on the caller's persistent member objects (one list object for both elections)
  PairConfirmed|tree   every ordered pair of (sensitivity, wait_time) x every pair of vote-vector histories of length h
                       x every interleaving of [construct, calls] of the two objects
  PairConfirmed|reach  every joint counter state of the two objects (incl. "not constructed yet") x every sequence of
                       `tail` enabled operations (construct either / call either on any vector)
"""
import array
import itertools
import os
import re
import shutil
import subprocess
import tempfile
import time
from collections import Counter, deque

import numpy as np

from menelaus.concept_drift import DDM
from menelaus.data_drift import HDDDM
from menelaus.ensemble import (
    ConfirmedElection,
    MinimumApprovalElection,
    OrderedApprovalElection,
    SimpleMajorityElection,
)

from mc import explorer, procstate
from mc.explorer import Ctx, HarnessError, System, Violation, artefact, run_path
from models import election as M

PROPERTY = "C13"
HERE = os.path.dirname(os.path.dirname(os.path.abspath(__file__)))
REPORTS = (None, "warning", "drift")
TAG = {None: "none", "warning": "warning", "drift": "drift"}


class Stub:
    """A member as an election sees it: an object with a ``drift_state``."""

    def __init__(self, state):
        self.drift_state = state


def stubs(vec):
    return [Stub(s) for s in vec]


class PropStub:
    """drift_state behind a property (as on every real detector)."""

    def __init__(self, state):
        self._hidden = state

    @property
    def drift_state(self):
        return self._hidden


class SlotStub:
    __slots__ = ("drift_state",)

    def __init__(self, state):
        self.drift_state = state


class StrSub(str):
    """a str subclass: still the string "drift" / "warning" for every comparison"""


def _real_stream(state):
    d = DDM()
    d.drift_state = state  # through the validating setter, as tests/menelaus/test_ensemble.py does
    return d


def _real_batch(state):
    d = HDDDM()
    d.drift_state = state
    return d


MEMBER_KINDS = (Stub, PropStub, SlotStub, _real_stream, _real_batch)
N_SPELL = 4


def spell(s, k):
    """An equal, legal spelling of the report ``s`` (None has only one)."""
    if s is None:
        return None
    k %= N_SPELL
    if k == 0:
        return s
    if k == 1:
        t = "".join(list(s))  # equal to the literal, not the interned object
        return t
    if k == 2:
        return np.str_(s)
    return StrSub(s)


def spelled_members(vec, pos, ctx=None):
    """Members for the spelling families: spelling and member kind rotate with
    (position of the call, index of the member)."""
    out = []
    for i, s in enumerate(vec):
        k = (pos + i) % N_SPELL
        r = spell(s, k)
        kind = MEMBER_KINDS[(pos // N_SPELL + 2 * i) % len(MEMBER_KINDS)]
        out.append(kind(r))
        if ctx is not None and s is not None:
            if r is not s:
                ctx.count("spelled_report_equal_but_not_identical")
            ctx.count("spelled_report_%s" % ("literal", "rebuilt_str", "numpy_str", "str_subclass")[k])
            ctx.count("spelled_member_kind_%s" % kind.__name__.lstrip("_"))
    return out


def make_election(kind, params):
    if kind == "SimpleMajority":
        return SimpleMajorityElection()
    if kind == "MinimumApproval":
        return MinimumApprovalElection(approvals_needed=params["approvals_needed"])
    if kind == "OrderedApproval":
        return OrderedApprovalElection(
            approvals_needed=params["approvals_needed"],
            confirmations_needed=params["confirmations_needed"],
        )
    if kind == "Confirmed":
        return ConfirmedElection(sensitivity=params["sensitivity"], wait_time=params["wait_time"])
    raise ValueError(kind)


class _CtorFailed:
    def __init__(self, exc):
        self.exc = exc


def _construct(kind, params):
    """The constructor must accept every parameter value of the families (plain ints); a refusal is reported as a
    violation by the first call instead of crashing the harness."""
    try:
        return make_election(kind, params)
    except Exception as e:  # noqa: BLE001
        return _CtorFailed(e)


def _constructed(el, kind, params):
    if isinstance(el, _CtorFailed):
        raise Violation(
            kind + "-constructor-exception",
            "%s(%r) could not be constructed: %s: %s" % (kind, params, type(el.exc).__name__, el.exc),
            expected="an election object",
            observed=repr(el.exc),
        )


def _call(el, vec, sub, members=None):
    try:
        return el(stubs(vec) if members is None else members)
    except Exception as e:  # the property allows no exception on any vote pattern
        raise Violation(
            sub + "-exception",
            "%s raised %s: %s on votes %r" % (type(el).__name__, type(e).__name__, e, list(vec)),
            expected="a verdict",
            observed=repr(e),
        )


def _is_verdict(r, allowed):
    return r is None or (type(r) is str and r in allowed)


# --------------------------------------------------------------------------
# part 1: stateless rules
# --------------------------------------------------------------------------
class VoteSys(System):
    """One election object, one vote vector per event."""

    name = "Votes"

    def init(self, cfg):
        return {"el": _construct(cfg["kind"], cfg["params"]), "model": M.make_model(cfg["kind"], cfg["params"])}

    def alphabet(self, cfg, state, pos):
        if cfg.get("lengths") is not None:
            return interleaved_vectors(cfg["lengths"])
        return [list(v) for v in itertools.product(REPORTS, repeat=cfg["n"])]

    def step(self, cfg, state, ev, pos, ctx):
        kind = cfg["kind"]
        el = state["el"]
        vec = list(ev)
        fam = cfg.get("family")
        _constructed(el, kind, cfg["params"])
        members = spelled_members(vec, pos, ctx) if cfg.get("spell") else None
        got = _call(el, vec, kind, members)
        if not _is_verdict(got, ("drift",)):
            raise Violation(
                kind + "-range",
                "%s%r returned %r on votes %r; only \"drift\" or None are allowed" % (kind, cfg["params"], got, vec),
                expected=["drift", None],
                observed=repr(got),
            )
        exp = state["model"].step(vec)["verdict"]
        k = M.n_drift(vec)
        if got != exp:
            raise Violation(
                kind + "-rule",
                "%s%r on votes %r (%d of %d drift) returned %r, the voting rule says %r"
                % (kind, cfg["params"], vec, k, len(vec), got, exp),
                expected=exp,
                observed=got,
            )
        ctx.count("%s_verdict_%s" % (kind, TAG[got]))
        if got == "drift":
            ctx.mark()
            # one more member turning to drift must not retract the verdict
            for i, s in enumerate(vec):
                if s != "drift":
                    v2 = vec[:i] + ["drift"] + vec[i + 1 :]
                    g2 = _call(el, v2, kind)
                    ctx.count("monotone_pairs_checked")
                    if g2 != "drift":
                        raise Violation(
                            kind + "-monotone",
                            "%s%r: drift on votes %r but %r after member %d also turned to drift (%r)"
                            % (kind, cfg["params"], vec, g2, i, v2),
                            expected="drift",
                            observed=g2,
                        )
        # anti-vacuity bookkeeping
        n = len(vec)
        if n == 0:
            ctx.count("empty_member_list_calls")
            ctx.count("empty_member_list_%s" % kind)
        if fam == "reuse":
            if state.get("last_n") is not None and state["last_n"] != n:
                ctx.count("reuse_length_changed_between_calls")
                if state["last_n"] > n:
                    ctx.count("reuse_shorter_list_after_longer")
                if state.get("last_verdict") == "drift" and got is None:
                    ctx.count("reuse_none_right_after_drift_on_another_length")
            state["last_n"] = n
            state["last_verdict"] = got
        if fam == "far":
            ctx.count("far_parameter_calls")
            if k == n and n > 0:
                ctx.count("far_parameter_all_members_drift_still_none")
        if fam == "zero":
            ctx.count("ordered_zero_approvals_calls")
            if got == "drift" and k == cfg["params"]["confirmations_needed"]:
                ctx.count("ordered_zero_approvals_threshold_exactly_met")
        if kind == "SimpleMajority":
            if 2 * k == n:
                ctx.count("majority_exact_half_is_not_drift")
            if 2 * k == n + 1:
                ctx.count("majority_smallest_majority_is_drift")
        else:
            need = cfg["params"]["approvals_needed"] + cfg["params"].get("confirmations_needed", 0)
            if k == need:
                ctx.count("approval_threshold_exactly_met")
            if k == need - 1:
                ctx.count("approval_one_short")
            if need > n:
                ctx.count("approval_threshold_above_n_never_drift")
            if "warning" in vec and k == need - 1:
                ctx.count("approval_warnings_do_not_count")
        return {"verdict": got}


def stateless_cfgs(kind, n):
    if kind == "SimpleMajority":
        return [{"id": "SM-n%d" % n, "kind": kind, "n": n, "params": {}}]
    if kind == "MinimumApproval":
        return [
            {"id": "MA-n%d-a%d" % (n, a), "kind": kind, "n": n, "params": {"approvals_needed": a}}
            for a in range(1, n + 2)
        ]
    return [
        {
            "id": "OA-n%d-a%d-c%d" % (n, a, c),
            "kind": kind,
            "n": n,
            "params": {"approvals_needed": a, "confirmations_needed": c},
        }
        for a in range(1, n + 2)
        for c in range(0, n + 2)
    ]


FAR = (2, 7, 300, 2 ** 31, 2 ** 63, 10 ** 30)  # added to n: thresholds far above the number of members


def far_cfgs(kind, n):
    """Thresholds far above n (the rule is unambiguous: never drift)."""
    if kind == "MinimumApproval":
        return [
            {"id": "MAfar-n%d-a%d" % (n, n + f), "kind": kind, "n": n, "family": "far", "params": {"approvals_needed": n + f}}
            for f in FAR
        ]
    out = []
    for f in FAR:
        for a, c in ((n + f, 0), (n + f, 1), (1, n + f), (max(1, n), n + f), (n + f, n + f)):
            out.append(
                {"id": "OAfar-n%d-a%d-c%d" % (n, a, c), "kind": kind, "n": n, "family": "far",
                 "params": {"approvals_needed": a, "confirmations_needed": c}}
            )
    return out


def zero_cfgs(n):
    """OrderedApproval with no initial approvals: a = 0, c = 1..n+1 (a + c >= 1; a = c = 0 is left out, see describe())."""
    return [
        {"id": "OAzero-n%d-c%d" % (n, c), "kind": "OrderedApproval", "n": n, "family": "zero",
         "params": {"approvals_needed": 0, "confirmations_needed": c}}
        for c in range(1, n + 2)
    ]


def interleaved_vectors(lengths):
    """Every vector of every length in ``lengths``, interleaved so that consecutive calls
    (almost) always have different lengths; the shorter lists are cycled."""
    lists = [[list(v) for v in itertools.product(REPORTS, repeat=n)] for n in lengths]
    longest = max(len(l) for l in lists)
    out = []
    for j in range(longest):
        # alternate long / short: lengths in the order N, 0, N-1, 1, ...
        order = []
        lo, hi = 0, len(lists) - 1
        while lo <= hi:
            order.append(hi)
            if lo != hi:
                order.append(lo)
            lo, hi = lo + 1, hi - 1
        for li in order:
            out.append(lists[li][j % len(lists[li])])
    return out


def reuse_cfgs(kind, nmax):
    lengths = list(range(0, nmax + 1))
    base = {"kind": kind, "n": "0..%d" % nmax, "lengths": lengths, "family": "reuse"}
    if kind == "SimpleMajority":
        return [dict(base, id="SMreuse", params={})]
    if kind == "MinimumApproval":
        return [dict(base, id="MAreuse-a%d" % a, params={"approvals_needed": a}) for a in range(1, nmax + 2)]
    return [
        dict(base, id="OAreuse-a%d-c%d" % (a, c), params={"approvals_needed": a, "confirmations_needed": c})
        for a in range(1, nmax + 1)
        for c in range(0, 3)
    ]


def family_cfgs(task):
    fam = task.get("family")
    if fam == "far":
        return far_cfgs(task["kind"], task["n"])
    if fam == "zero":
        return zero_cfgs(task["n"])
    if fam == "reuse":
        return reuse_cfgs(task["kind"], task["n"])
    cfgs = stateless_cfgs(task["kind"], task["n"])
    if fam == "spell":
        cfgs = [dict(c, id=c["id"] + "-spell", spell=True, family="spell") for c in cfgs]
    return cfgs


def stateless_task(task, seed):
    """All vectors of {None, warning, drift}^n on one election object per parameter set."""
    t0 = time.time()
    sysm = SYSTEMS["Votes"]
    ctx = Ctx(seed)
    st = ctx.stats
    violations = []
    samples = []
    for cfg in family_cfgs(task):
        state = sysm.init(cfg)
        st["states"] += 1
        history = []
        reported = Counter()
        for pos, vec in enumerate(sysm.alphabet(cfg, state, 0)):
            history.append(vec)
            ctx.marks = 0
            try:
                obs = sysm.step(cfg, state, vec, pos, ctx)
            except Violation as v:
                st["violations_raw"] += 1
                reported[v.sig] += 1
                if reported[v.sig] <= 2:
                    # minimal artefact if the single call reproduces on a fresh object
                    _, v1 = run_path(sysm, cfg, [vec], seed)
                    if v1 is not None and v1.sub == v.sub:
                        violations.append(artefact(PROPERTY, sysm, cfg, seed, [vec], v1))
                    else:
                        obs2, v2 = run_path(sysm, cfg, history, seed)
                        if v2 is None:
                            raise HarnessError(
                                "HARNESS-NONDET: %s on %r did not reproduce from scratch" % (v.sub, cfg)
                            )
                        violations.append(artefact(PROPERTY, sysm, cfg, seed, history[: len(obs2) + 1], v2))
                continue
            st["transitions"] += 1
            st["executions"] += 1
            st["states"] += 1
            if ctx.marks:
                st["nontrivial_executions"] += 1
            if len(samples) < 2 and ctx.marks:
                samples.append(
                    {"system": sysm.name, "cfg": cfg, "events": [vec], "last_obs": obs, "nontrivial_events": 1}
                )
    return {"stats": dict(st), "violations": violations, "samples": samples, "wall": time.time() - t0}


# --------------------------------------------------------------------------
# part 2: ConfirmedElection, reachable counter states x all vectors
# --------------------------------------------------------------------------
def _check_confirmed_call(cfg, el, vec, got, exp, ctx=None):
    """Oracle for one ConfirmedElection call (shared by the explorer and the TLC replay)."""
    w = cfg["wait_time"]
    label = "ConfirmedElection(sensitivity=%d, wait_time=%d)" % (cfg["sensitivity"], w)
    if not _is_verdict(got, ("drift", "warning")):
        raise Violation(
            "Confirmed-range",
            "%s returned %r on votes %r" % (label, got, vec),
            expected=["drift", "warning", None],
            observed=repr(got),
        )
    cs = el.wait_period_counters
    ok_shape = isinstance(cs, list) and len(cs) == len(vec) and all(type(c) is int for c in cs)
    if not ok_shape or any(c < 0 or c > w for c in cs):
        raise Violation(
            "Confirmed-counter-range",
            "%s: wait_period_counters %r after votes %r leave 0..%d" % (label, cs, vec, w),
            expected="%d counters in 0..%d" % (len(vec), w),
            observed=repr(cs),
        )
    if got != exp["verdict"]:
        detail = ""
        if "voters" in exp:
            detail = " with voters %r and warnings %r" % (exp["voters"], exp["warnings"])
        raise Violation(
            "Confirmed-verdict",
            "%s on votes %r%s: returned %r, the rule says %r" % (label, vec, detail, got, exp["verdict"]),
            expected=exp["verdict"],
            observed=got,
        )
    if list(cs) != list(exp["counters"]):
        raise Violation(
            "Confirmed-counters",
            "%s after votes %r: wait_period_counters %r, expected %r" % (label, vec, cs, exp["counters"]),
            expected=exp["counters"],
            observed=list(cs),
        )


class ConfirmedSys(System):
    name = "Confirmed"

    def __init__(self):
        self.expanded = None  # set of (counter state before the call, vote vector) when tracking

    def init(self, cfg):
        p = {"sensitivity": cfg["sensitivity"], "wait_time": cfg["wait_time"]}
        return {"el": _construct("Confirmed", p), "model": M.make_model("Confirmed", p)}

    def alphabet(self, cfg, state, pos):
        return [list(v) for v in itertools.product(REPORTS, repeat=cfg["n"])]

    def key(self, cfg, state, pos):
        cs = state["el"].wait_period_counters
        return (None if cs is None else tuple(cs), state["model"].canon())

    def step(self, cfg, state, ev, pos, ctx):
        el = state["el"]
        vec = list(ev)
        _constructed(el, "Confirmed", {"sensitivity": cfg["sensitivity"], "wait_time": cfg["wait_time"]})
        before = el.wait_period_counters
        before = None if before is None else tuple(before)
        members = spelled_members(vec, pos, ctx) if cfg.get("spell") else None
        got = _call(el, vec, "Confirmed", members)
        exp = state["model"].step(vec)
        _check_confirmed_call(cfg, el, vec, got, exp)
        if self.expanded is not None:
            self.expanded.add((before, tuple(vec)))
        cs = list(el.wait_period_counters)
        w = cfg["wait_time"]
        ctx.count("Confirmed_verdict_%s" % TAG[got])
        if got is not None:
            ctx.mark()
        if w >= 1 and any(c == w for c in cs):
            ctx.count("confirmed_counter_at_wait_time")
        if exp["warned_while_waiting"]:
            ctx.mark("confirmed_voter_turned_warning_while_waiting", exp["warned_while_waiting"])
        if exp["expired"]:
            ctx.count("confirmed_wait_expired", exp["expired"])
        if exp["waiting_votes"]:
            ctx.count("confirmed_votes_from_waiting_members", exp["waiting_votes"])
            if got == "drift" and exp["alarms"] == 0:
                ctx.count("confirmed_drift_without_new_alarm")
        if got == "warning":
            ctx.count("confirmed_warning_verdicts")
        nv = len(exp["voters"])
        if nv == cfg["sensitivity"]:
            ctx.count("confirmed_sensitivity_exactly_met")
        if nv + len(exp["warnings"]) == cfg["sensitivity"] and exp["warnings"]:
            ctx.count("confirmed_warning_threshold_exactly_met")
        if w == 0 and before is not None and exp["alarms"]:
            ctx.count("confirmed_wait0_alarm_expires_at_once")
        fam = cfg.get("family")
        if fam:
            ctx.count("confirmed_family_%s_calls" % fam)
            if fam == "sens0" and got == "drift" and not exp["voters"]:
                ctx.count("confirmed_sensitivity0_drift_without_any_voter")
            if fam == "sensfar" and len(exp["voters"]) == len(vec) and vec:
                ctx.count("confirmed_sensitivity_far_all_members_vote_still_none")
            if fam == "longwait" and exp["expired"]:
                ctx.count("confirmed_long_wait_expired", exp["expired"])
            if fam == "n0":
                ctx.count("confirmed_empty_member_list_calls")
        return {"verdict": got, "counters": cs}


def confirmed_task(task, seed):
    """Explorer run + proof of exhaustiveness over the counter-state space."""
    sysm = SYSTEMS["Confirmed"]
    cfg = task["cfg"]
    sysm.expanded = set()
    try:
        res = explorer.explore(sysm, task, seed, PROPERTY)
        expanded = sysm.expanded
    finally:
        sysm.expanded = None
    n, w = cfg["n"], cfg["wait_time"]
    if not res["violations"]:
        n_states = (w + 1) ** n + 1  # + the initial object whose counters are still None
        srcs = {b for b, _ in expanded}
        if len(srcs) != n_states or len(expanded) != n_states * 3 ** n or res["stats"].get("states") != n_states:
            raise HarnessError(
                "HARNESS-CRASH: ConfirmedElection exploration not exhaustive for %r: %d source states, "
                "%d (state, vector) pairs, explorer states=%r; expected %d / %d"
                % (cfg, len(srcs), len(expanded), res["stats"].get("states"), n_states, n_states * 3 ** n)
            )
        res["stats"]["confirmed_counter_states_reached"] = len(srcs) - 1
        res["stats"]["confirmed_state_vector_pairs"] = len(expanded)
    return res


# --------------------------------------------------------------------------
# part 2b: staggered alarms and long quiet stretches (n = 3)
# --------------------------------------------------------------------------
STAGGER_VARIANTS = ("quiet", "sustained", "pause")


def stagger_script(wait, offsets, variant, tail):
    """Member i alarms at call offsets[i]; afterwards
      quiet     -- it reports None (its waiting time runs out ``wait`` calls later),
      sustained -- it keeps reporting drift (so it alarms again in the call after its time ran out),
      pause     -- as quiet, but EVERY member reports warning in call number ``wait`` (for the member that alarmed in
                   call 0 that is the call of its last vote: the warning postpones it by exactly one call).
    ``tail`` quiet calls follow the last possible expiry."""
    horizon = max(offsets) + min(wait, 10 ** 4) + 2 + tail
    out = []
    for t in range(horizon):
        vec = []
        for d in offsets:
            if t == d:
                r = "drift"
            elif variant == "sustained" and t > d:
                r = "drift"
            elif variant == "pause" and t == wait:
                r = "warning"
            else:
                r = None
            vec.append(r)
        out.append(vec)
    return out


def stagger_offsets(wait):
    if wait <= 8:
        return list(range(0, wait + 3))  # every offset up to two calls after the first member's expiry
    if wait >= 10 ** 6:
        return [0, 1, 5]
    return [0, 1, 2, wait // 2, wait - 1, wait, wait + 1, wait + 2]


def stagger_task(task, seed):
    """n = 3: member 0 alarms in call 0, members 1 and 2 at every pair of offsets; lock-step with the model."""
    t0 = time.time()
    sysm = SYSTEMS["Confirmed"]
    ctx = Ctx(seed)
    st = ctx.stats
    violations, samples = [], []
    reported = Counter()
    wait = task["wait_time"]
    tail = 400 if wait >= 10 ** 6 else 3
    offs = stagger_offsets(wait)
    for sens in task["sensitivities"]:
        cfg = {"id": "CEstagger-s%d-w%d" % (sens, wait), "n": 3, "sensitivity": sens, "wait_time": wait, "family": "stagger"}
        for d1 in offs:
            for d2 in offs:
                for variant in STAGGER_VARIANTS:
                    script = stagger_script(wait, (0, d1, d2), variant, tail)
                    state = sysm.init(cfg)
                    st["states"] += 1
                    st["stagger_scripts"] += 1
                    st["stagger_scripts_%s" % variant] += 1
                    marks = 0
                    prev = None
                    try:
                        for pos, vec in enumerate(script):
                            ctx.marks = 0
                            obs = sysm.step(cfg, state, vec, pos, ctx)
                            st["transitions"] += 1
                            marks += 1 if ctx.marks else 0
                            cs = obs["counters"]
                            if wait < 10 ** 6:
                                nz = [c for c in cs if c]
                                if len(nz) >= 2 and len(set(nz)) == len(nz):
                                    st["stagger_members_at_different_points_of_their_wait"] += 1
                                if prev is not None:
                                    gone = sum(1 for a, b in zip(prev, cs) if a == wait and b == 0)
                                    if gone:
                                        st["stagger_expiry_exactly_after_wait_time_votes"] += gone
                                    if gone >= 2:
                                        st["stagger_two_members_expire_in_one_call"] += 1
                                    if gone and obs["verdict"] == "drift":
                                        st["stagger_drift_on_a_members_last_vote"] += 1
                                    if variant == "sustained" and any(a == 0 and b == 1 for a, b in zip(prev, cs)) and pos > max(d1, d2):
                                        st["stagger_realarm_right_after_expiry"] += 1
                                    if variant == "pause" and pos == wait and any(a == b != 0 for a, b in zip(prev, cs)):
                                        st["stagger_warning_postpones_last_vote"] += 1
                            elif pos == len(script) - 1 and all(c > 300 for c in cs):
                                st["stagger_never_expiring_counters_beyond_300"] += 1
                            prev = cs
                    except Violation as v:
                        st["violations_raw"] += 1
                        reported[v.sig] += 1
                        if reported[v.sig] <= 2:
                            evs = script[: pos + 1]
                            obs2, v2 = run_path(sysm, cfg, evs, seed)
                            if v2 is None:
                                raise HarnessError("HARNESS-NONDET: staggered-alarm violation did not reproduce: %r" % (cfg,))
                            violations.append(artefact(PROPERTY, sysm, cfg, seed, evs[: len(obs2) + 1], v2))
                        continue
                    st["executions"] += 1
                    if marks:
                        st["nontrivial_executions"] += 1
                    if len(samples) < 1 and variant == "pause" and d1 and d2 and d1 != d2:
                        samples.append({"system": sysm.name, "cfg": cfg, "events": script, "last_obs": obs, "nontrivial_events": marks})
    return {"stats": dict(st), "violations": violations, "samples": samples, "wall": time.time() - t0}


# --------------------------------------------------------------------------
# part 3: TLC state graph replayed on the real class
# --------------------------------------------------------------------------
class ScriptSys(System):
    """Replays a path of the TLC state graph: every event carries the votes and
    what the TLA+ model says the call returns / leaves in the counters."""

    name = "ConfirmedTLA"

    def init(self, cfg):
        return {"el": make_election("Confirmed", {"sensitivity": cfg["sensitivity"], "wait_time": cfg["wait_time"]})}

    def alphabet(self, cfg, state, pos):
        return []

    def step(self, cfg, state, ev, pos, ctx):
        el = state["el"]
        vec = list(ev["votes"])
        got = _call(el, vec, "Confirmed-tla")
        exp = {"verdict": ev["verdict"], "counters": ev["counters"]}
        try:
            _check_confirmed_call(cfg, el, vec, got, exp)
        except Violation as v:
            raise Violation(
                "tla-" + v.sub,
                "edge of the TLC state graph (tla/ConfirmedElection.tla): " + v.msg,
                expected=v.expected,
                observed=v.observed,
            )
        return {"verdict": got, "counters": list(el.wait_period_counters)}


_NODE = re.compile(r'^(-?\d+) \[label="(.*)"(,style = filled)?\];?$')
_EDGE = re.compile(r'^(-?\d+) -> (-?\d+) \[label="(.*?)",color=')


def _tla_vec(text):
    return [None if x == "none" else x for x in re.findall(r'"(\w+)"', text)]


def _parse_graph(path):
    """-> nodes {id: state}, edges as three parallel compact arrays (source id index, target id index, vector index),
    the list of node ids and the list of distinct vote vectors (the N = 4 graph has 2.3e6 edges)."""
    nodes = {}
    ids, id_index = [], {}
    vecs, vec_index = [], {}
    eu, ev, evec = array.array("l"), array.array("l"), array.array("h")

    def idx(nid):
        i = id_index.get(nid)
        if i is None:
            i = id_index[nid] = len(ids)
            ids.append(nid)
        return i

    with open(path) as f:
        for line in f:
            line = line.strip()
            m = _EDGE.match(line)
            if m:
                lab = m.group(3).replace('\\"', '"')
                a = re.match(r"Call\((<<.*>>)\)$", lab)
                if not a:
                    raise HarnessError("HARNESS-CRASH: unexpected TLC edge label %r" % lab)
                vi = vec_index.get(a.group(1))
                if vi is None:
                    vi = vec_index[a.group(1)] = len(vecs)
                    vecs.append(_tla_vec(a.group(1)))
                eu.append(idx(m.group(1)))
                ev.append(idx(m.group(2)))
                evec.append(vi)
                continue
            m = _NODE.match(line)
            if m:
                lab = m.group(2).replace('\\"', '"').replace("\\\\", "\\")
                var = dict(re.findall(r"/\\ (\w+) = (.*?)(?=\\n|$)", lab))
                nodes[idx(m.group(1))] = {
                    "verdict": var["verdict"].strip('"'),
                    "last": _tla_vec(var["last"]),
                    "c": [int(x) for x in re.findall(r"\d+", var["c"])],
                    "wait": int(var["wait"]),
                    "sens": int(var["sens"]),
                }
    return nodes, (eu, ev, evec), vecs


def run_tlc(workdir, consts):
    tlc = shutil.which("tlc")
    if tlc is None:
        raise HarnessError("HARNESS-CRASH: tlc not on PATH, cannot run the secondary TLA+ model")
    shutil.copy(os.path.join(HERE, "tla", "ConfirmedElection.tla"), workdir)
    # the committed .cfg carries the quick-tier constants; the bound of this run is substituted into the copy
    with open(os.path.join(HERE, "tla", "ConfirmedElection.cfg")) as f:
        text = f.read()
    for name, key in (("N", "n"), ("MaxWait", "wait_max"), ("MaxSens", "sens_max")):
        text, k = re.subn(r"(?m)^(\s*%s\s*=\s*)\d+\s*$" % name, lambda m: m.group(1) + str(consts[key]), text)
        if k != 1:
            raise HarnessError("HARNESS-CRASH: constant %s not found in tla/ConfirmedElection.cfg" % name)
    with open(os.path.join(workdir, "ConfirmedElection.cfg"), "w") as f:
        f.write(text)
    os.makedirs(os.path.join(workdir, "jtmp"))
    dot = os.path.join(workdir, "graph.dot")
    env = dict(os.environ)
    env["JAVA_TOOL_OPTIONS"] = "-Djava.io.tmpdir=%s -Xmx2g -XX:ParallelGCThreads=2" % os.path.join(workdir, "jtmp")
    cmd = [
        tlc, "-workers", "1", "-noGenerateSpecTE", "-metadir", os.path.join(workdir, "meta"),
        "-dump", "dot,actionlabels", dot, "-deadlock", "-config", "ConfirmedElection.cfg", "ConfirmedElection.tla",
    ]
    p = subprocess.run(cmd, cwd=workdir, env=env, stdout=subprocess.PIPE, stderr=subprocess.STDOUT, text=True, timeout=1800)
    out = p.stdout
    if p.returncode != 0 or "Model checking completed. No error has been found." not in out:
        # the TLA+ model violating its own invariants is a defect of the model, not of menelaus
        raise HarnessError("HARNESS-CRASH: TLC did not complete cleanly (rc=%d):\n%s" % (p.returncode, out[-3000:]))
    m = re.search(r"(\d+) states generated, (\d+) distinct states found", out)
    return dot, (int(m.group(1)), int(m.group(2))) if m else (0, 0)


def tla_task(task, seed):
    t0 = time.time()
    st = Counter()
    violations = []
    samples = []
    base = "/dev/shm" if os.path.isdir("/dev/shm") and os.access("/dev/shm", os.W_OK) else None
    workdir = tempfile.mkdtemp(prefix="c13-tlc-", dir=base)
    consts = task["consts"]
    try:
        dot, (generated, distinct) = run_tlc(workdir, consts)
        st["tlc_wall_ms"] = int(1000 * (time.time() - t0))
        nodes, (eu, ev, evec), vecs = _parse_graph(dot)
    finally:
        shutil.rmtree(workdir, ignore_errors=True)
    n = consts["n"]
    n_edges = len(eu)
    if len(nodes) != distinct or not n_edges or n_edges != len(nodes) * 3 ** n:
        raise HarnessError(
            "HARNESS-CRASH: TLC graph incomplete: %d nodes (TLC says %d distinct), %d edges" % (len(nodes), distinct, n_edges)
        )
    if any(nd["wait"] > consts["wait_max"] or nd["sens"] > consts["sens_max"] or len(nd["c"]) != n for nd in nodes.values()):
        raise HarnessError("HARNESS-CRASH: TLC graph was not computed for the constants %r" % (consts,))
    # outgoing edges per node, BFS paths from the initial states
    out = {}
    for j in range(n_edges):
        out.setdefault(eu[j], []).append(j)
    parent = {}
    q = deque()
    for nid, nd in nodes.items():
        if nd["verdict"] == "init":
            parent[nid] = None
            q.append(nid)
    n_init = len(parent)
    while q:
        u = q.popleft()
        if len(out.get(u, ())) != 3 ** n:
            raise HarnessError("HARNESS-CRASH: TLC node %s has %d outgoing edges" % (u, len(out.get(u, ()))))
        for j in out[u]:
            v = ev[j]
            if v not in parent:
                parent[v] = (u, evec[j])
                q.append(v)
    if len(parent) != len(nodes):
        raise HarnessError("HARNESS-CRASH: %d TLC nodes unreachable from the initial states" % (len(nodes) - len(parent)))

    def script_to(nid):
        evs = []
        while parent[nid] is not None:
            u, vi = parent[nid]
            evs.append({"votes": vecs[vi], "verdict": None if nodes[nid]["verdict"] == "none" else nodes[nid]["verdict"], "counters": nodes[nid]["c"]})
            nid = u
        evs.reverse()
        return evs

    sysm = SYSTEMS["ConfirmedTLA"]
    ctx = Ctx(seed, collect=False)
    cstates = set()
    reported = Counter()
    for u in out:
        nu = nodes[u]
        script = script_to(u)
        cfg = {"id": "tla-s%d-w%d" % (nu["sens"], nu["wait"]), "n": n, "sensitivity": nu["sens"], "wait_time": nu["wait"]}
        cstates.add((nu["wait"], nu["sens"], tuple(nu["c"]), nu["verdict"] == "init"))
        for j in out[u]:
            vec = vecs[evec[j]]
            nv = nodes[ev[j]]
            if nv["last"] != vec or (nu["wait"], nu["sens"]) != (nv["wait"], nv["sens"]):
                raise HarnessError("HARNESS-CRASH: TLC edge label %r does not match its target state %r" % (vec, nv))
            last = {"votes": vec, "verdict": None if nv["verdict"] == "none" else nv["verdict"], "counters": nv["c"]}
            state = sysm.init(cfg)  # every edge on a fresh object, along the BFS path to its source state
            try:
                for pos, e in enumerate(script):
                    sysm.step(cfg, state, e, pos, ctx)
                # the source state of the edge must be the TLA+ state
                cs = state["el"].wait_period_counters
                if (cs is None) != (nu["verdict"] == "init") or (cs is not None and list(cs) != nu["c"]):
                    raise Violation("tla-source-state", "replayed path ends in counters %r, TLC state has %r" % (cs, nu["c"]),
                                    expected=nu["c"], observed=cs)
                obs = sysm.step(cfg, state, last, len(script), ctx)
            except Violation as vio:
                st["violations_raw"] += 1
                reported[vio.sig] += 1
                if reported[vio.sig] <= 2:
                    evs = script + [last]
                    obs2, v2 = run_path(sysm, cfg, evs, seed)
                    if v2 is None:
                        raise HarnessError("HARNESS-NONDET: TLC edge violation did not reproduce: %r" % (evs,))
                    violations.append(artefact(PROPERTY, sysm, cfg, seed, evs[: len(obs2) + 1], v2))
                continue
            st["tla_edges_replayed"] += 1
            st["transitions"] += 1
            st["executions"] += 1
            if obs["verdict"] is not None:
                st["nontrivial_executions"] += 1
                st["tla_edges_verdict_" + obs["verdict"]] += 1
            else:
                st["tla_edges_verdict_none"] += 1
            if nu["wait"] and any(c == nu["wait"] for c in obs["counters"]):
                st["tla_edges_into_counter_at_wait_time"] += 1
            if len(samples) < 1 and obs["verdict"] == "warning" and len(script) >= 2:
                samples.append({"system": sysm.name, "cfg": cfg, "events": script + [last], "last_obs": obs, "nontrivial_events": 1})
    st["states"] = len(nodes)
    st["tla_states"] = len(nodes)
    st["tla_members"] = n
    st["tla_initial_states"] = n_init
    st["tla_states_generated_by_tlc"] = generated
    st["tla_counter_states"] = len(cstates)
    return {"stats": dict(st), "violations": violations, "samples": samples, "wall": time.time() - t0}


# --------------------------------------------------------------------------
# part 4 (round 5): TWO election objects alive in one process
# --------------------------------------------------------------------------
def _vectors(n):
    return [list(v) for v in itertools.product(REPORTS, repeat=n)]


def interleavings(x, y):
    """every merge of the two op lists that keeps the order inside each list"""
    if not x:
        yield list(y)
        return
    if not y:
        yield list(x)
        return
    for r in interleavings(x[1:], y):
        yield [x[0]] + r
    for r in interleavings(x, y[1:]):
        yield [y[0]] + r


_VERDICT_KEY = {(k, g): "pair_%s_verdict_%s" % (k, TAG[g]) for k in ("SimpleMajority", "MinimumApproval", "OrderedApproval", "Confirmed")
                for g in REPORTS}


def _side_text(side):
    p = side["params"]
    return "%s(%s) on %d members" % (side["kind"], ", ".join("%s=%r" % kv for kv in sorted(p.items())), side["n"])


class PairSys(System):
    """Two election objects ``a`` (index 0) and ``b`` (index 1), each with its OWN voting-rule model.  Events:
        ["new", k]          construct object k (its parameters are in cfg["a"] / cfg["b"])
        ["call", k, votes]  one call of object k
        ["sweep", k]        object k is called on EVERY vector of {None, warning, drift}^n_k (stateless rules)
        ["alt"]             for every ordered pair (v, v'): a(v) then b(v')   (strict alternation, every adjacent pair)
    After every call the verdict (and, for ConfirmedElection, the counters) of the called object is judged by its own
    model and the counters of the OTHER object must still be what its own last call left.  Nothing is demanded that a
    solo object would not have to satisfy: on code whose objects are independent the pair is two solo runs."""

    name = "ElectionPair"

    def init(self, cfg):
        n = max(cfg["a"]["n"], cfg["b"]["n"])
        return {"el": [None, None], "model": [None, None], "calls": [0, 0], "born_after_call_of_other": [False, False],
                "last": [None, None], "members": [Stub(None) for _ in range(n)] if cfg.get("share") else None}

    def alphabet(self, cfg, state, pos):
        return []

    # -- one judged call ------------------------------------------------------
    def _members(self, cfg, state, k, vec, st):
        pool = state["members"]
        if pool is None:
            return None
        for m, s in zip(pool, vec):
            m.drift_state = s
        st["pair_calls_on_the_callers_persistent_member_objects"] += 1
        if len(vec) == len(pool):
            if cfg["a"]["n"] == cfg["b"]["n"]:
                st["pair_calls_with_the_same_list_object_for_both_elections"] += 1
            return pool
        return pool[: len(vec)]

    @staticmethod
    def _where(cfg, state, k):
        side, other = cfg["ab"[k]], cfg["ab"[1 - k]]
        order = state["order"]
        if (1 - k) not in order:
            other_is = "not constructed yet"
        else:
            other_is = "constructed %s, called %d times" % ("earlier" if order.index(1 - k) < order.index(k) else "later", state["calls"][1 - k])
        return "two elections alive in one process: this one is %s = %s (call %d of it), the other is %s (%s)" % (
            "ab"[k], _side_text(side), state["calls"][k] + 1, _side_text(other), other_is)

    def _one(self, cfg, state, k, vec, ctx):
        side = cfg["ab"[k]]
        kind = side["kind"]
        el = state["el"][k]
        st = ctx.stats
        if el is None:
            raise HarnessError("HARNESS-CRASH: ElectionPair program calls object %d before constructing it" % k)
        members = self._members(cfg, state, k, vec, st)
        try:
            if kind == "Confirmed":
                got = _call(el, vec, "Confirmed", members)
                exp = state["model"][k].step(vec)
                _check_confirmed_call(side["params"], el, vec, got, exp)
            else:
                got = _call(el, vec, kind, members)
                if not _is_verdict(got, ("drift",)):
                    raise Violation(kind + "-range", "returned %r on votes %r; only \"drift\" or None are allowed" % (got, vec),
                                    expected=["drift", None], observed=repr(got))
                exp = state["model"][k].step(vec)
                if got != exp["verdict"]:
                    raise Violation(kind + "-rule", "on votes %r (%d of %d drift) returned %r, the voting rule says %r"
                                    % (vec, M.n_drift(vec), len(vec), got, exp["verdict"]), expected=exp["verdict"], observed=got)
        except Violation as v:
            raise Violation("Pair-" + v.sub, self._where(cfg, state, k) + ": " + v.msg, expected=v.expected, observed=v.observed)
        state["calls"][k] += 1
        if cfg["ab"[1 - k]]["kind"] == "Confirmed":
            self._other_untouched(cfg, state, 1 - k, "a call of the other object")
        # ---- anti-vacuity bookkeeping
        st["pair_calls"] += 1
        st[_VERDICT_KEY[kind, got]] += 1
        if got is not None:
            ctx.marks += 1
        lo = state["last"][1 - k]
        if state["el"][1 - k] is not None:
            st["pair_calls_while_both_objects_exist"] += 1
            if state["order"][-1] != k:
                st["pair_older_object_called_after_the_newer_one_was_constructed"] += 1
                if state["born_after_call_of_other"][1 - k]:
                    st["pair_object_called_again_after_the_other_was_constructed_in_between"] += 1
            if lo is not None:
                if lo[0] == vec:
                    if lo[1] != got:
                        st["pair_same_votes_different_verdicts_from_the_two_objects"] += 1
                elif len(lo[0]) == len(vec):
                    st["pair_adjacent_calls_with_different_votes"] += 1
        if kind == "Confirmed":
            if exp["alarms"] and self._waiting(state, 1 - k):
                st["pair_confirmed_alarm_while_the_other_object_has_waiting_members"] += 1
            if exp["waiting_votes"] and lo is not None:
                st["pair_confirmed_waiting_vote_after_a_call_of_the_other_object"] += 1
            if exp["expired"] and self._waiting(state, 1 - k):
                st["pair_confirmed_expiry_while_the_other_object_still_waits"] += 1
            if exp["warned_while_waiting"]:
                st["pair_confirmed_warning_while_waiting"] += 1
        state["last"][k] = (vec, got)
        return got

    @staticmethod
    def _waiting(state, k):
        m = state["model"][k]
        return m is not None and getattr(m, "left", None) is not None and any(m.left)

    def _other_untouched(self, cfg, state, k, what):
        """ConfirmedElection: the public counters of object k are read after an operation on the other object"""
        side = cfg["ab"[k]]
        el = state["el"][k]
        if el is None or side["kind"] != "Confirmed":
            return
        want = state["model"][k].expected_counters()
        cs = el.wait_period_counters
        if (None if cs is None else list(cs)) != want:
            raise Violation(
                "Pair-Confirmed-counters-changed-by-the-other-object",
                "two elections alive in one process: wait_period_counters of %s %s read %r after %s (%s); its own last "
                "call left %r" % ("ab"[k], _side_text(side), cs, what, _side_text(cfg["ab"[1 - k]]), want),
                expected=want, observed=None if cs is None else list(cs))

    def _obs(self, state):
        out = []
        for el in state["el"]:
            cs = getattr(el, "wait_period_counters", None) if el is not None else None
            out.append(None if cs is None else list(cs))
        return out

    def step(self, cfg, state, ev, pos, ctx):
        op = ev[0]
        state.setdefault("order", [])
        if op == "new":
            k = ev[1]
            side = cfg["ab"[k]]
            if state["el"][k] is not None:
                raise HarnessError("HARNESS-CRASH: ElectionPair program constructs object %d twice" % k)
            el = _construct(side["kind"], side["params"])
            _constructed(el, side["kind"], side["params"])
            state["el"][k] = el
            state["model"][k] = M.make_model(side["kind"], side["params"])
            state["order"].append(k)
            if state["calls"][1 - k]:
                state["born_after_call_of_other"][k] = True
                ctx.count("pair_object_constructed_after_the_other_was_called")
                if self._waiting(state, 1 - k):
                    ctx.count("pair_confirmed_constructed_while_the_other_object_has_waiting_members")
            self._other_untouched(cfg, state, 1 - k, "the construction of the other object")
            return {"new": k, "counters": self._obs(state)}
        if op == "call":
            got = self._one(cfg, state, ev[1], list(ev[2]), ctx)
            return {"verdict": got, "counters": self._obs(state)}
        if op == "sweep":
            k = ev[1]
            tally = Counter()
            for vec in _vectors(cfg["ab"[k]]["n"]):
                tally[TAG[self._one(cfg, state, k, vec, ctx)]] += 1
            ctx.count("pair_sweeps")
            return {"verdicts": dict(tally)}
        if op == "alt":
            tally = Counter()
            vb = _vectors(cfg["b"]["n"])
            for va in _vectors(cfg["a"]["n"]):
                for v2 in vb:
                    tally["a:" + TAG[self._one(cfg, state, 0, va, ctx)]] += 1
                    tally["b:" + TAG[self._one(cfg, state, 1, v2, ctx)]] += 1
            ctx.count("pair_alternations")
            return {"verdicts": dict(tally)}
        raise HarnessError("HARNESS-CRASH: unknown ElectionPair event %r" % (ev,))


VALIDATE_EVERY = 199


def _run_programs(cfg, programs, seed, ctx, out):
    """Every program on freshly constructed objects, every step judged.  The process-level state of menelaus is reset
    (mc.procstate) before the first program of a configuration; every VALIDATE_EVERY-th program and every violating one is
    executed again from a pristine process state and must give the same observations.  If it does not -- the code under
    test keeps state outside the objects -- ALL programs of the configuration are run again with a reset before each
    (so that every verdict is a function of the program alone and replays in a fresh process)."""
    sysm = SYSTEMS["ElectionPair"]
    st = ctx.stats
    snapshot = Counter(st)
    n_viol, n_samp = len(out["violations"]), len(out["samples"])
    reported = Counter(out["reported"])
    for fresh in (False, True):
        hidden = False
        procstate.reset()
        for i, prog in enumerate(programs):
            if fresh:
                procstate.reset()
            state = sysm.init(cfg)
            st["states"] += 1
            st["pair_programs"] += 1
            marks = 0
            pos = 0
            obs = None
            trace = []
            try:
                for pos, ev in enumerate(prog):
                    ctx.marks = 0
                    obs = sysm.step(cfg, state, ev, pos, ctx)
                    trace.append(obs)
                    st["transitions"] += 1
                    marks += 1 if ctx.marks else 0
            except Violation as v:
                evs = prog[: pos + 1]
                obs2, v2 = run_path(sysm, cfg, evs, seed)
                same = v2 is not None and (v2.sub, v2.msg) == (v.sub, v.msg) and len(obs2) == pos
                if not same:
                    if not fresh:
                        hidden = True
                        break
                    raise HarnessError("HARNESS-NONDET: two-object violation %r did not reproduce from scratch: cfg=%r events=%r"
                                       % (v.sub, cfg, evs))
                st["violations_raw"] += 1
                st["sig:" + str(v.sig)] += 1
                out["reported"][v.sig] += 1
                if out["reported"][v.sig] <= 2:
                    out["violations"].append(artefact(PROPERTY, sysm, cfg, seed, evs, v2))
                continue
            if not fresh and i % VALIDATE_EVERY == 0:
                obs2, v2 = run_path(sysm, cfg, prog, seed)
                if v2 is not None or not explorer._same(obs2, trace):
                    hidden = True
                    break
                st["fresh_replays"] += 1
            st["executions"] += 1
            if marks:
                st["nontrivial_executions"] += 1
            if len(out["samples"]) < 1 and marks and len(prog) >= 4:
                out["samples"].append({"system": sysm.name, "cfg": cfg, "events": prog, "last_obs": obs, "nontrivial_events": marks})
        if not hidden:
            break
        # start over, this time with a pristine process state before every program
        st.clear()
        st.update(snapshot)
        st["pair_configurations_rerun_with_a_process_state_reset_before_every_program"] += 1
        del out["violations"][n_viol:]
        del out["samples"][n_samp:]
        out["reported"] = Counter(reported)


# ---- stateless rules --------------------------------------------------------
def _pair_params(kind, n, small=False):
    if kind == "SimpleMajority":
        return [{}]
    if kind == "MinimumApproval":
        return [{"approvals_needed": a} for a in range(1, n + 2)]
    if small:
        return [{"approvals_needed": a, "confirmations_needed": c} for a in range(1, n + 1) for c in range(0, 3)]
    # a = 0 only with c >= 1 (see describe(): OrderedApproval(0, 0) is not judged)
    return [{"approvals_needed": a, "confirmations_needed": c} for a in range(0, n + 2) for c in range(0, n + 2) if a + c >= 1]


_SHORT = {"SimpleMajority": "SM", "MinimumApproval": "MA", "OrderedApproval": "OA", "Confirmed": "CE"}


def _pid(kind, p):
    return _SHORT[kind] + "".join("%s%d" % (k[0], v) for k, v in sorted(p.items()))


def _pair_cfg(ka, pa, na, kb, pb, nb, share=False):
    cfg = {"id": "pair-%s-n%d-%s-n%d%s" % (_pid(ka, pa), na, _pid(kb, pb), nb, "-shared" if share else ""),
           "a": {"kind": ka, "params": pa, "n": na}, "b": {"kind": kb, "params": pb, "n": nb}}
    if share:
        cfg["share"] = True
    return cfg


def votes_pair_cfgs(task):
    ka, kb, na, nb = task["kind_a"], task["kind_b"], task["n_a"], task["n_b"]
    small = bool(task.get("small"))
    pas = _pair_params(ka, max(na, nb), small)
    pbs = _pair_params(kb, max(na, nb), small)
    out = [(pa, pb) for pa in pas for pb in pbs]
    return out[task.get("part", 0):: task.get("parts", 1)]


SWEEP_PROGRAMS = list(interleavings([["new", 0], ["sweep", 0], ["sweep", 0]], [["new", 1], ["sweep", 1], ["sweep", 1]]))
ALT_PROGRAM = [["new", 0], ["new", 1], ["alt"]]
ALT_LATE_PROGRAM = [["new", 0], ["sweep", 0], ["new", 1], ["alt"]]


def votes_pair_task(task, seed):
    """Stateless rules: every ordered pair of parameter sets x every interleaving of (construct, sweep, sweep) of the two
    objects (a sweep = all vectors) + strict alternation over every ordered pair of vectors, the latter on the caller's
    persistent member objects (one list object handed to both elections when the lengths agree)."""
    t0 = time.time()
    ctx = Ctx(seed)
    out = {"violations": [], "samples": [], "reported": Counter()}
    ka, kb, na, nb = task["kind_a"], task["kind_b"], task["n_a"], task["n_b"]
    for pa, pb in votes_pair_cfgs(task):
        st = ctx.stats
        st["pair_object_pairs"] += 1
        st["pair_object_pairs_%s" % ("same_class" if ka == kb else "different_classes")] += 1
        if ka == kb:
            st["pair_object_pairs_%s_parameters" % ("same" if pa == pb else "different")] += 1
        if na != nb:
            st["pair_object_pairs_different_member_counts"] += 1
        _run_programs(_pair_cfg(ka, pa, na, kb, pb, nb), SWEEP_PROGRAMS, seed, ctx, out)
        # the second alternation (b constructed after a was swept) only where it is cheap (<= 81 pairs of vectors)
        alts = [ALT_PROGRAM, ALT_LATE_PROGRAM] if na + nb <= 4 else [ALT_PROGRAM]
        _run_programs(_pair_cfg(ka, pa, na, kb, pb, nb, share=True), alts, seed, ctx, out)
    return {"stats": dict(ctx.stats), "violations": out["violations"], "samples": out["samples"], "wall": time.time() - t0}


# ---- ConfirmedElection -------------------------------------------------------
def _confirmed_params(n, waits):
    return [{"sensitivity": s, "wait_time": w} for s in range(1, n + 2) for w in waits]


def confirmed_pair_cfgs(task):
    na, nb = task["n_a"], task["n_b"]
    pas = _confirmed_params(na, task["waits"])
    pbs = _confirmed_params(nb, task["waits"])
    out = [(pa, pb) for pa in pas for pb in pbs]
    return out[task.get("part", 0):: task.get("parts", 1)]


def confirmed_pair_tree_task(task, seed):
    """Every ordered pair of ConfirmedElection parameter sets x every pair of vote-vector histories of length h x every
    interleaving of [construct a, a's calls] with [construct b, b's calls], once on fresh stubs per call and once on the
    caller's persistent member objects."""
    t0 = time.time()
    ctx = Ctx(seed)
    out = {"violations": [], "samples": [], "reported": Counter()}
    na, nb, h = task["n_a"], task["n_b"], task["h"]
    ha = [list(x) for x in itertools.product(_vectors(na), repeat=h)]
    hb = [list(x) for x in itertools.product(_vectors(nb), repeat=h)]
    for pa, pb in confirmed_pair_cfgs(task):
        ctx.stats["pair_object_pairs"] += 1
        ctx.stats["pair_confirmed_object_pairs_%s_parameters" % ("same" if pa == pb and na == nb else "different")] += 1
        for share in task["share"]:
            cfg = _pair_cfg("Confirmed", pa, na, "Confirmed", pb, nb, share=share)
            programs = []
            for xa in ha:
                for xb in hb:
                    programs.extend(interleavings([["new", 0]] + [["call", 0, v] for v in xa],
                                                  [["new", 1]] + [["call", 1, v] for v in xb]))
            _run_programs(cfg, programs, seed, ctx, out)
    return {"stats": dict(ctx.stats), "violations": out["violations"], "samples": out["samples"], "wall": time.time() - t0}


def _joint_graph(pa, na, pb, nb):
    """Joint state space of the two MODELS (the real objects are not consulted): a state of one object is "U"
    (not constructed), None (constructed, never called) or the tuple of remaining votes per member.  -> {joint state:
    shortest program reaching it} in BFS order."""
    sides = ((pa, na, _vectors(na)), (pb, nb, _vectors(nb)))

    def succ(k, s, vec):
        p = sides[k][0]
        m = M.ConfirmedModel(p["sensitivity"], p["wait_time"])
        m.left = None if s is None else list(s)
        m.step(vec)
        return tuple(m.left)

    start = ("U", "U")
    progs = {start: []}
    q = deque([start])
    while q:
        j = q.popleft()
        for k in (0, 1):
            if j[k] == "U":
                moves = [(["new", k], None)]
            else:
                moves = [(["call", k, v], succ(k, j[k], v)) for v in sides[k][2]]
            for ev, s2 in moves:
                j2 = (s2, j[1]) if k == 0 else (j[0], s2)
                if j2 not in progs:
                    progs[j2] = progs[j] + [ev]
                    q.append(j2)
    return progs


def _enabled(j, na, nb):
    evs = []
    for k, n in ((0, na), (1, nb)):
        if j[k] == "U":
            evs.append(["new", k])
        else:
            evs.extend(["call", k, v] for v in _vectors(n))
    return evs


def confirmed_pair_reach_task(task, seed):
    """Every reachable JOINT state of two ConfirmedElection objects (each: not constructed / constructed / every counter
    state) x every sequence of ``tail`` enabled operations (construct either, call either on any vector); the joint
    state is reached on freshly constructed real objects along a shortest program, every step judged."""
    t0 = time.time()
    ctx = Ctx(seed)
    st = ctx.stats
    out = {"violations": [], "samples": [], "reported": Counter()}
    na, nb, tail = task["n_a"], task["n_b"], task["tail"]
    for pa, pb in confirmed_pair_cfgs(task):
        st["pair_object_pairs"] += 1
        st["pair_confirmed_object_pairs_%s_parameters" % ("same" if pa == pb and na == nb else "different")] += 1
        cfg = _pair_cfg("Confirmed", pa, na, "Confirmed", pb, nb, share=task["share"])
        graph = _joint_graph(pa, na, pb, nb)
        want = ((pa["wait_time"] + 1) ** na + 2) * ((pb["wait_time"] + 1) ** nb + 2)
        if len(graph) != want:
            raise HarnessError("HARNESS-CRASH: joint model state space of %r has %d states, expected %d" % (cfg["id"], len(graph), want))
        st["pair_confirmed_joint_states"] += len(graph)
        programs = []
        for j, prog in graph.items():
            if j[0] not in ("U", None) and j[1] not in ("U", None) and any(j[0]) and any(j[1]):
                st["pair_confirmed_joint_states_with_waiting_members_in_both_objects"] += 1
            tails = [[]]
            for _ in range(tail):
                nxt = []
                for tl in tails:
                    # the operations enabled after tl: only construction changes the enabled set
                    built = [j[0] != "U" or ["new", 0] in tl, j[1] != "U" or ["new", 1] in tl]
                    jj = (None if built[0] else "U", None if built[1] else "U")
                    nxt.extend(tl + [e] for e in _enabled(jj, na, nb))
                tails = nxt
            st["pair_confirmed_joint_state_x_operation_sequences"] += len(tails)
            programs.extend(prog + tl for tl in tails)
        _run_programs(cfg, programs, seed, ctx, out)
    return {"stats": dict(st), "violations": out["violations"], "samples": out["samples"], "wall": time.time() - t0}


# --------------------------------------------------------------------------
SYSTEMS = {"Votes": VoteSys(), "Confirmed": ConfirmedSys(), "ConfirmedTLA": ScriptSys(), "ElectionPair": PairSys()}

BOUNDS = {
    "quick": {"n_stateless": 5, "n_confirmed": 4, "wait_max": 3, "n_reuse": 4, "n_far": 3, "n_spell": 4},
    "thorough": {"n_stateless": 6, "n_confirmed": 5, "wait_max": 3, "n_reuse": 5, "n_far": 5, "n_spell": 5},
}
TLA_BOUNDS = {
    "quick": {"n": 3, "wait_max": 2, "sens_max": 4},
    # N = 4: TLC needs ~30 s, the graph has 28 513 states / 2 309 553 edges (measured), all replayed
    "thorough": {"n": 4, "wait_max": 2, "sens_max": 5},
}
# (n, wait_time) pairs whose complete counter-state space is explored besides the base grid
LONG_WAITS = {"quick": [(1, 40), (2, 9), (3, 6)], "thorough": [(1, 40), (2, 12), (3, 8), (4, 4)]}
STAGGER_WAITS = (5, 300, 10 ** 9)
SENS_FAR = (3, 10 ** 9)  # added to n


def _confirmed(n, s, w, fam=None, spell=False):
    cfg = {"id": "CE%s-n%d-s%d-w%d" % ("" if fam is None else fam, n, s, w), "n": n, "sensitivity": s, "wait_time": w}
    label = "Confirmed|n%d|s%d|w%d" % (n, s, w)
    if fam is not None:
        cfg["family"] = fam
        label = "Confirmed|fam-%s|n%d|s%d|w%d" % (fam, n, s, w)
    if spell:
        cfg["spell"] = True
    return {
        "fn": "confirmed_task",
        "system": "Confirmed",
        "cfg": cfg,
        "prefix": [],
        "depth": w + 2,
        "label": label,
        "cost": (w + 1) ** n * 3 ** n / 100.0,
    }


PAIR_BOUNDS = {
    # stateless: largest n per class for pairs of the same class / n values for pairs of different classes / (n_a, n_b)
    # with different member counts; ConfirmedElection: tree = (n_a, n_b, history length per object, wait_times),
    # reach = (n_a, n_b, operations after every joint state, wait_times)
    "quick": {"sm_n": 4, "ma_n": 4, "oa_n": 3, "cross_n": (2, 3), "mixed": ((0, 2), (2, 0), (1, 3), (3, 1), (2, 3), (3, 2)),
              "tree": ((1, 1, 2, (0, 1, 2)), (2, 2, 1, (0, 1, 2)), (1, 2, 1, (0, 1, 2)), (2, 1, 1, (0, 1, 2))),
              "reach": ((1, 1, 2, (0, 1, 2)), (2, 2, 1, (0, 1, 2)), (1, 2, 1, (0, 1, 2)), (2, 1, 1, (0, 1, 2)))},
    "thorough": {"sm_n": 5, "ma_n": 5, "oa_n": 4, "cross_n": (2, 3, 4), "mixed": ((0, 2), (2, 0), (1, 3), (3, 1), (2, 3), (3, 2), (1, 4), (4, 1)),
                 "tree": ((1, 1, 3, (0, 1, 2)), (2, 2, 1, (0, 1, 2, 3)), (1, 2, 2, (0, 1, 2)), (2, 1, 2, (0, 1, 2))),
                 "reach": ((1, 1, 3, (0, 1, 2, 3)), (2, 2, 2, (0, 1, 2)), (1, 2, 2, (0, 1, 2)), (2, 1, 2, (0, 1, 2)), (3, 3, 1, (0, 1)))},
}
STATELESS = ("SimpleMajority", "MinimumApproval", "OrderedApproval")


def pair_tasks(tier):
    """round 5: two election objects alive in one process (every task is an "fn" task on the ElectionPair system)"""
    pb = PAIR_BOUNDS[tier]
    out = []

    def votes(ka, kb, na, nb, small=False):
        n = max(na, nb)
        npairs = len(_pair_params(ka, n, small)) * len(_pair_params(kb, n, small))
        per_pair = 20 * 2 * (3 ** na + 3 ** nb) + (2 if na + nb <= 4 else 1) * 2 * 3 ** (na + nb)  # calls
        parts = max(1, min(16, int(npairs * per_pair / 150000.0)))
        for part in range(parts):
            out.append({"fn": "votes_pair_task", "kind_a": ka, "kind_b": kb, "n_a": na, "n_b": nb, "small": small,
                        "part": part, "parts": parts,
                        "label": "PairVotes|%sx%s|n%d,%d|part%d/%d" % (_SHORT[ka], _SHORT[kb], na, nb, part + 1, parts),
                        "cost": npairs * per_pair / parts / 1000.0})

    for kind, nmax in (("SimpleMajority", pb["sm_n"]), ("MinimumApproval", pb["ma_n"]), ("OrderedApproval", pb["oa_n"])):
        for n in range(1, nmax + 1):
            votes(kind, kind, n, n)
        for na, nb in pb["mixed"]:
            votes(kind, kind, na, nb, small=True)
    for ka in STATELESS:
        for kb in STATELESS:
            if ka != kb:
                for n in pb["cross_n"]:
                    votes(ka, kb, n, n, small=True)
    for na, nb, h, waits in pb["tree"]:
        npairs = len(_confirmed_params(na, waits)) * len(_confirmed_params(nb, waits))
        parts = max(1, min(16, npairs // 4))
        for part in range(parts):
            out.append({"fn": "confirmed_pair_tree_task", "n_a": na, "n_b": nb, "h": h, "waits": list(waits), "share": [False, True],
                        "part": part, "parts": parts,
                        "label": "PairConfirmed|tree|n%d,%d|h%d|part%d/%d" % (na, nb, h, part + 1, parts),
                        "cost": npairs * (3 ** (na + nb)) ** h * 20 / parts / 100.0})
    for na, nb, tail, waits in pb["reach"]:
        npairs = len(_confirmed_params(na, waits)) * len(_confirmed_params(nb, waits))
        parts = max(1, min(16, npairs // 4))
        for part in range(parts):
            out.append({"fn": "confirmed_pair_reach_task", "n_a": na, "n_b": nb, "tail": tail, "waits": list(waits), "share": True,
                        "part": part, "parts": parts,
                        "label": "PairConfirmed|reach|n%d,%d|tail%d|part%d/%d" % (na, nb, tail, part + 1, parts),
                        "cost": npairs * (3 ** na + 3 ** nb) ** tail * 50 / parts / 100.0})
    return out


def tasks(tier, seed):
    b = BOUNDS[tier]
    out = []
    for n in range(0, b["n_stateless"] + 1):  # n = 0 (the empty member list) is a round-3 family
        for kind in ("SimpleMajority", "MinimumApproval", "OrderedApproval"):
            out.append(
                {
                    "fn": "stateless_task",
                    "kind": kind,
                    "n": n,
                    "label": "Votes|%s|n%d" % (kind, n),
                    "cost": 3 ** n * (n + 2) ** (2 if kind == "OrderedApproval" else 1) / 1000.0,
                }
            )
    for n in range(1, b["n_confirmed"] + 1):
        for w in range(0, b["wait_max"] + 1):
            for s in range(1, n + 2):
                out.append(_confirmed(n, s, w))
    out.append({"fn": "tla_task", "consts": TLA_BOUNDS[tier], "label": "ConfirmedTLA|tlc|n%d" % TLA_BOUNDS[tier]["n"], "cost": 1e9})
    base, out = out, []

    # ---- round 3 ----------------------------------------------------------
    for kind in ("MinimumApproval", "OrderedApproval"):
        for n in range(0, b["n_far"] + 1):
            out.append({"fn": "stateless_task", "family": "far", "kind": kind, "n": n,
                        "label": "VotesFar|%s|n%d" % (kind, n), "cost": 3 ** n / 50.0})
    for n in range(0, b["n_far"] + 1):
        out.append({"fn": "stateless_task", "family": "zero", "kind": "OrderedApproval", "n": n,
                    "label": "VotesZero|OrderedApproval|n%d" % n, "cost": 3 ** n / 100.0})
    for kind in ("SimpleMajority", "MinimumApproval", "OrderedApproval"):
        out.append({"fn": "stateless_task", "family": "reuse", "kind": kind, "n": b["n_reuse"],
                    "label": "VotesReuse|%s|n0..%d" % (kind, b["n_reuse"]), "cost": 3 ** b["n_reuse"] / 10.0})
        for n in range(1, b["n_spell"] + 1):
            out.append({"fn": "stateless_task", "family": "spell", "kind": kind, "n": n,
                        "label": "VotesSpell|%s|n%d" % (kind, n), "cost": 3 ** n * (n + 2) / 200.0})
    for w in (0, 2):
        for s in (0, 1, 2):
            out.append(_confirmed(0, s, w, "n0"))
    for n in (1, 2, 3):
        for w in (0, 1, 2):
            out.append(_confirmed(n, 0, w, "sens0"))
            for f in SENS_FAR:
                out.append(_confirmed(n, n + f, w, "sensfar"))
    for w in (0, 1, 2):
        for s in (1, 2, 3, 4):
            out.append(_confirmed(3, s, w, "spell", spell=True))
    for n, w in LONG_WAITS[tier]:
        for s in sorted({1, n, n + 1} if n > 1 else {1, 2}):
            out.append(_confirmed(n, s, w, "longwait"))
    for w in STAGGER_WAITS:
        for s in (1, 2, 3):
            out.append({"fn": "stagger_task", "wait_time": w, "sensitivities": [s],
                        "label": "ConfirmedStagger|w%d|s%d" % (w, s), "cost": 50 if w == 300 else 5})
    out.extend(pair_tasks(tier))
    # VERIF_ROUND3=off / only: run the pre-round-3 tasks / the round-3 families alone (used to show which family
    # catches a mutant; the default is everything).  "Votes|*|n0" counts as round 3.
    n0 = [t for t in base if t["label"].startswith("Votes|") and t["label"].endswith("|n0")]
    base = [t for t in base if t not in n0]
    if ROUND3 == "off":
        return base
    if ROUND3 == "only":
        return n0 + out
    return base + out


ROUND3 = os.environ.get("VERIF_ROUND3", "")

_REQUIRED = [
    # every verdict of every election
    "SimpleMajority_verdict_drift",
    "SimpleMajority_verdict_none",
    "MinimumApproval_verdict_drift",
    "MinimumApproval_verdict_none",
    "OrderedApproval_verdict_drift",
    "OrderedApproval_verdict_none",
    "Confirmed_verdict_drift",
    "Confirmed_verdict_warning",
    "Confirmed_verdict_none",
    # thresholds met exactly / missed by one / unreachable
    "majority_exact_half_is_not_drift",
    "majority_smallest_majority_is_drift",
    "approval_threshold_exactly_met",
    "approval_one_short",
    "approval_threshold_above_n_never_drift",
    "approval_warnings_do_not_count",
    "monotone_pairs_checked",
    # ConfirmedElection state space
    "confirmed_counter_states_reached",
    "confirmed_counter_at_wait_time",
    "confirmed_voter_turned_warning_while_waiting",
    "confirmed_wait_expired",
    "confirmed_votes_from_waiting_members",
    "confirmed_drift_without_new_alarm",
    "confirmed_sensitivity_exactly_met",
    "confirmed_warning_threshold_exactly_met",
    "confirmed_wait0_alarm_expires_at_once",
    # secondary model
    "tla_edges_replayed",
    "tla_edges_verdict_drift",
    "tla_edges_verdict_warning",
    "tla_edges_verdict_none",
    "tla_edges_into_counter_at_wait_time",
    # ---- round 3 (nothing here depends on VERIF_SEED: the check draws no random numbers) ----
    "empty_member_list_calls",
    "empty_member_list_SimpleMajority",
    "empty_member_list_MinimumApproval",
    "empty_member_list_OrderedApproval",
    "confirmed_empty_member_list_calls",
    "far_parameter_calls",
    "far_parameter_all_members_drift_still_none",
    "ordered_zero_approvals_calls",
    "ordered_zero_approvals_threshold_exactly_met",
    "reuse_length_changed_between_calls",
    "reuse_shorter_list_after_longer",
    "reuse_none_right_after_drift_on_another_length",
    "spelled_report_equal_but_not_identical",
    "spelled_report_rebuilt_str",
    "spelled_report_numpy_str",
    "spelled_report_str_subclass",
    "spelled_member_kind_PropStub",
    "spelled_member_kind_SlotStub",
    "spelled_member_kind_real_stream",
    "spelled_member_kind_real_batch",
    "confirmed_family_n0_calls",
    "confirmed_family_sens0_calls",
    "confirmed_sensitivity0_drift_without_any_voter",
    "confirmed_family_sensfar_calls",
    "confirmed_sensitivity_far_all_members_vote_still_none",
    "confirmed_family_spell_calls",
    "confirmed_family_longwait_calls",
    "confirmed_long_wait_expired",
    "confirmed_family_stagger_calls",
    "stagger_scripts_quiet",
    "stagger_scripts_sustained",
    "stagger_scripts_pause",
    "stagger_members_at_different_points_of_their_wait",
    "stagger_expiry_exactly_after_wait_time_votes",
    "stagger_two_members_expire_in_one_call",
    "stagger_drift_on_a_members_last_vote",
    "stagger_realarm_right_after_expiry",
    "stagger_warning_postpones_last_vote",
    "stagger_never_expiring_counters_beyond_300",
    "tla_members",
    # ---- round 5: two election objects alive in one process (no random numbers anywhere) ----
    "pair_programs",
    "pair_calls",
    "pair_sweeps",
    "pair_alternations",
    "pair_object_pairs_same_class",
    "pair_object_pairs_different_classes",
    "pair_object_pairs_same_parameters",
    "pair_object_pairs_different_parameters",
    "pair_object_pairs_different_member_counts",
    "pair_object_constructed_after_the_other_was_called",
    "pair_older_object_called_after_the_newer_one_was_constructed",
    "pair_object_called_again_after_the_other_was_constructed_in_between",
    "pair_same_votes_different_verdicts_from_the_two_objects",
    "pair_adjacent_calls_with_different_votes",
    "pair_calls_on_the_callers_persistent_member_objects",
    "pair_calls_with_the_same_list_object_for_both_elections",
    "pair_SimpleMajority_verdict_drift",
    "pair_SimpleMajority_verdict_none",
    "pair_MinimumApproval_verdict_drift",
    "pair_MinimumApproval_verdict_none",
    "pair_OrderedApproval_verdict_drift",
    "pair_OrderedApproval_verdict_none",
    "pair_Confirmed_verdict_drift",
    "pair_Confirmed_verdict_warning",
    "pair_Confirmed_verdict_none",
    "pair_confirmed_object_pairs_same_parameters",
    "pair_confirmed_object_pairs_different_parameters",
    "pair_confirmed_alarm_while_the_other_object_has_waiting_members",
    "pair_confirmed_constructed_while_the_other_object_has_waiting_members",
    "pair_confirmed_expiry_while_the_other_object_still_waits",
    "pair_confirmed_waiting_vote_after_a_call_of_the_other_object",
    "pair_confirmed_warning_while_waiting",
    "pair_confirmed_joint_states",
    "pair_confirmed_joint_states_with_waiting_members_in_both_objects",
    "pair_confirmed_joint_state_x_operation_sequences",
]
_R3_AT = _REQUIRED.index("empty_member_list_calls")


def REQUIRED(tier):
    if ROUND3 == "off":
        return _REQUIRED[:_R3_AT]
    if ROUND3 == "only":
        return [r for r in _REQUIRED[_R3_AT:] if r != "tla_members"]
    return list(_REQUIRED)


def describe(tier):
    b = BOUNDS[tier]
    pb = PAIR_BOUNDS[tier]
    return {
        "rule": "(1) every vector of {None,warning,drift}^n for every n and every parameter value in the bound, on stub "
        "members, one election object per parameter set; (2) ConfirmedElection: depth-first search with the "
        "wait_period_counters as transposition key until every reachable counter state has been expanded with every "
        "vote vector (checked: (wait+1)^n states x 3^n vectors per parameter set); (3) every edge of the state graph "
        "TLC computes for tla/ConfirmedElection.tla replayed on the real class from a fresh object along a BFS path. "
        "Round 3: the same enumeration for n = 0, for thresholds far above n, for OrderedApproval(0, c >= 1), for one "
        "election object serving member lists of all lengths 0..N interleaved, for reports in other legal spellings "
        "on other kinds of member objects; ConfirmedElection additionally with n = 0, sensitivity 0 / far above n, "
        "spelled reports, long waits (complete counter-state space) and scripted staggered alarms (n = 3, every pair "
        "of offsets) with long quiet stretches in lock-step with the model. "
        "Round 5 (two election objects alive in one process, system ElectionPair, every object judged by its OWN "
        "voting-rule model): stateless rules -- every ordered pair of parameter sets of the same class (same and different "
        "parameters, also different member counts) and of different classes x all 20 interleavings of (construct, sweep, "
        "sweep) of the two objects (a sweep = every vote vector; so either construction order, and the second object "
        "constructed before / between / after the sweeps of the first) + strict alternation a(v) b(v') over EVERY ordered "
        "pair of vectors on the caller's persistent member objects (the same list object handed to both elections); "
        "ConfirmedElection -- tree: every ordered pair of parameter sets x every pair of vote-vector histories of length h "
        "x every interleaving of [construct, calls] of the two objects, on fresh stubs and on persistent members; reach: "
        "every joint state of the two per-object models (not constructed / constructed / every counter state) reached on "
        "fresh real objects along a shortest program x every sequence of `tail` enabled operations; after every operation "
        "the counters of the object that was NOT operated on are read and must be what its own last call left. Every "
        "program runs on freshly constructed objects; every 199th and every violating one is repeated from a pristine "
        "process state (mc.procstate) and must agree, else the configuration is run again with a reset before every program. "
        "An execution is one election call compared with the rule (round 5: one program); non-trivial = verdict other than None",
        "bounds": {
            "reports": ["None", "warning", "drift"],
            "stateless_n": [0, b["n_stateless"]],
            "approvals_needed": "1..n+1",
            "confirmations_needed": "0..n+1",
            "confirmed_n": [1, b["n_confirmed"]],
            "confirmed_sensitivity": "1..n+1",
            "confirmed_wait_time": [0, b["wait_max"]],
            "tla": TLA_BOUNDS[tier],
            "round3": {
                "far_thresholds": ["n+%d" % f for f in FAR],
                "far_n": [0, b["n_far"]],
                "ordered_zero_approvals": "a = 0, c = 1..n+1, n = 0..%d" % b["n_far"],
                "reuse_lengths": "0..%d interleaved (N,0,N-1,1,...), MinimumApproval a = 1..N+1, OrderedApproval a = 1..N x c = 0..2" % b["n_reuse"],
                "spellings": ["literal", "equal str rebuilt at run time", "numpy.str_", "str subclass"],
                "member_kinds": ["attribute stub", "property stub", "__slots__ stub", "DDM (state set through the setter)", "HDDDM (same)"],
                "spell_n": [1, b["n_spell"]],
                "confirmed_n0": "n = 0, sensitivity 0..2, wait_time 0 and 2",
                "confirmed_sensitivity_0_and_far": "n = 1..3, wait_time 0..2, sensitivity 0, n+3, n+10^9",
                "confirmed_spelled": "n = 3, wait_time 0..2, sensitivity 1..4",
                "confirmed_long_waits_(n,wait)": LONG_WAITS[tier],
                "stagger": {"n": 3, "wait_times": list(STAGGER_WAITS), "sensitivities": [1, 2, 3], "variants": list(STAGGER_VARIANTS),
                            "offsets": "wait 5: every pair from 0..7; wait 300: every pair from {0,1,2,150,299,300,301,302}; "
                            "wait 10^9: every pair from {0,1,5} followed by 400 quiet calls"},
            },
            "round5_two_objects": {
                "stateless_same_class": "SimpleMajority n = 1..%d; MinimumApproval n = 1..%d, a = 1..n+1; OrderedApproval n = 1..%d, "
                "a = 0..n+1 x c = 0..n+1 (a + c >= 1); every ORDERED pair of parameter sets" % (pb["sm_n"], pb["ma_n"], pb["oa_n"]),
                "stateless_different_member_counts_(n_a,n_b)": [list(x) for x in pb["mixed"]],
                "stateless_different_classes": "every ordered pair of distinct classes, n = %s; MinimumApproval a = 1..n+1, "
                "OrderedApproval a = 1..n x c = 0..2 (also used for the different-member-count pairs)" % (list(pb["cross_n"]),),
                "stateless_programs": "20 interleavings of [new a, sweep a, sweep a] with [new b, sweep b, sweep b]; [new a, new b, alt]; "
                "[new a, sweep a, new b, alt] when 3^(n_a+n_b) <= 81; alt = a(v) b(v') for every ordered pair (v, v'), on persistent members",
                "confirmed_parameters": "sensitivity 1..n+1 x the wait_times listed, every ordered pair",
                "confirmed_tree_(n_a,n_b,h,wait_times)": [[a, b_, h, list(w)] for a, b_, h, w in pb["tree"]],
                "confirmed_reach_(n_a,n_b,tail,wait_times)": [[a, b_, t, list(w)] for a, b_, t, w in pb["reach"]],
            },
        },
        "explanation": "states = election objects x vote vectors (stateless rules) + reachable ConfirmedElection counter "
        "states + TLC states; traces_validated_against_impl = election calls on the real classes compared with the "
        "rule (stateless: one per vector and parameter set; ConfirmedElection: maximal DFS paths; staggered scripts: one per script) "
        "plus the TLC edges replayed on the real class (counter tla_edges_replayed)",
        "assumptions": [
            "members are seen by an election only through their drift_state attribute (stubs)",
            "\"newly reports drift\" = reports drift while its wait counter is 0 (DESIGN §4 C13); with wait_time 0 a member "
            "that keeps reporting drift is a voter in every call",
            "wait_period_counters[i] is read as 'voting calls since member i's alarm, 0 when idle' (property anchor)",
            "TLC (tla2tools) is trusted to enumerate the state graph of the secondary model; the graph is then checked "
            "edge by edge against the implementation, not against the Python model",
            "the empty member list is inside 'every list of detector states': 0 alarms, so None unless the threshold is 0",
            "parameter 0: ConfirmedElection(sensitivity=0) (always drift: 0 voters reach it) and OrderedApproval(0, c>=1) "
            "are explored; MinimumApproval(0) is outside the documented domain ('can be 1 to the maximum number of "
            "detectors') and OrderedApproval(0, 0) is degenerate (the literal rule says 'always drift', the class "
            "answers only when some member alarms): both are left out, not judged",
            "legal spellings of a report are None and any str equal to \"drift\" / \"warning\" (what the drift_state setter "
            "of every detector accepts); other values (\"Drift\", False, 0, \"\") are not legal and not used",
            "one ConfirmedElection object is never called with member lists of different lengths: its counters are "
            "sized by the first call and the documentation promises nothing for a changing number of members",
            "round 5: two elections in one process owe each other nothing -- each is judged by its own rule exactly as a solo "
            "object would be; handing the same member objects / the same list object to two elections is legal (an election "
            "only reads drift_state); pairs of a ConfirmedElection with a stateless election are not explored; the joint "
            "ConfirmedElection state space is enumerated from the per-object MODELS and then reached on the real objects, "
            "state kept by a changed implementation outside wait_period_counters is covered only as far as the tree programs "
            "(all histories of length h) and the `tail` operations after every joint state reach",
        ],
    }
