"""C13 — each election returns exactly what its voting rule says for every vote pattern.

Three parts (DESIGN §4 C13):

1. SimpleMajority / MinimumApproval(a) / OrderedApproval(a, c): EVERY vector in
   {None, warning, drift}^n for n = 1..5 (6 thorough), a = 1..n+1, c = 0..n+1, on
   stub members that expose nothing but ``drift_state``.  Oracle: the counting
   predicates of models/election.py; result is exactly "drift" or None; turning
   one more member to drift never retracts a drift verdict.  One election object
   per parameter set serves all vectors (the rule is per call, whatever came
   before).
2. ConfirmedElection(sensitivity 1..n+1, wait_time 0..3), n <= 4 (5 thorough):
   reachable-state exploration over ``wait_period_counters`` (transposition key =
   the counters) -- every reachable counter state x every vote vector, lock-step
   with the state machine of models/election.py, invariant 0 <= c_i <= wait_time.
   The task checks afterwards that all (wait_time+1)^n counter states were
   reached and each was expanded with all 3^n vectors.
3. Secondary TLA+ model tla/ConfirmedElection.tla (n = 3, wait <= 2,
   sensitivities 1..4): TLC checks the counter invariant and dumps the labelled
   state graph; EVERY edge is replayed on the real class (source state reached
   by replaying a BFS path) and verdict + counters are compared.
"""
import itertools
import os
import re
import shutil
import subprocess
import tempfile
import time
from collections import Counter, deque

from menelaus.ensemble import (
    ConfirmedElection,
    MinimumApprovalElection,
    OrderedApprovalElection,
    SimpleMajorityElection,
)

from mc import explorer
from mc.explorer import Ctx, HarnessError, System, Violation, artefact, run_path
from models import election as M

PROPERTY = "C13"
HERE = os.path.dirname(os.path.dirname(os.path.abspath(__file__)))
REPORTS = (None, "warning", "drift")
TAG = {None: "none", "warning": "warning", "drift": "drift"}


class Stub:
    """A member as an election sees it: an object with a ``drift_state``."""

    def __init__(self, state):
        self.drift_state = state


def stubs(vec):
    return [Stub(s) for s in vec]


def make_election(kind, params):
    if kind == "SimpleMajority":
        return SimpleMajorityElection()
    if kind == "MinimumApproval":
        return MinimumApprovalElection(approvals_needed=params["approvals_needed"])
    if kind == "OrderedApproval":
        return OrderedApprovalElection(
            approvals_needed=params["approvals_needed"],
            confirmations_needed=params["confirmations_needed"],
        )
    if kind == "Confirmed":
        return ConfirmedElection(sensitivity=params["sensitivity"], wait_time=params["wait_time"])
    raise ValueError(kind)


def _call(el, vec, sub):
    try:
        return el(stubs(vec))
    except Exception as e:  # the property allows no exception on any vote pattern
        raise Violation(
            sub + "-exception",
            "%s raised %s: %s on votes %r" % (type(el).__name__, type(e).__name__, e, list(vec)),
            expected="a verdict",
            observed=repr(e),
        )


def _is_verdict(r, allowed):
    return r is None or (type(r) is str and r in allowed)


# --------------------------------------------------------------------------
# part 1: stateless rules
# --------------------------------------------------------------------------
class VoteSys(System):
    """One election object, one vote vector per event."""

    name = "Votes"

    def init(self, cfg):
        return {"el": make_election(cfg["kind"], cfg["params"]), "model": M.make_model(cfg["kind"], cfg["params"])}

    def alphabet(self, cfg, state, pos):
        return [list(v) for v in itertools.product(REPORTS, repeat=cfg["n"])]

    def step(self, cfg, state, ev, pos, ctx):
        kind = cfg["kind"]
        el = state["el"]
        vec = list(ev)
        got = _call(el, vec, kind)
        if not _is_verdict(got, ("drift",)):
            raise Violation(
                kind + "-range",
                "%s%r returned %r on votes %r; only \"drift\" or None are allowed" % (kind, cfg["params"], got, vec),
                expected=["drift", None],
                observed=repr(got),
            )
        exp = state["model"].step(vec)["verdict"]
        k = M.n_drift(vec)
        if got != exp:
            raise Violation(
                kind + "-rule",
                "%s%r on votes %r (%d of %d drift) returned %r, the voting rule says %r"
                % (kind, cfg["params"], vec, k, len(vec), got, exp),
                expected=exp,
                observed=got,
            )
        ctx.count("%s_verdict_%s" % (kind, TAG[got]))
        if got == "drift":
            ctx.mark()
            # one more member turning to drift must not retract the verdict
            for i, s in enumerate(vec):
                if s != "drift":
                    v2 = vec[:i] + ["drift"] + vec[i + 1 :]
                    g2 = _call(el, v2, kind)
                    ctx.count("monotone_pairs_checked")
                    if g2 != "drift":
                        raise Violation(
                            kind + "-monotone",
                            "%s%r: drift on votes %r but %r after member %d also turned to drift (%r)"
                            % (kind, cfg["params"], vec, g2, i, v2),
                            expected="drift",
                            observed=g2,
                        )
        # anti-vacuity bookkeeping
        n = len(vec)
        if kind == "SimpleMajority":
            if 2 * k == n:
                ctx.count("majority_exact_half_is_not_drift")
            if 2 * k == n + 1:
                ctx.count("majority_smallest_majority_is_drift")
        else:
            need = cfg["params"]["approvals_needed"] + cfg["params"].get("confirmations_needed", 0)
            if k == need:
                ctx.count("approval_threshold_exactly_met")
            if k == need - 1:
                ctx.count("approval_one_short")
            if need > n:
                ctx.count("approval_threshold_above_n_never_drift")
            if "warning" in vec and k == need - 1:
                ctx.count("approval_warnings_do_not_count")
        return {"verdict": got}


def stateless_cfgs(kind, n):
    if kind == "SimpleMajority":
        return [{"id": "SM-n%d" % n, "kind": kind, "n": n, "params": {}}]
    if kind == "MinimumApproval":
        return [
            {"id": "MA-n%d-a%d" % (n, a), "kind": kind, "n": n, "params": {"approvals_needed": a}}
            for a in range(1, n + 2)
        ]
    return [
        {
            "id": "OA-n%d-a%d-c%d" % (n, a, c),
            "kind": kind,
            "n": n,
            "params": {"approvals_needed": a, "confirmations_needed": c},
        }
        for a in range(1, n + 2)
        for c in range(0, n + 2)
    ]


def stateless_task(task, seed):
    """All vectors of {None, warning, drift}^n on one election object per parameter set."""
    t0 = time.time()
    sysm = SYSTEMS["Votes"]
    ctx = Ctx(seed)
    st = ctx.stats
    violations = []
    samples = []
    for cfg in stateless_cfgs(task["kind"], task["n"]):
        state = sysm.init(cfg)
        st["states"] += 1
        history = []
        reported = Counter()
        for pos, vec in enumerate(sysm.alphabet(cfg, state, 0)):
            history.append(vec)
            ctx.marks = 0
            try:
                obs = sysm.step(cfg, state, vec, pos, ctx)
            except Violation as v:
                st["violations_raw"] += 1
                reported[v.sig] += 1
                if reported[v.sig] <= 2:
                    # minimal artefact if the single call reproduces on a fresh object
                    _, v1 = run_path(sysm, cfg, [vec], seed)
                    if v1 is not None and v1.sub == v.sub:
                        violations.append(artefact(PROPERTY, sysm, cfg, seed, [vec], v1))
                    else:
                        obs2, v2 = run_path(sysm, cfg, history, seed)
                        if v2 is None:
                            raise HarnessError(
                                "HARNESS-NONDET: %s on %r did not reproduce from scratch" % (v.sub, cfg)
                            )
                        violations.append(artefact(PROPERTY, sysm, cfg, seed, history[: len(obs2) + 1], v2))
                continue
            st["transitions"] += 1
            st["executions"] += 1
            st["states"] += 1
            if ctx.marks:
                st["nontrivial_executions"] += 1
            if len(samples) < 2 and ctx.marks:
                samples.append(
                    {"system": sysm.name, "cfg": cfg, "events": [vec], "last_obs": obs, "nontrivial_events": 1}
                )
    return {"stats": dict(st), "violations": violations, "samples": samples, "wall": time.time() - t0}


# --------------------------------------------------------------------------
# part 2: ConfirmedElection, reachable counter states x all vectors
# --------------------------------------------------------------------------
def _check_confirmed_call(cfg, el, vec, got, exp, ctx=None):
    """Oracle for one ConfirmedElection call (shared by the explorer and the TLC replay)."""
    w = cfg["wait_time"]
    label = "ConfirmedElection(sensitivity=%d, wait_time=%d)" % (cfg["sensitivity"], w)
    if not _is_verdict(got, ("drift", "warning")):
        raise Violation(
            "Confirmed-range",
            "%s returned %r on votes %r" % (label, got, vec),
            expected=["drift", "warning", None],
            observed=repr(got),
        )
    cs = el.wait_period_counters
    ok_shape = isinstance(cs, list) and len(cs) == len(vec) and all(type(c) is int for c in cs)
    if not ok_shape or any(c < 0 or c > w for c in cs):
        raise Violation(
            "Confirmed-counter-range",
            "%s: wait_period_counters %r after votes %r leave 0..%d" % (label, cs, vec, w),
            expected="%d counters in 0..%d" % (len(vec), w),
            observed=repr(cs),
        )
    if got != exp["verdict"]:
        detail = ""
        if "voters" in exp:
            detail = " with voters %r and warnings %r" % (exp["voters"], exp["warnings"])
        raise Violation(
            "Confirmed-verdict",
            "%s on votes %r%s: returned %r, the rule says %r" % (label, vec, detail, got, exp["verdict"]),
            expected=exp["verdict"],
            observed=got,
        )
    if list(cs) != list(exp["counters"]):
        raise Violation(
            "Confirmed-counters",
            "%s after votes %r: wait_period_counters %r, expected %r" % (label, vec, cs, exp["counters"]),
            expected=exp["counters"],
            observed=list(cs),
        )


class ConfirmedSys(System):
    name = "Confirmed"

    def __init__(self):
        self.expanded = None  # set of (counter state before the call, vote vector) when tracking

    def init(self, cfg):
        p = {"sensitivity": cfg["sensitivity"], "wait_time": cfg["wait_time"]}
        return {"el": make_election("Confirmed", p), "model": M.make_model("Confirmed", p)}

    def alphabet(self, cfg, state, pos):
        return [list(v) for v in itertools.product(REPORTS, repeat=cfg["n"])]

    def key(self, cfg, state, pos):
        cs = state["el"].wait_period_counters
        return (None if cs is None else tuple(cs), state["model"].canon())

    def step(self, cfg, state, ev, pos, ctx):
        el = state["el"]
        vec = list(ev)
        before = el.wait_period_counters
        before = None if before is None else tuple(before)
        got = _call(el, vec, "Confirmed")
        exp = state["model"].step(vec)
        _check_confirmed_call(cfg, el, vec, got, exp)
        if self.expanded is not None:
            self.expanded.add((before, tuple(vec)))
        cs = list(el.wait_period_counters)
        w = cfg["wait_time"]
        ctx.count("Confirmed_verdict_%s" % TAG[got])
        if got is not None:
            ctx.mark()
        if w >= 1 and any(c == w for c in cs):
            ctx.count("confirmed_counter_at_wait_time")
        if exp["warned_while_waiting"]:
            ctx.mark("confirmed_voter_turned_warning_while_waiting", exp["warned_while_waiting"])
        if exp["expired"]:
            ctx.count("confirmed_wait_expired", exp["expired"])
        if exp["waiting_votes"]:
            ctx.count("confirmed_votes_from_waiting_members", exp["waiting_votes"])
            if got == "drift" and exp["alarms"] == 0:
                ctx.count("confirmed_drift_without_new_alarm")
        if got == "warning":
            ctx.count("confirmed_warning_verdicts")
        nv = len(exp["voters"])
        if nv == cfg["sensitivity"]:
            ctx.count("confirmed_sensitivity_exactly_met")
        if nv + len(exp["warnings"]) == cfg["sensitivity"] and exp["warnings"]:
            ctx.count("confirmed_warning_threshold_exactly_met")
        if w == 0 and before is not None and exp["alarms"]:
            ctx.count("confirmed_wait0_alarm_expires_at_once")
        return {"verdict": got, "counters": cs}


def confirmed_task(task, seed):
    """Explorer run + proof of exhaustiveness over the counter-state space."""
    sysm = SYSTEMS["Confirmed"]
    cfg = task["cfg"]
    sysm.expanded = set()
    try:
        res = explorer.explore(sysm, task, seed, PROPERTY)
        expanded = sysm.expanded
    finally:
        sysm.expanded = None
    n, w = cfg["n"], cfg["wait_time"]
    if not res["violations"]:
        n_states = (w + 1) ** n + 1  # + the initial object whose counters are still None
        srcs = {b for b, _ in expanded}
        if len(srcs) != n_states or len(expanded) != n_states * 3 ** n or res["stats"].get("states") != n_states:
            raise HarnessError(
                "HARNESS-CRASH: ConfirmedElection exploration not exhaustive for %r: %d source states, "
                "%d (state, vector) pairs, explorer states=%r; expected %d / %d"
                % (cfg, len(srcs), len(expanded), res["stats"].get("states"), n_states, n_states * 3 ** n)
            )
        res["stats"]["confirmed_counter_states_reached"] = len(srcs) - 1
        res["stats"]["confirmed_state_vector_pairs"] = len(expanded)
    return res


# --------------------------------------------------------------------------
# part 3: TLC state graph replayed on the real class
# --------------------------------------------------------------------------
class ScriptSys(System):
    """Replays a path of the TLC state graph: every event carries the votes and
    what the TLA+ model says the call returns / leaves in the counters."""

    name = "ConfirmedTLA"

    def init(self, cfg):
        return {"el": make_election("Confirmed", {"sensitivity": cfg["sensitivity"], "wait_time": cfg["wait_time"]})}

    def alphabet(self, cfg, state, pos):
        return []

    def step(self, cfg, state, ev, pos, ctx):
        el = state["el"]
        vec = list(ev["votes"])
        got = _call(el, vec, "Confirmed-tla")
        exp = {"verdict": ev["verdict"], "counters": ev["counters"]}
        try:
            _check_confirmed_call(cfg, el, vec, got, exp)
        except Violation as v:
            raise Violation(
                "tla-" + v.sub,
                "edge of the TLC state graph (tla/ConfirmedElection.tla): " + v.msg,
                expected=v.expected,
                observed=v.observed,
            )
        return {"verdict": got, "counters": list(el.wait_period_counters)}


_NODE = re.compile(r'^(-?\d+) \[label="(.*)"(,style = filled)?\];?$')
_EDGE = re.compile(r'^(-?\d+) -> (-?\d+) \[label="(.*?)",color=')


def _tla_vec(text):
    return [None if x == "none" else x for x in re.findall(r'"(\w+)"', text)]


def _parse_graph(path):
    nodes, edges = {}, []
    with open(path) as f:
        for line in f:
            line = line.strip()
            m = _EDGE.match(line)
            if m:
                lab = m.group(3).replace('\\"', '"')
                a = re.match(r"Call\((<<.*>>)\)$", lab)
                if not a:
                    raise HarnessError("HARNESS-CRASH: unexpected TLC edge label %r" % lab)
                edges.append((m.group(1), m.group(2), _tla_vec(a.group(1))))
                continue
            m = _NODE.match(line)
            if m:
                lab = m.group(2).replace('\\"', '"').replace("\\\\", "\\")
                var = dict(re.findall(r"/\\ (\w+) = (.*?)(?=\\n|$)", lab))
                nodes[m.group(1)] = {
                    "verdict": var["verdict"].strip('"'),
                    "last": _tla_vec(var["last"]),
                    "c": [int(x) for x in re.findall(r"\d+", var["c"])],
                    "wait": int(var["wait"]),
                    "sens": int(var["sens"]),
                }
    return nodes, edges


def run_tlc(workdir):
    tlc = shutil.which("tlc")
    if tlc is None:
        raise HarnessError("HARNESS-CRASH: tlc not on PATH, cannot run the secondary TLA+ model")
    for f in ("ConfirmedElection.tla", "ConfirmedElection.cfg"):
        shutil.copy(os.path.join(HERE, "tla", f), workdir)
    os.makedirs(os.path.join(workdir, "jtmp"))
    dot = os.path.join(workdir, "graph.dot")
    env = dict(os.environ)
    env["JAVA_TOOL_OPTIONS"] = "-Djava.io.tmpdir=%s -Xmx2g -XX:ParallelGCThreads=2" % os.path.join(workdir, "jtmp")
    cmd = [
        tlc, "-workers", "1", "-noGenerateSpecTE", "-metadir", os.path.join(workdir, "meta"),
        "-dump", "dot,actionlabels", dot, "-deadlock", "-config", "ConfirmedElection.cfg", "ConfirmedElection.tla",
    ]
    p = subprocess.run(cmd, cwd=workdir, env=env, stdout=subprocess.PIPE, stderr=subprocess.STDOUT, text=True, timeout=900)
    out = p.stdout
    if p.returncode != 0 or "Model checking completed. No error has been found." not in out:
        # the TLA+ model violating its own invariants is a defect of the model, not of menelaus
        raise HarnessError("HARNESS-CRASH: TLC did not complete cleanly (rc=%d):\n%s" % (p.returncode, out[-3000:]))
    m = re.search(r"(\d+) states generated, (\d+) distinct states found", out)
    return dot, (int(m.group(1)), int(m.group(2))) if m else (0, 0)


def tla_task(task, seed):
    t0 = time.time()
    st = Counter()
    violations = []
    samples = []
    base = "/dev/shm" if os.path.isdir("/dev/shm") and os.access("/dev/shm", os.W_OK) else None
    workdir = tempfile.mkdtemp(prefix="c13-tlc-", dir=base)
    try:
        dot, (generated, distinct) = run_tlc(workdir)
        st["tlc_wall_ms"] = int(1000 * (time.time() - t0))
        nodes, edges = _parse_graph(dot)
    finally:
        shutil.rmtree(workdir, ignore_errors=True)
    n = task["n"]
    if len(nodes) != distinct or not edges or len(edges) != len(nodes) * 3 ** n:
        raise HarnessError(
            "HARNESS-CRASH: TLC graph incomplete: %d nodes (TLC says %d distinct), %d edges" % (len(nodes), distinct, len(edges))
        )
    # BFS paths from the initial states
    out = {}
    for e in edges:
        out.setdefault(e[0], []).append(e)
    parent = {}
    q = deque()
    for nid, nd in nodes.items():
        if nd["verdict"] == "init":
            parent[nid] = None
            q.append(nid)
    n_init = len(parent)
    while q:
        u = q.popleft()
        if len(out.get(u, ())) != 3 ** n:
            raise HarnessError("HARNESS-CRASH: TLC node %s has %d outgoing edges" % (u, len(out.get(u, ()))))
        for (_, v, vec) in out[u]:
            if v not in parent:
                parent[v] = (u, vec)
                q.append(v)
    if len(parent) != len(nodes):
        raise HarnessError("HARNESS-CRASH: %d TLC nodes unreachable from the initial states" % (len(nodes) - len(parent)))

    def script_to(nid):
        evs = []
        while parent[nid] is not None:
            u, vec = parent[nid]
            evs.append({"votes": vec, "verdict": None if nodes[nid]["verdict"] == "none" else nodes[nid]["verdict"], "counters": nodes[nid]["c"]})
            nid = u
        evs.reverse()
        return evs

    sysm = SYSTEMS["ConfirmedTLA"]
    ctx = Ctx(seed, collect=False)
    cstates = set()
    reported = Counter()
    for (u, v, vec) in edges:
        nu, nv = nodes[u], nodes[v]
        if nv["last"] != vec or (nu["wait"], nu["sens"]) != (nv["wait"], nv["sens"]):
            raise HarnessError("HARNESS-CRASH: TLC edge label %r does not match its target state %r" % (vec, nv))
        cfg = {"id": "tla-s%d-w%d" % (nu["sens"], nu["wait"]), "n": n, "sensitivity": nu["sens"], "wait_time": nu["wait"]}
        cstates.add((nu["wait"], nu["sens"], tuple(nu["c"]), nu["verdict"] == "init"))
        script = script_to(u)
        last = {"votes": vec, "verdict": None if nv["verdict"] == "none" else nv["verdict"], "counters": nv["c"]}
        state = sysm.init(cfg)
        try:
            for pos, ev in enumerate(script):
                sysm.step(cfg, state, ev, pos, ctx)
            # the source state of the edge must be the TLA+ state
            cs = state["el"].wait_period_counters
            if (cs is None) != (nu["verdict"] == "init") or (cs is not None and list(cs) != nu["c"]):
                raise Violation("tla-source-state", "replayed path ends in counters %r, TLC state has %r" % (cs, nu["c"]),
                                expected=nu["c"], observed=cs)
            obs = sysm.step(cfg, state, last, len(script), ctx)
        except Violation as vio:
            st["violations_raw"] += 1
            reported[vio.sig] += 1
            if reported[vio.sig] <= 2:
                evs = script + [last]
                obs2, v2 = run_path(sysm, cfg, evs, seed)
                if v2 is None:
                    raise HarnessError("HARNESS-NONDET: TLC edge violation did not reproduce: %r" % (evs,))
                violations.append(artefact(PROPERTY, sysm, cfg, seed, evs[: len(obs2) + 1], v2))
            continue
        st["tla_edges_replayed"] += 1
        st["transitions"] += 1
        st["executions"] += 1
        if obs["verdict"] is not None:
            st["nontrivial_executions"] += 1
            st["tla_edges_verdict_" + obs["verdict"]] += 1
        else:
            st["tla_edges_verdict_none"] += 1
        if nu["wait"] and any(c == nu["wait"] for c in obs["counters"]):
            st["tla_edges_into_counter_at_wait_time"] += 1
        if len(samples) < 1 and obs["verdict"] == "warning" and len(script) >= 2:
            samples.append({"system": sysm.name, "cfg": cfg, "events": script + [last], "last_obs": obs, "nontrivial_events": 1})
    st["states"] = len(nodes)
    st["tla_states"] = len(nodes)
    st["tla_initial_states"] = n_init
    st["tla_states_generated_by_tlc"] = generated
    st["tla_counter_states"] = len(cstates)
    return {"stats": dict(st), "violations": violations, "samples": samples, "wall": time.time() - t0}


# --------------------------------------------------------------------------
SYSTEMS = {"Votes": VoteSys(), "Confirmed": ConfirmedSys(), "ConfirmedTLA": ScriptSys()}

BOUNDS = {
    "quick": {"n_stateless": 5, "n_confirmed": 4, "wait_max": 3},
    "thorough": {"n_stateless": 6, "n_confirmed": 5, "wait_max": 3},
}
TLA_BOUNDS = {"n": 3, "wait_max": 2, "sensitivities": [1, 2, 3, 4]}


def tasks(tier, seed):
    b = BOUNDS[tier]
    out = []
    for n in range(1, b["n_stateless"] + 1):
        for kind in ("SimpleMajority", "MinimumApproval", "OrderedApproval"):
            out.append(
                {
                    "fn": "stateless_task",
                    "kind": kind,
                    "n": n,
                    "label": "Votes|%s|n%d" % (kind, n),
                    "cost": 3 ** n * (n + 2) ** (2 if kind == "OrderedApproval" else 1) / 1000.0,
                }
            )
    for n in range(1, b["n_confirmed"] + 1):
        for w in range(0, b["wait_max"] + 1):
            for s in range(1, n + 2):
                out.append(
                    {
                        "fn": "confirmed_task",
                        "system": "Confirmed",
                        "cfg": {"id": "CE-n%d-s%d-w%d" % (n, s, w), "n": n, "sensitivity": s, "wait_time": w},
                        "prefix": [],
                        "depth": w + 2,
                        "label": "Confirmed|n%d|s%d|w%d" % (n, s, w),
                        "cost": (w + 1) ** n * 3 ** n / 100.0,
                    }
                )
    out.append({"fn": "tla_task", "n": TLA_BOUNDS["n"], "label": "ConfirmedTLA|tlc", "cost": 1e9})
    return out


REQUIRED = [
    # every verdict of every election
    "SimpleMajority_verdict_drift",
    "SimpleMajority_verdict_none",
    "MinimumApproval_verdict_drift",
    "MinimumApproval_verdict_none",
    "OrderedApproval_verdict_drift",
    "OrderedApproval_verdict_none",
    "Confirmed_verdict_drift",
    "Confirmed_verdict_warning",
    "Confirmed_verdict_none",
    # thresholds met exactly / missed by one / unreachable
    "majority_exact_half_is_not_drift",
    "majority_smallest_majority_is_drift",
    "approval_threshold_exactly_met",
    "approval_one_short",
    "approval_threshold_above_n_never_drift",
    "approval_warnings_do_not_count",
    "monotone_pairs_checked",
    # ConfirmedElection state space
    "confirmed_counter_states_reached",
    "confirmed_counter_at_wait_time",
    "confirmed_voter_turned_warning_while_waiting",
    "confirmed_wait_expired",
    "confirmed_votes_from_waiting_members",
    "confirmed_drift_without_new_alarm",
    "confirmed_sensitivity_exactly_met",
    "confirmed_warning_threshold_exactly_met",
    "confirmed_wait0_alarm_expires_at_once",
    # secondary model
    "tla_edges_replayed",
    "tla_edges_verdict_drift",
    "tla_edges_verdict_warning",
    "tla_edges_verdict_none",
    "tla_edges_into_counter_at_wait_time",
]


def describe(tier):
    b = BOUNDS[tier]
    return {
        "rule": "(1) every vector of {None,warning,drift}^n for every n and every parameter value in the bound, on stub "
        "members, one election object per parameter set; (2) ConfirmedElection: depth-first search with the "
        "wait_period_counters as transposition key until every reachable counter state has been expanded with every "
        "vote vector (checked: (wait+1)^n states x 3^n vectors per parameter set); (3) every edge of the state graph "
        "TLC computes for tla/ConfirmedElection.tla replayed on the real class from a fresh object along a BFS path. "
        "An execution is one election call compared with the rule; non-trivial = verdict other than None",
        "bounds": {
            "reports": ["None", "warning", "drift"],
            "stateless_n": [1, b["n_stateless"]],
            "approvals_needed": "1..n+1",
            "confirmations_needed": "0..n+1",
            "confirmed_n": [1, b["n_confirmed"]],
            "confirmed_sensitivity": "1..n+1",
            "confirmed_wait_time": [0, b["wait_max"]],
            "tla": TLA_BOUNDS,
        },
        "explanation": "states = election objects x vote vectors (stateless rules) + reachable ConfirmedElection counter "
        "states + TLC states; traces_validated_against_impl = election calls on the real classes compared with the "
        "rule (stateless: one per vector and parameter set; ConfirmedElection: maximal DFS paths) plus the TLC edges "
        "replayed on the real class (counter tla_edges_replayed)",
        "assumptions": [
            "members are seen by an election only through their drift_state attribute (stubs)",
            "\"newly reports drift\" = reports drift while its wait counter is 0 (DESIGN §4 C13); with wait_time 0 a member "
            "that keeps reporting drift is a voter in every call",
            "wait_period_counters[i] is read as 'voting calls since member i's alarm, 0 when idle' (property anchor)",
            "TLC (tla2tools) is trusted to enumerate the state graph of the secondary model; the graph is then checked "
            "edge by edge against the implementation, not against the Python model",
        ],
    }
