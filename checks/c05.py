"""C05 — DDM, EDDM and STEPD decide from the error sequence exactly as specified.

Explored: ALL binary outcome sequences of length n for every parameter set
(DESIGN §4 C05); oracle: lock-step agreement with the executable specifications
in models/error_based.py on drift_state, retraining_recs, counters and (STEPD)
the three accuracies, after every update.

Families (label prefix after the system name):
  <n>      base: all 2^n outcome sequences, y_true = 1 / y_pred in {0, 1}, small warm-ups
  tie<n>   thresholds that are hit EXACTLY (EDDM 1.0 and dyadic ratios, DDM scale 1, STEPD level 1/2):
           the documented / implemented side of an equality is enforced where both sides are exact
  ext<n>   legal parameter extremes and orderings (scale / level / threshold 0 and 1, warning stricter than drift,
           warning == drift)
  enc      label encodings: the same outcome sequences fed as (y_true, y_pred) pairs from other label sets
           (bool, -1/+1, {1,2}, negatives, 3 and 4 classes, strings, floats, huge ints, numpy scalar dtypes,
           int truth / float prediction); labels chosen by a schedule that cycles through every (true, predicted)
           pair, plus ALL sequences of explicit (true, predicted) pairs at a smaller depth
  cont     containers: every update passes its two labels in another container (python scalar, 0-d / 1-d / 2-d /
           object ndarray, list, tuple, Series and 1x1 DataFrame with non-default labels), positionally, by
           keyword, with and without X
  rst      reset() as an event: all sequences over {correct, error, reset()}
  long     long histories (deviation-bounded): near-default and DEFAULT constructor parameters, several epochs,
           single (thorough: double) flipped outcomes, and a reset() inserted at any position
"""
import itertools

import numpy as np
import pandas as pd

from menelaus.concept_drift import DDM, EDDM, STEPD

from mc.explorer import System, Violation, dev_split
from mc.numeric import diff_keys, lockstep
from mc.observe import stream_obs, fl
from models.error_based import DDMModel, EDDMModel, STEPDModel

PROPERTY = "C05"

# ---------------------------------------------------------------------------------------------------------------
# label encodings: class values, optional numpy scalar type of the true / of the predicted label
ENCODINGS = {
    "01": {"values": [0, 1]},
    "bool": {"values": [False, True]},
    "pm1": {"values": [-1, 1]},
    "12": {"values": [1, 2]},
    "neg": {"values": [-2, -1]},
    "abc3": {"values": [0, 1, 2]},
    "cls4": {"values": [3, 5, 6, 9]},
    "str": {"values": ["cat", "dog"]},
    "str3": {"values": ["a", "ab", "b"]},
    "float": {"values": [1.0, 2.5]},
    "frac": {"values": [0.25, 0.75]},
    "big": {"values": [10 ** 8, 10 ** 8 + 1]},
    "u8": {"values": [0, 1, 255], "dtype": "uint8"},
    "i8": {"values": [-1, 1], "dtype": "int8"},
    "f32": {"values": [0.1, 0.3], "dtype": "float32"},
    "npbool": {"values": [False, True], "dtype": "bool"},
    "npstr": {"values": ["no", "yes"], "dtype": "str"},
    # the truth is an integer label, the classifier emits the class as a float (2 == 2.0 is a correct prediction)
    "intfloat": {"values": [1, 2], "dtype": "int64", "pred_dtype": "float64"},
}
_NPTYPES = {"uint8": np.uint8, "int8": np.int8, "float32": np.float32, "bool": np.bool_, "str": np.str_,
            "int64": np.int64, "float64": np.float64}

CONTAINERS = ["py", "np0", "list", "tuple", "arr1", "arr2", "objarr", "series", "frame"]


def _scalar(v, dt):
    return v if dt is None else _NPTYPES[dt](v)


def _wrap(v, kind, role):
    if kind == "py":
        return v
    if kind == "np0":
        return np.array(v)
    if kind == "list":
        return [v]
    if kind == "tuple":
        return (v,)
    if kind == "arr1":
        return np.array([v])
    if kind == "arr2":
        return np.array([[v]])
    if kind == "objarr":
        a = np.empty(1, dtype=object)
        a[0] = v
        return a
    if kind == "series":  # non-default, and different, index labels for the two arguments
        return pd.Series([v], index=[7 if role == 0 else 11])
    if kind == "frame":
        return pd.DataFrame([[v]], columns=["y" if role == 0 else 3], index=[5 if role == 0 else "r"])
    raise ValueError(kind)


def _pairs(k):
    return [(t, p) for t in range(k) for p in range(k) if t != p]


class ErrSystem(System):
    def __init__(self, name, det_cls, model_cls, accs=False):
        self.name = name
        self.det_cls = det_cls
        self.model_cls = model_cls
        self.accs = accs

    def init(self, cfg):
        p = cfg["params"]
        return {"det": self.det_cls(**p), "model": self.model_cls(**p), "nc": 0, "ne": 0, "last": None,
                "manual": False}

    def alphabet(self, cfg, state, pos):
        return _alphabet(cfg)

    def observe(self, det):
        o = stream_obs(det)
        if self.accs:
            o["recent_accuracy"] = fl(det.recent_accuracy())
            o["past_accuracy"] = fl(det.past_accuracy())
            o["overall_accuracy"] = fl(det.overall_accuracy())
        return o

    # -- feeding -------------------------------------------------------------------------------------------
    def _labels(self, cfg, state, ev):
        """(err, true class index, predicted class index) for an outcome / explicit pair event."""
        enc = ENCODINGS[cfg["enc"]]
        k = len(enc["values"])
        if isinstance(ev, (list, tuple)):
            t, p = ev
            return int(t != p), t, p
        if ev:
            pr = _pairs(k)
            t, p = pr[state["ne"] % len(pr)]
            state["ne"] += 1
        else:
            t = p = state["nc"] % k
            state["nc"] += 1
        return int(ev), t, p

    def _feed(self, cfg, state, ev, pos, ctx):
        det = state["det"]
        if "enc" not in cfg:
            # y_true = 1 always; prediction is right (1) or wrong (0)
            det.update(y_true=1, y_pred=0 if ev else 1)
            return int(ev)
        enc = ENCODINGS[cfg["enc"]]
        err, t, p = self._labels(cfg, state, ev)
        yt = _scalar(enc["values"][t], enc.get("dtype"))
        yp = _scalar(enc["values"][p], enc.get("pred_dtype", enc.get("dtype")))
        assert bool(yt != yp) == bool(err)
        if err and bool(yt) and bool(yp):
            ctx.count("errors_between_truthy_labels")
        if err and t > p:
            ctx.count("errors_with_truth_above_prediction")
        elif err:
            ctx.count("errors_with_truth_below_prediction")
        cont = cfg.get("cont", "py")
        style = 0
        if cont == "cycle":
            m = len(CONTAINERS)
            rot = cfg.get("rot", 0)  # every container meets every position in one of the tasks
            ct, cp = CONTAINERS[(pos + rot) % m], CONTAINERS[(2 * pos + 1 + rot) % m]
            style = (pos + rot // 3) % 3
            ctx.count("container:" + ct)
        else:
            ct = cp = cont
        yt, yp = _wrap(yt, ct, 0), _wrap(yp, cp, 1)
        if style == 0:
            det.update(y_true=yt, y_pred=yp)
        elif style == 1:
            det.update(yt, yp)
        else:
            det.update(y_true=yt, y_pred=yp, X=np.array([[0.5, float(pos)]]))
        return err

    def step(self, cfg, state, ev, pos, ctx):
        det = state["det"]
        fam = cfg.get("fam", "base")
        try:
            if ev == "R":
                before = det.drift_state
                warm = self._in_warmup(state["model"])
                det.reset()
                call = lambda m, D: m.reset()  # noqa: E731
            else:
                err = self._feed(cfg, state, ev, pos, ctx)
                call = lambda m, D: m.step(err, D)  # noqa: E731
        except Violation:
            raise
        except Exception as e:  # the property allows no exception for a single (y_true, y_pred) pair
            raise Violation(
                "%s-raised" % self.name,
                "%s raised %s: %s on event %r after %d events" % (self.name, type(e).__name__, e, ev, pos),
                expected="no exception",
                observed=repr(e),
            )
        obs = self.observe(det)
        model, exp, ok = lockstep(
            state["model"],
            call,
            lambda e: not diff_keys(e, obs),
            stats=ctx.stats,
        )
        state["model"] = model
        if not ok:
            bad = diff_keys(exp, obs)
            raise Violation(
                "%s-spec" % self.name,
                "%s disagrees with its executable specification on %s after %d %s"
                % (self.name, bad, pos + 1, "events" if cfg.get("alphabet", "bin").endswith("R") else "samples"),
                expected=exp,
                observed=obs,
            )
        if model.exact_enforced:
            ctx.count("exact_ties_enforced", model.exact_enforced)
            ctx.count("exact_ties_enforced:" + self.name, model.exact_enforced)
        if ev == "R":
            ctx.mark("manual_resets")
            if before == "warning":
                ctx.count("resets_right_after_warning")
            elif before == "drift":
                ctx.count("resets_right_after_drift")
            if warm:
                ctx.count("resets_during_warmup")
            if state["last"] == "R":
                ctx.count("resets_twice_in_a_row")
            state["manual"] = True
        else:
            if obs["since"] == 1 and state["last"] != "R":
                state["manual"] = False  # the epoch was started by the detector itself (or is the first)
            if obs["state"] == "drift":
                ctx.mark("drift_transitions")
            elif obs["state"] == "warning":
                ctx.mark("warning_transitions")
            if obs["state"] is not None:
                ctx.count("alarms_in:" + fam)
                if state["manual"]:
                    ctx.count("alarms_in_epoch_started_by_reset")
            if model.epochs >= 3 and obs["since"] == 1:
                ctx.count("third_or_later_epoch_starts")
                if fam == "long":
                    ctx.count("third_or_later_epoch_starts_long")
            r = obs.get("recs")
            if r and r[0] is not None and r[1] is not None and r[0] < r[1]:
                ctx.count("recs_with_warning_before_drift")
        state["last"] = ev if ev == "R" else None
        return obs

    def _in_warmup(self, model):
        if self.name == "STEPD":
            return len(model.outcomes) < 2 * model.w
        if self.name == "DDM":
            return model.n < model.n_threshold
        return model.n_err < model.n_threshold  # EDDM warms up in errors


def _alphabet(cfg):
    a = cfg.get("alphabet", "bin")
    if a == "bin":
        return [0, 1]
    if a == "binR":
        return [0, 1, "R"]
    k = len(ENCODINGS[cfg["enc"]]["values"])
    ev = [[t, t] for t in range(k)] + [list(pr) for pr in _pairs(k)]
    return ev + (["R"] if a == "pairsR" else [])


SYSTEMS = {
    "DDM": ErrSystem("DDM", DDM, DDMModel),
    "EDDM": ErrSystem("EDDM", EDDM, EDDMModel),
    "STEPD": ErrSystem("STEPD", STEPD, STEPDModel, accs=True),
}

# ---------------------------------------------------------------------------------------------------------------
# base family
DDM_CFGS = [
    {"n_threshold": n, "warning_scale": w, "drift_scale": d}
    for n in (1, 2, 3, 5)
    for (w, d) in ((1, 2), (2, 3), (0.5, 1.5))
]
EDDM_CFGS = [
    {"n_threshold": n, "warning_thresh": w, "drift_thresh": d}
    for n in (1, 2, 3)
    for (w, d) in ((0.95, 0.9), (0.99, 0.5), (0.8, 0.6))
]
STEPD_CFGS = [
    {"window_size": n, "alpha_warning": w, "alpha_drift": d}
    for n in (1, 2, 3, 4)
    for (w, d) in ((0.05, 0.003), (0.3, 0.1), (0.5, 0.49))
] + [
    # levels above 1/2 (legal; the repository's tests use 0.6 / 0.7): with the continuity correction a tie or a small
    # *increase* in accuracy has a p-value just above 1/2, so only the explicit "accuracy decreased" guard keeps it silent
    {"window_size": n, "alpha_warning": w, "alpha_drift": d}
    for n in (2, 4)
    for (w, d) in ((0.7, 0.6), (0.95, 0.55))
]

# tie family: thresholds that are met exactly inside the bound
TIE_CFGS = {
    # scale 1: p + s >= p_min + 1*s is an equality whenever the current point is the minimum; dyadic scales meet
    # rational (p, s) pairs such as (1/2, 1/2)
    "DDM": [
        {"n_threshold": n, "warning_scale": w, "drift_scale": d}
        for n in (2, 3, 4)
        for (w, d) in ((1, 1.5), (0.5, 1), (1, 3))
    ],
    # 1.0: every tested error that sets (or equals) the maximum has ratio exactly 1; 0.75 / 0.7 / 0.5 / 0.25: the
    # library example's thresholds and dyadic ratios such as 4.5 / 9
    "EDDM": [
        {"n_threshold": n, "warning_thresh": w, "drift_thresh": d}
        for n in (1, 2, 3)
        for (w, d) in ((1.0, 0.5), (0.7, 0.5), (0.75, 0.25), (1.0, 0.9))
    ],
    # P(T) is exactly 1/2 when the continuity correction cancels the difference of the accuracies
    "STEPD": [
        {"window_size": n, "alpha_warning": w, "alpha_drift": d}
        for n in (1, 2, 3, 4)
        for (w, d) in ((0.5, 0.25), (0.75, 0.5))
    ],
}

# ext family: extremes and orderings the documentation does not exclude
EXT_CFGS = {
    "DDM": [
        {"n_threshold": n, "warning_scale": w, "drift_scale": d}
        for n in (1, 3)
        for (w, d) in ((0, 2), (3, 2), (2, 2), (0, 0), (1, 8))
    ],
    "EDDM": [
        {"n_threshold": n, "warning_thresh": w, "drift_thresh": d}
        for n in (1, 3)
        for (w, d) in ((0.9, 0.0), (0.5, 0.9), (0.9, 0.9), (1.0, 1.0), (0.0, 0.0))
    ],
    "STEPD": [
        {"window_size": n, "alpha_warning": w, "alpha_drift": d}
        for n in (1, 3)
        for (w, d) in ((0.3, 0.0), (1.0, 0.5), (0.05, 0.3), (0.2, 0.2), (1.0, 1.0), (0.0, 0.0))
    ],
}

DEPTH = {
    "quick": {"DDM": 14, "EDDM": 14, "STEPD": 12},
    "thorough": {"DDM": 20, "EDDM": 20, "STEPD": 18},
}
# depths of the other dfs families (binary alphabet unless stated)
DEPTH_X = {
    "quick": {"tie": {"DDM": 14, "EDDM": 14, "STEPD": 12}, "ext": {"DDM": 12, "EDDM": 12, "STEPD": 11},
              "enc": {"DDM": 12, "EDDM": 12, "STEPD": 11}, "cont": {"DDM": 12, "EDDM": 12, "STEPD": 11},
              "rst": {"DDM": 9, "EDDM": 9, "STEPD": 8}, "pairs2": 7, "pairs3": 5},
    "thorough": {"tie": {"DDM": 17, "EDDM": 17, "STEPD": 15}, "ext": {"DDM": 15, "EDDM": 15, "STEPD": 14},
                 "enc": {"DDM": 14, "EDDM": 14, "STEPD": 13}, "cont": {"DDM": 14, "EDDM": 14, "STEPD": 13},
                 "rst": {"DDM": 11, "EDDM": 11, "STEPD": 10}, "pairs2": 8, "pairs3": 6},
}

# parameter sets of the enc / cont / rst families (small warm-ups so that alarms and several epochs fit)
SMALL = {
    "DDM": [{"n_threshold": 2, "warning_scale": 1, "drift_scale": 2}, {"n_threshold": 3, "warning_scale": 0.5, "drift_scale": 1.5}],
    "EDDM": [{"n_threshold": 2, "warning_thresh": 0.95, "drift_thresh": 0.9}, {"n_threshold": 3, "warning_thresh": 0.8, "drift_thresh": 0.6}],
    "STEPD": [{"window_size": 2, "alpha_warning": 0.3, "alpha_drift": 0.1}, {"window_size": 3, "alpha_warning": 0.5, "alpha_drift": 0.49}],
}
RST_CFGS = {
    "DDM": SMALL["DDM"] + [{"n_threshold": 1, "warning_scale": 2, "drift_scale": 3}, {"n_threshold": 4, "warning_scale": 1, "drift_scale": 1.5}],
    "EDDM": SMALL["EDDM"] + [{"n_threshold": 1, "warning_thresh": 0.99, "drift_thresh": 0.5}, {"n_threshold": 2, "warning_thresh": 1.0, "drift_thresh": 0.5}],
    "STEPD": SMALL["STEPD"] + [{"window_size": 1, "alpha_warning": 0.3, "alpha_drift": 0.1}, {"window_size": 2, "alpha_warning": 0.7, "alpha_drift": 0.6},
                               {"window_size": 4, "alpha_warning": 0.5, "alpha_drift": 0.25}],
}
CONT_ENCS = ["01", "str", "float", "npbool", "abc3"]


def _long_default(kind, L):
    """Piecewise-stationary default outcome sequences (1 = error)."""
    if kind == "burst":  # mostly correct, then a burst of errors, then recovery
        return [1 if i % 7 == 3 else 0 for i in range(L // 2)] + [1 if i % 3 else 0 for i in range(L // 4)] + [1 if i % 9 == 0 else 0 for i in range(L - L // 2 - L // 4)]
    if kind == "ramp":  # the error density rises in steps
        out = []
        for blk, period in enumerate((11, 6, 3, 2)):
            out += [1 if i % period == 0 else 0 for i in range(L // 4)]
        return (out + [1] * L)[:L]
    # "cycles": calm / degraded regimes alternate several times (third and later epochs with default warm-ups)
    out = []
    blk = 0
    while len(out) < L:
        if blk % 2 == 0:
            out += [1 if i % 8 == 5 else 0 for i in range(45)]
        else:
            out += [0 if i % 4 == 1 else 1 for i in range(35)]
        blk += 1
    return out[:L]


# near-default parameters: the long horizon (default warm-ups of 30) is reached by deviation-bounded histories
LONG_CFGS = {
    "DDM": [{"n_threshold": 30, "warning_scale": 2, "drift_scale": 3}, {"n_threshold": 20, "warning_scale": 1, "drift_scale": 2}],
    "EDDM": [{"n_threshold": 30, "warning_thresh": 0.95, "drift_thresh": 0.9}, {"n_threshold": 10, "warning_thresh": 0.95, "drift_thresh": 0.9}],
    "STEPD": [{"window_size": 30, "alpha_warning": 0.05, "alpha_drift": 0.003}, {"window_size": 12, "alpha_warning": 0.1, "alpha_drift": 0.01},
              {"window_size": 30, "alpha_warning": 0.6, "alpha_drift": 0.55}],
}
# round 3: the DEFAULT constructor (no arguments at all) and two more near-default sets, longer histories, reset()
LONG3_CFGS = {
    "DDM": [{}, {"n_threshold": 25, "warning_scale": 1.5, "drift_scale": 2.5}],
    "EDDM": [{}, {"n_threshold": 15, "warning_thresh": 1.0, "drift_thresh": 0.8}],
    "STEPD": [{}, {"window_size": 20, "alpha_warning": 0.2, "alpha_drift": 0.05}],
}


def _dev_chunks(task, menu, chunk):
    """Split a one-deviation task by the position of the deviation into chunks of ``chunk`` positions (per-position
    menus: empty outside the chunk).  The deviation-free history is a leaf of every chunk, i.e. it is executed once
    per chunk; all other histories exactly once."""
    default = task["default"]
    out = []
    for i0 in range(0, len(default), chunk):
        t = dict(task)
        t["menu"] = [list(menu) if i0 <= i < i0 + chunk else [] for i in range(len(default))]
        t["menu_per_pos"] = True
        t["prefix"] = list(default[:i0])
        t["label"] = task["label"] + "|dev@%d-%d" % (i0, min(len(default), i0 + chunk) - 1)
        t["cost"] = task.get("cost", 1) * (len(default) - i0) / len(default)
        out.append(t)
    return out


def _long_tasks(tier):
    out = []
    L = 120 if tier == "quick" else 160
    k = 1 if tier == "quick" else 2
    for name, cfgs in LONG_CFGS.items():
        for ci, p in enumerate(cfgs):
            for kind in ("burst", "ramp"):
                out += dev_split(
                    {
                        "system": name,
                        "cfg": {"id": "long%d" % ci, "params": p, "fam": "long"},
                        "mode": "dev",
                        "default": _long_default(kind, L),
                        "menu": [0, 1],
                        "k": k,
                        "label": "%s|long%d|%s" % (name, ci, kind),
                        "cost": 2,
                        "validate_every": 53,
                    }
                )
    # longer histories (several epochs with the default warm-ups), one deviation: a flipped outcome or a reset()
    L3 = 260 if tier == "quick" else 400
    for name in LONG_CFGS:
        cfgs = [("dflt%d" % i, p) for i, p in enumerate(LONG3_CFGS[name])] + [("long%d" % i, p) for i, p in enumerate(LONG_CFGS[name]) if i > 0]  # long0 spells out the defaults
        for cid, p in cfgs:
            for kind in ("cycles", "ramp"):
                if kind != "cycles" and cid != "dflt0":
                    continue
                out += _dev_chunks(
                    {
                        "system": name,
                        "cfg": {"id": cid + "R", "params": p, "fam": "long", "alphabet": "binR"},
                        "mode": "dev",
                        "default": _long_default(kind, L3),
                        "k": 1,
                        "label": "%s|long3:%s|%s" % (name, cid, kind),
                        "cost": 4,
                        "validate_every": 53,
                    },
                    [0, 1, "R"],
                    26 if name == "STEPD" else 52,
                )
    return out


def _ev_str(e):
    return "%d%d." % tuple(e) if isinstance(e, (list, tuple)) else str(e)


def _dfs_tasks(name, cid, cfg, depth, split, label, cost=1):
    """One task per prefix of length ``split`` over the cfg's alphabet."""
    alpha = _alphabet(cfg)
    out = []
    for prefix in itertools.product(alpha, repeat=split):
        out.append(
            {
                "system": name,
                "cfg": dict(cfg, id=cid),
                "prefix": [e if not isinstance(e, tuple) else list(e) for e in prefix],
                "depth": depth - split,
                "label": "%s|%s|%s" % (name, label, "".join(_ev_str(e) for e in prefix)),
                "cost": cost * (3 if name == "STEPD" else 1),
            }
        )
    return out


def tasks(tier, seed):
    out = _long_tasks(tier)
    split = 2 if tier == "quick" else 5
    dx = DEPTH_X[tier]
    for name, cfgs in (("DDM", DDM_CFGS), ("EDDM", EDDM_CFGS), ("STEPD", STEPD_CFGS)):
        d = DEPTH[tier][name]
        for ci, p in enumerate(cfgs):
            for prefix in itertools.product((0, 1), repeat=split):
                out.append(
                    {
                        "system": name,
                        "cfg": {"id": ci, "params": p},
                        "prefix": list(prefix),
                        "depth": d - split,
                        "label": "%s|%d|%s" % (name, ci, "".join(map(str, prefix))),
                        "cost": 3 if name == "STEPD" else 1,
                    }
                )
        for fam, table in (("tie", TIE_CFGS), ("ext", EXT_CFGS)):
            for ci, p in enumerate(table[name]):
                out += _dfs_tasks(name, "%s%d" % (fam, ci), {"params": p, "fam": fam}, dx[fam][name],
                                  split if fam == "tie" else max(1, split - 1), "%s%d" % (fam, ci),
                                  cost=1 if fam == "tie" else 0.3)
        # label encodings (schedule) — every encoding with both small parameter sets
        for ci, p in enumerate(SMALL[name]):
            for enc in ENCODINGS:
                out += _dfs_tasks(name, "enc%d:%s" % (ci, enc), {"params": p, "fam": "enc", "enc": enc},
                                  dx["enc"][name], 1 if tier == "quick" else 3, "enc%d:%s" % (ci, enc), cost=0.2)
        # explicit (true, predicted) pairs: all label sequences
        for enc, less in (("pm1", 0), ("str", 0), ("abc3", 0), ("u8", 1)):
            k = len(ENCODINGS[enc]["values"])
            out += _dfs_tasks(name, "pairs:" + enc, {"params": SMALL[name][0], "fam": "enc", "enc": enc, "alphabet": "pairs"},
                              dx["pairs%d" % k] - less, 1, "pairs:" + enc, cost=0.5)
        # containers
        for ci, p in enumerate(SMALL[name]):
            for ei, enc in enumerate(CONT_ENCS):
                out += _dfs_tasks(name, "cont%d:%s" % (ci, enc), {"params": p, "fam": "cont", "enc": enc, "cont": "cycle", "rot": ci * len(CONT_ENCS) + ei},
                                  dx["cont"][name], 1 if tier == "quick" else 3, "cont%d:%s" % (ci, enc), cost=0.4)
        # reset() as an event
        for ci, p in enumerate(RST_CFGS[name]):
            out += _dfs_tasks(name, "rst%d" % ci, {"params": p, "fam": "rst", "alphabet": "binR"},
                              dx["rst"][name], 2 if tier == "quick" else 3, "rst%d" % ci, cost=0.5)
        # reset() between explicitly labelled samples (strings / three classes)
        for enc in ("str", "abc3"):
            k = len(ENCODINGS[enc]["values"])
            out += _dfs_tasks(name, "rstpairs:" + enc, {"params": SMALL[name][0], "fam": "rst", "enc": enc, "alphabet": "pairsR"},
                              dx["pairs%d" % k] - 1, 1, "rstpairs:" + enc, cost=0.5)
    return out


REQUIRED = [
    "drift_transitions",
    "warning_transitions",
    "third_or_later_epoch_starts",
    "third_or_later_epoch_starts_long",
    "recs_with_warning_before_drift",
    "exact_ties",
    "exact_ties_enforced:DDM",
    "exact_ties_enforced:EDDM",
    "exact_ties_enforced:STEPD",
    "alarms_in:base",
    "alarms_in:tie",
    "alarms_in:ext",
    "alarms_in:enc",
    "alarms_in:cont",
    "alarms_in:rst",
    "alarms_in:long",
    "errors_between_truthy_labels",
    "errors_with_truth_above_prediction",
    "errors_with_truth_below_prediction",
    "manual_resets",
    "resets_right_after_warning",
    "resets_right_after_drift",
    "resets_during_warmup",
    "resets_twice_in_a_row",
    "alarms_in_epoch_started_by_reset",
] + ["container:" + c for c in CONTAINERS]


def describe(tier):
    dx = DEPTH_X[tier]
    return {
        "rule": "every binary outcome sequence of length n (prefix-shared DFS over the real detector, "
        "snapshots by deepcopy) per parameter set; a history is non-trivial when at least one of its "
        "updates reported warning or drift (or it contains a reset()); histories are distinct by construction "
        "(distinct event sequences or distinct parameter sets / encodings)",
        "bounds": {
            "long_histories": "near-default parameters (warm-ups 10-30): two piecewise-stationary default sequences of length %d with every choice of <= %d flipped positions; "
            "default-constructed and near-default detectors on one or two sequences of length %d with one flipped outcome or one reset() at any position"
            % ((120, 1, 260) if tier == "quick" else (160, 2, 400)),
            "alphabet": ["correct", "error", "reset() (families rst, long3)", "explicit (true, predicted) label pairs (family enc/pairs)"],
            "depth": DEPTH[tier],
            "depth_other_families": dx,
            "parameter_sets": {"DDM": len(DDM_CFGS), "EDDM": len(EDDM_CFGS), "STEPD": len(STEPD_CFGS)},
            "parameter_sets_tie": {k: len(v) for k, v in TIE_CFGS.items()},
            "parameter_sets_ext": {k: len(v) for k, v in EXT_CFGS.items()},
            "label_encodings": {k: [repr(x) for x in v["values"]] + [v.get("dtype", "python")] for k, v in ENCODINGS.items()},
            "containers": CONTAINERS,
        },
        "explanation": "states = tree nodes (no transposition merging for history-keeping detectors); "
        "traces_validated_against_impl = maximal executions on which the real detector and the "
        "specification were compared after every update",
        "assumptions": [
            "DDM/EDDM running-deviation recurrence and the current-std form of the DDM thresholds are taken "
            "as the definition (DESIGN §2.5, pinned by test_ddm::test_warning)",
            "comparisons within relative 1e-9 of their threshold are numerically undecidable and follow the "
            "implementation (counted as near_tie_steered); exact ties are enforced where both sides are exact "
            "(rational shadow of the recurrences; EDDM: the implemented `<=`; STEPD: P(T) = 1/2 exactly when T = 0)",
            "which of two equal-sum DDM minima is kept (`<=` vs `<`) is not fixed by the property: steerable",
            "a prediction is incorrect iff y_pred != y_true (python / numpy equality of the two labels)",
            "reset() starts a new epoch: statistics, state and retraining_recs cleared, total_samples keeps counting",
            "math.erfc / math.sqrt are trusted",
        ],
    }
