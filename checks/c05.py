"""C05 — DDM, EDDM and STEPD decide from the error sequence exactly as specified.

Explored: ALL binary outcome sequences of length n for every parameter set
(DESIGN §4 C05); oracle: lock-step agreement with the executable specifications
in models/error_based.py on drift_state, retraining_recs, counters and (STEPD)
the three accuracies, after every update.
"""
import itertools

from menelaus.concept_drift import DDM, EDDM, STEPD

from mc.explorer import System, Violation, dev_split
from mc.numeric import diff_keys, lockstep
from mc.observe import stream_obs, fl
from models.error_based import DDMModel, EDDMModel, STEPDModel

PROPERTY = "C05"


class ErrSystem(System):
    def __init__(self, name, det_cls, model_cls, accs=False):
        self.name = name
        self.det_cls = det_cls
        self.model_cls = model_cls
        self.accs = accs

    def init(self, cfg):
        p = cfg["params"]
        return {"det": self.det_cls(**p), "model": self.model_cls(**p)}

    def alphabet(self, cfg, state, pos):
        return [0, 1]

    def observe(self, det):
        o = stream_obs(det)
        if self.accs:
            o["recent_accuracy"] = fl(det.recent_accuracy())
            o["past_accuracy"] = fl(det.past_accuracy())
            o["overall_accuracy"] = fl(det.overall_accuracy())
        return o

    def step(self, cfg, state, ev, pos, ctx):
        det = state["det"]
        # y_true = 1 always; prediction is right (1) or wrong (0)
        det.update(y_true=1, y_pred=0 if ev else 1)
        obs = self.observe(det)
        model, exp, ok = lockstep(
            state["model"],
            lambda m, D: m.step(ev, D),
            lambda e: not diff_keys(e, obs),
            stats=ctx.stats,
        )
        state["model"] = model
        if not ok:
            bad = diff_keys(exp, obs)
            raise Violation(
                "%s-spec" % self.name,
                "%s disagrees with its executable specification on %s after %d samples"
                % (self.name, bad, pos + 1),
                expected=exp,
                observed=obs,
            )
        if obs["state"] == "drift":
            ctx.mark("drift_transitions")
        elif obs["state"] == "warning":
            ctx.mark("warning_transitions")
        if model.epochs >= 3 and obs["since"] == 1:
            ctx.count("third_or_later_epoch_starts")
        r = obs.get("recs")
        if r and r[0] is not None and r[1] is not None and r[0] < r[1]:
            ctx.count("recs_with_warning_before_drift")
        return obs


SYSTEMS = {
    "DDM": ErrSystem("DDM", DDM, DDMModel),
    "EDDM": ErrSystem("EDDM", EDDM, EDDMModel),
    "STEPD": ErrSystem("STEPD", STEPD, STEPDModel, accs=True),
}

DDM_CFGS = [
    {"n_threshold": n, "warning_scale": w, "drift_scale": d}
    for n in (1, 2, 3, 5)
    for (w, d) in ((1, 2), (2, 3), (0.5, 1.5))
]
EDDM_CFGS = [
    {"n_threshold": n, "warning_thresh": w, "drift_thresh": d}
    for n in (1, 2, 3)
    for (w, d) in ((0.95, 0.9), (0.99, 0.5), (0.8, 0.6))
]
STEPD_CFGS = [
    {"window_size": n, "alpha_warning": w, "alpha_drift": d}
    for n in (1, 2, 3, 4)
    for (w, d) in ((0.05, 0.003), (0.3, 0.1), (0.5, 0.49))
] + [
    # levels above 1/2 (legal; the repository's tests use 0.6 / 0.7): with the continuity correction a tie or a small
    # *increase* in accuracy has a p-value just above 1/2, so only the explicit "accuracy decreased" guard keeps it silent
    {"window_size": n, "alpha_warning": w, "alpha_drift": d}
    for n in (2, 4)
    for (w, d) in ((0.7, 0.6), (0.95, 0.55))
]

DEPTH = {
    "quick": {"DDM": 14, "EDDM": 14, "STEPD": 12},
    "thorough": {"DDM": 20, "EDDM": 20, "STEPD": 18},
}


def _long_default(kind, L):
    """Piecewise-stationary default outcome sequences (1 = error)."""
    if kind == "burst":  # mostly correct, then a burst of errors, then recovery
        return [1 if i % 7 == 3 else 0 for i in range(L // 2)] + [1 if i % 3 else 0 for i in range(L // 4)] + [1 if i % 9 == 0 else 0 for i in range(L - L // 2 - L // 4)]
    # "ramp": the error density rises in steps
    out = []
    for blk, period in enumerate((11, 6, 3, 2)):
        out += [1 if i % period == 0 else 0 for i in range(L // 4)]
    return (out + [1] * L)[:L]


# near-default parameters: the long horizon (default warm-ups of 30) is reached by deviation-bounded histories
LONG_CFGS = {
    "DDM": [{"n_threshold": 30, "warning_scale": 2, "drift_scale": 3}, {"n_threshold": 20, "warning_scale": 1, "drift_scale": 2}],
    "EDDM": [{"n_threshold": 30, "warning_thresh": 0.95, "drift_thresh": 0.9}, {"n_threshold": 10, "warning_thresh": 0.95, "drift_thresh": 0.9}],
    "STEPD": [{"window_size": 30, "alpha_warning": 0.05, "alpha_drift": 0.003}, {"window_size": 12, "alpha_warning": 0.1, "alpha_drift": 0.01},
              {"window_size": 30, "alpha_warning": 0.6, "alpha_drift": 0.55}],
}


def _long_tasks(tier):
    out = []
    L = 120 if tier == "quick" else 160
    k = 1 if tier == "quick" else 2
    for name, cfgs in LONG_CFGS.items():
        for ci, p in enumerate(cfgs):
            for kind in ("burst", "ramp"):
                out += dev_split(
                    {
                        "system": name,
                        "cfg": {"id": "long%d" % ci, "params": p},
                        "mode": "dev",
                        "default": _long_default(kind, L),
                        "menu": [0, 1],
                        "k": k,
                        "label": "%s|long%d|%s" % (name, ci, kind),
                        "cost": 2,
                        "validate_every": 53,
                    }
                )
    return out


def tasks(tier, seed):
    out = _long_tasks(tier)
    split = 2 if tier == "quick" else 5
    for name, cfgs in (("DDM", DDM_CFGS), ("EDDM", EDDM_CFGS), ("STEPD", STEPD_CFGS)):
        d = DEPTH[tier][name]
        for ci, p in enumerate(cfgs):
            for prefix in itertools.product((0, 1), repeat=split):
                out.append(
                    {
                        "system": name,
                        "cfg": {"id": ci, "params": p},
                        "prefix": list(prefix),
                        "depth": d - split,
                        "label": "%s|%d|%s" % (name, ci, "".join(map(str, prefix))),
                        "cost": 3 if name == "STEPD" else 1,
                    }
                )
    return out


REQUIRED = [
    "drift_transitions",
    "warning_transitions",
    "third_or_later_epoch_starts",
    "recs_with_warning_before_drift",
    "exact_ties",
]


def describe(tier):
    return {
        "rule": "every binary outcome sequence of length n (prefix-shared DFS over the real detector, "
        "snapshots by deepcopy) per parameter set; a history is non-trivial when at least one of its "
        "updates reported warning or drift; histories are distinct by construction (distinct event sequences "
        "or distinct parameter sets)",
        "bounds": {
            "long_histories": "near-default parameters (warm-ups 10-30): two piecewise-stationary default sequences of length %d with every choice of <= %d flipped positions" % ((120, 1) if tier == "quick" else (160, 2)),
            "alphabet": ["correct", "error"],
            "depth": DEPTH[tier],
            "parameter_sets": {"DDM": len(DDM_CFGS), "EDDM": len(EDDM_CFGS), "STEPD": len(STEPD_CFGS)},
        },
        "explanation": "states = tree nodes (no transposition merging for history-keeping detectors); "
        "traces_validated_against_impl = maximal executions on which the real detector and the "
        "specification were compared after every update",
        "assumptions": [
            "DDM/EDDM running-deviation recurrence and the current-std form of the DDM thresholds are taken "
            "as the definition (DESIGN §2.5, pinned by test_ddm::test_warning)",
            "comparisons within relative 1e-9 of their threshold are numerically undecidable and follow the "
            "implementation (counted as near_tie_steered); exact ties are enforced where both sides are exact",
            "math.erfc / math.sqrt are trusted",
        ],
    }
