"""C16 — only agreement between label and prediction matters to error-based
detectors; arguments documented as unused are unused.

Twin oracle (DESIGN §4 C16): a *canonical* detector (fed through the shared
driver registry: plain 0/1 ints, unused arguments omitted) and one or more
*variant* detectors of the same class and parameters are advanced in lock-step
on the same history under the same numpy seed (``mc.rng.seed_step`` before
every call into menelaus).  After every update everything public (drift_state,
retraining_recs, counters, STEPD accuracies, ADWIN mean()/variance(), every
public instance attribute, kdq public node counts) must be equal bit-for-bit,
and either both calls are accepted or both raise the same exception type.

Families of runs (``cfg["mode"]``):
  enc  DDM, EDDM, STEPD, ADWINAccuracy: ALL 2^n outcome sequences, the variant
       is fed a re-encoding of the labels with the same agreement pattern (one
       encoding per detector object; several objects may share a search tree).
       The "roll<j>" encodings put y_true and y_pred into DIFFERENT 1-element
       containers (scalar, numpy scalar, list, tuple, nested list, arrays of
       shape (1,), (1,1), (), narrow-int / object arrays, pandas Series with
       default / integer / string index, 1x1 DataFrame); the pair of containers
       and the label kind change at every position (Latin-square schedule).
  cont same detectors: ALL 2^n outcome sequences x ALL ordered pairs (y_true
       container, y_pred container) of those 13 containers, the pair fixed for
       the whole history, the label kind (int / str / bool / float) rotating
       with the position: label and prediction come from different sources.
  mix  same detectors: every outcome sequence x every choice of <= k positions
       whose pair is replaced by another pair with the same agreement.
  lfr  LinearFourRates: ALL 4^n confusion-cell sequences, int-like encodings of
       the same 0/1 cell (incl. "box": tuple / nested list / Series / 0-d array /
       1x1 DataFrame, a different container for truth and prediction).
  X    concept-drift detectors: junk in the unused argument X (with labels).
  y    change / data-drift detectors (and MD3, which documents the same): junk
       in the unused y_true / y_pred of update() (and of set_reference() for
       batch detectors and MD3).

A plain labelled update of a concept-drift detector (the canonical call of the
modes enc / cont / mix / lfr / X) that raises is itself a violation: nothing allows it,
and the property could not be observed at all.  In mode y an exception raised
identically by both runs (CUSUM: zero standard deviation, PCACD: sklearn
parameter error) only ends the history.
"""
import itertools
import math

import numpy as np
import pandas as pd

from mc import rng
from mc.explorer import System, Violation, jsonable, dev_split
from checks.drivers import DRIVERS, ThresholdClassifier, md3_margin, MD3_REF

PROPERTY = "C16"

ERR = ("DDM", "EDDM", "STEPD", "ADWINAccuracy")
CONCEPT = ERR + ("LinearFourRates",)
UNUSED_Y = ("ADWIN", "CUSUM", "PageHinkley", "KdqTreeStreaming", "KdqTreeBatch", "HDDDM", "CDBD", "NNDVI", "PCACD")
# MD3 (a concept-drift detector that uses X) also documents y_true / y_pred of update() and
# set_reference() as "not used in MD3": covered by the general sentence of the property
UNUSED_Y_EXTRA = ("MD3",)


# ----------------------------------------------------------------------------
# bit-for-bit comparison of public observables
# ----------------------------------------------------------------------------
def _norm(o, depth=0):
    """Hashable normal form: floats by bit pattern (NaN == NaN), numpy scalars as
    their Python kind, containers structurally; objects by type only (no id())."""
    if o is None or isinstance(o, str):
        return o
    if isinstance(o, (bool, np.bool_)):
        return ("b", bool(o))
    if isinstance(o, (int, np.integer)):
        return ("i", int(o))
    if isinstance(o, (float, np.floating)):
        f = float(o)
        return ("f", "nan" if f != f else f.hex())
    if isinstance(o, np.ndarray):
        return ("a", tuple(o.shape), tuple(_norm(x, depth + 1) for x in o.ravel().tolist()))
    if isinstance(o, pd.DataFrame):
        return ("df", tuple(map(str, o.columns)), _norm(o.to_numpy(dtype=object), depth + 1))
    if isinstance(o, pd.Series):
        return ("sr", _norm(o.to_numpy(dtype=object), depth + 1))
    if isinstance(o, pd.Index):
        return ("ix", tuple(map(str, o)))
    if isinstance(o, (list, tuple)):
        return ("l", tuple(_norm(x, depth + 1) for x in o))
    if isinstance(o, dict):
        return ("d", tuple(sorted(((str(k), _norm(v, depth + 1)) for k, v in o.items()), key=lambda kv: kv[0])))
    if callable(o):
        return ("fn", getattr(o, "__qualname__", type(o).__qualname__))
    return ("obj", type(o).__qualname__)


def _kdq_counts(det):
    """public per-node counts of a kdq detector (idx columns are id()-based: dropped)."""
    if getattr(det, "_kdqtree", None) is None:
        return None
    try:
        df = det.to_plotly_dataframe()
    except Exception as e:
        try:
            df = det.to_plotly_dataframe(tree_id2=None)
        except Exception:
            return "unavailable:" + type(e).__name__
    cols = [c for c in ("name", "cell_count", "depth", "count_diff", "kss") if c in df.columns]
    return df[cols].to_numpy(dtype=object)


def public(d, det):
    """Everything public that a caller can read from the detector."""
    o = dict(d.obs(det))
    for k, v in vars(det).items():
        if not k.startswith("_"):
            o["attr:" + k] = v
    if d.name in ("KdqTreeStreaming", "KdqTreeBatch"):
        o["tree"] = _kdq_counts(det)
    return {k: _norm(v) for k, v in o.items()}


def _show(n):
    """normal form -> something readable in an artefact."""
    if isinstance(n, tuple):
        if len(n) == 2 and n[0] in ("b", "i"):
            return n[1]
        if len(n) == 2 and n[0] == "f":
            return n[1] if n[1] == "nan" else float.fromhex(n[1])
        return [_show(x) for x in n]
    return n


# ----------------------------------------------------------------------------
# label encodings: enc(o, pos) -> (y_true, y_pred); o = 0 agree / 1 disagree
# ----------------------------------------------------------------------------
def _pair(classes, o, pos, wrong=1):
    i = pos % len(classes)
    t = classes[i]
    p = t if not o else classes[(i + wrong) % len(classes)]
    return t, p


def _e_int01(o, pos):  # truth alternates 0,1 (canonical keeps truth = 1)
    return _pair((0, 1), o, pos)


def _e_i37(o, pos):
    return _pair((3, 7), o, pos)


def _e_ibig(o, pos):  # negative, and beyond int64 (object-dtype after np.array)
    return _pair((-5, 2 ** 70, 0), o, pos)


def _e_str(o, pos):
    return _pair(("cat", "dog"), o, pos)


def _e_strlen(o, pos):  # different lengths, empty string, prefix of one another
    return _pair(("a", "abc", "", "ab"), o, pos)


def _e_bool(o, pos):
    return _pair((True, False), o, pos)


def _e_float(o, pos):  # 0.1+0.2 and 0.3 are different labels
    return _pair((0.5, 1.5, 0.1 + 0.2, 0.3, -2.25, 1e300), o, pos)


_NP_TYPES = (np.int64, np.int8, np.uint8, np.float32, np.float64, np.bool_, np.str_, np.int32)


def _e_npscalar(o, pos):
    ty = _NP_TYPES[pos % len(_NP_TYPES)]
    t, p = _pair((1, 0), o, pos // len(_NP_TYPES))
    return ty(t), ty(p)


def _e_list1(o, pos):
    t, p = (_e_i37, _e_str, _e_bool, _e_float)[pos % 4](o, pos // 4)
    return [t], [p]


def _e_arr1(o, pos):
    k = pos % 5
    t, p = (_e_int01, _e_float, _e_str, _e_bool, _e_i37)[k](o, pos // 5)
    if k == 0:
        return np.array([t]), np.array([p])  # shape (1,)
    if k == 1:
        return np.array([[t]]), np.array([[p]])  # shape (1, 1)
    if k == 2:
        return np.array([t]), np.array([p])  # <U3 strings
    if k == 3:
        return np.array(t), np.array(p)  # 0-d
    return np.array([[[t]]], dtype=np.int16), np.array([[[p]]], dtype=np.int16)


def _e_box1(o, pos):  # other 1-element containers
    k = pos % 3
    t, p = (_e_i37, _e_str, _e_float)[k](o, pos // 3)
    if k == 0:
        return (t,), (p,)
    if k == 1:
        return pd.Series([t]), pd.Series([p])
    return pd.Series([t], index=["q"]), np.array([p])


def _e_three(o, pos):  # truth cycles through 3 classes, a wrong prediction is the next class
    return _pair((0, 1, 2), o, pos, wrong=1)


def _e_three_prev(o, pos):  # ... the previous class
    return _pair((0, 1, 2), o, pos, wrong=2)


def _e_five_str(o, pos):  # 5 string classes, the wrong class varies with the position
    return _pair(("a", "b", "c", "d", "e"), o, pos, wrong=1 + (pos // 5) % 4)


ENC = {
    "int01": _e_int01,
    "i37": _e_i37,
    "ibig": _e_ibig,
    "str": _e_str,
    "strlen": _e_strlen,
    "bool": _e_bool,
    "float": _e_float,
    "npscalar": _e_npscalar,
    "list1": _e_list1,
    "arr1": _e_arr1,
    "box1": _e_box1,
    "three": _e_three,
    "three_prev": _e_three_prev,
    "five_str": _e_five_str,
}


def _canonical_pair(o, pos):
    return 1, (0 if o else 1)


# ----------------------------------------------------------------------------
# containers of ONE label (families cont / roll): label and prediction usually come from different
# sources (y_true = y[i] from a column, y_pred = model.predict(row) / .tolist() / a Series slice ...), so
# the two single labels of one call arrive in DIFFERENT containers.  Every container below holds exactly
# one observation (np.array(y).ravel() has shape (1,)), the label inside keeps its kind and value.
# ----------------------------------------------------------------------------
KIND_LABELS = {
    "int": (3, 7, -5),
    "str": ("cat", "dog", ""),
    "bool": (True, False),
    "float": (0.5, 1.5, 0.1 + 0.2, 0.3),
}
KINDS = tuple(KIND_LABELS)
_NP_OF_KIND = {"int": np.int16, "str": np.str_, "bool": np.bool_, "float": np.float64}
# a second array dtype holding the same value: a narrow int, or an object array (a pandas object column's .values)
_ALT_DTYPE = {"int": np.int8, "str": object, "bool": object, "float": object}

CONT = {
    "scalar": lambda v, kind: v,
    "npscalar": lambda v, kind: _NP_OF_KIND[kind](v),
    "list": lambda v, kind: [v],
    "tuple": lambda v, kind: (v,),
    "nested": lambda v, kind: [[v]],
    "arr(1,)": lambda v, kind: np.array([v]),
    "arr(1,1)": lambda v, kind: np.array([[v]]),
    "arr0d": lambda v, kind: np.array(v),
    "arr_alt": lambda v, kind: np.array([v], dtype=_ALT_DTYPE[kind]),
    "series": lambda v, kind: pd.Series([v]),
    "series@5": lambda v, kind: pd.Series([v], index=[5]),
    "series@a": lambda v, kind: pd.Series([v], index=["a"], name="y"),
    "frame": lambda v, kind: pd.DataFrame({"y": [v]}, index=[2]),
}
CONTS = tuple(CONT)


def _cont_pair(ct, cp, kind, o, pos):
    t, p = _pair(KIND_LABELS[kind], o, pos // len(KINDS))
    return CONT[ct](t, kind), CONT[cp](p, kind)


def _make_cont_enc(ct, cp):
    # fixed ordered container pair for the whole history, the label kind rotates with the position
    def enc(o, pos):
        return _cont_pair(ct, cp, KINDS[pos % len(KINDS)], o, pos)

    return enc


# family cont: one detector object per ORDERED pair of containers (y_true container > y_pred container)
CONT_ENC = {"%s>%s" % (ct, cp): _make_cont_enc(ct, cp) for ct in CONTS for cp in CONTS}


def _make_roll_enc(j):
    # the container pair changes at every position (Latin-square schedule: offset j between the container of the
    # label and that of the prediction), and so does the label kind
    def enc(o, pos):
        n = len(CONTS)
        return _cont_pair(CONTS[pos % n], CONTS[(pos + j) % n], KINDS[(pos + j) % len(KINDS)], o, pos)

    return enc


ROLL_ENC = {"roll%d" % j: _make_roll_enc(j) for j in range(len(CONTS))}
ROLL = {"quick": ["roll%d" % j for j in (1, 4, 7, 10)], "thorough": ["roll%d" % j for j in (0, 1, 4, 7, 10, 12)]}

ALL_ENC = dict(ENC)
ALL_ENC.update(ROLL_ENC)

ENC_MIX = dict(ALL_ENC)
ENC_MIX["can"] = _canonical_pair  # the pair the driver registry feeds


# LinearFourRates: int-like encodings of one 0/1 confusion cell
def _l_bool(t, p, pos):
    return bool(t), bool(p)


_NP_INTS = (np.int64, np.int8, np.uint8, np.int32, np.uint16, np.intp)


def _l_npint(t, p, pos):
    ty = _NP_INTS[pos % len(_NP_INTS)]
    return ty(t), ty(p)


def _l_npbool(t, p, pos):
    return np.bool_(t), np.bool_(p)


def _l_list1(t, p, pos):
    if pos % 2:
        return [bool(t)], [bool(p)]
    return [t], [p]


def _l_arr1(t, p, pos):
    k = pos % 4
    if k == 0:
        return np.array([t]), np.array([p])
    if k == 1:
        return np.array([[t]], dtype=np.uint8), np.array([[p]], dtype=np.uint8)
    if k == 2:
        return np.array(bool(t)), np.array(bool(p))
    return np.array([t], dtype=np.int8), np.array([[p]])


_L_ALL = (_l_bool, _l_npint, _l_npbool, _l_list1, _l_arr1)


def _l_mixed(t, p, pos):  # a different encoding at every position, and for truth / prediction
    a = _L_ALL[pos % 5](t, p, pos // 5)[0]
    b = _L_ALL[(pos + 1 + pos // 5) % 5](t, p, pos // 3)[1]
    return a, b


_L_VAL = (int, bool, np.int8, np.uint8, np.bool_, np.int64)
_L_BOX = (
    lambda v: (v,),
    lambda v: [[v]],
    lambda v: pd.Series([v]),
    lambda v: pd.Series([v], index=["a"]),
    lambda v: np.array(v),
    lambda v: pd.DataFrame({"y": [v]}, index=[2]),
    lambda v: pd.Series([v], index=[5], dtype=object),
)


def _l_box(t, p, pos):  # the other 1-element containers, a different one for truth and prediction
    n = len(_L_BOX)
    a = _L_BOX[pos % n](_L_VAL[pos % len(_L_VAL)](t))
    b = _L_BOX[(pos + 1 + pos // n) % n](_L_VAL[(pos + 2) % len(_L_VAL)](p))
    return a, b


LFR_ENC = {
    "bool": _l_bool,
    "npint": _l_npint,
    "npbool": _l_npbool,
    "list1": _l_list1,
    "arr1": _l_arr1,
    "mixed": _l_mixed,
    "box": _l_box,
}


# ----------------------------------------------------------------------------
# junk for the unused arguments
# ----------------------------------------------------------------------------
class _Junk:
    """an object nothing can be done with"""

    def __repr__(self):
        return "<junk>"


def _x_row(pos):
    return np.array([[9.0, -3.0, 1e6]])


def _x_frame(pos):
    return pd.DataFrame({"a": [1.0, 2.0], "b": ["x", "y"]})


def _x_string(pos):
    return "hello!"


def _x_rotate(pos):
    k = pos % 8
    if k == 0:
        return [1, 2]
    if k == 1:
        return pd.DataFrame({"u": [0.5], "v": [1], "w": ["z"]})
    if k == 2:
        return "junk"
    if k == 3:
        return np.zeros((3, 2))
    if k == 4:
        return float("nan")
    if k == 5:
        return _Junk()
    if k == 6:
        return {"k": 1}
    return np.array([[5.0]])


XJUNK = {"row": _x_row, "frame": _x_frame, "string": _x_string, "rotate": _x_rotate}


def _y_scalar(pos):
    return 7, -1.5


def _y_string(pos):
    return "junk", "x"


def _y_array(pos):  # arrays of any length / shape, never matching the data
    k = pos % 5
    if k == 0:
        return np.array([]), [1, 2, 3]
    if k == 1:
        return np.arange(7), np.ones((2, 3))
    if k == 2:
        return ["a", "b"], np.array([[1], [2]])
    if k == 3:
        return [0], np.zeros(1)
    return np.arange(100.0), [[1, 2], [3, 4], [5, 6]]


def _y_rotate(pos):  # one-sided, objects, frames
    k = pos % 6
    if k == 0:
        return None, 3
    if k == 1:
        return "s", None
    if k == 2:
        return _Junk(), float("nan")
    if k == 3:
        return np.arange(4), "x"
    if k == 4:
        return pd.DataFrame({"a": [1, 2, 3]}), pd.Series([1.0])
    return True, [None]


YJUNK = {"scalar": _y_scalar, "string": _y_string, "array": _y_array, "rotate": _y_rotate}


class _WithX:
    """Forwards update(y_true, y_pred) with junk in X (keyword and positional)."""

    def __init__(self, det, junk, positional):
        self._det, self._junk, self._positional = det, junk, positional

    def update(self, y_true, y_pred):
        if self._positional:
            return self._det.update(y_true, y_pred, self._junk)
        return self._det.update(y_true=y_true, y_pred=y_pred, X=self._junk)


class _WithY:
    """Forwards update(X) / set_reference(X) with junk in y_true / y_pred."""

    def __init__(self, det, yt, yp, positional):
        self._det, self._yt, self._yp, self._positional = det, yt, yp, positional

    def update(self, X):
        if self._positional:
            return self._det.update(X, self._yt, self._yp)
        return self._det.update(X, y_true=self._yt, y_pred=self._yp)

    def set_reference(self, X):
        if self._positional:
            return self._det.set_reference(X, self._yt, self._yp)
        return self._det.set_reference(X, y_true=self._yt, y_pred=self._yp)

    def __getattr__(self, a):  # everything else (MD3: give_oracle_label, classifier, ...) is the detector's
        return getattr(self._det, a)


# ----------------------------------------------------------------------------
# the system
# ----------------------------------------------------------------------------
class Twins(System):
    def __init__(self, driver):
        self.d = driver
        self.name = driver.name

    # -- construction --------------------------------------------------------
    def _make(self, cfg, variant):
        d, p = self.d, cfg["params"]
        rng.seed_step(0, self.name, cfg["id"], "init")
        if variant is not None and cfg["mode"] == "y" and self.name == "MD3":
            # as the registry's make(), with junk labels in set_reference
            clf = ThresholdClassifier(margin=0.3)
            clf.fit(MD3_REF[["x0", "x1"]], MD3_REF["y"])
            det = d.cls(clf=clf, margin_calculation_function=md3_margin, **d.ctor(p))
            yt, yp = YJUNK[variant](-1)
            det.set_reference(MD3_REF.copy(), y_true=yt, y_pred=yp, target_name="y")
            return det
        if variant is None or cfg["mode"] != "y" or d.kind != "batch":
            return d.make(p)
        # batch detector, y-variant: the initial reference also carries junk labels
        det = d.cls(**d.ctor(p))
        if not p.get("_no_initial_ref"):
            yt, yp = YJUNK[variant](-1)
            det.set_reference(d.batch(d.initial_ref, p), y_true=yt, y_pred=yp)
        return det

    def variants(self, cfg):
        return ["mix"] if cfg["mode"] == "mix" else list(cfg["variants"])

    def init(self, cfg):
        return {
            "canon": self._make(cfg, None),
            "tw": [self._make(cfg, v) for v in self.variants(cfg)],
            "drifts": 0,
            "used": 0,
        }

    def alphabet(self, cfg, state, pos):
        p = cfg["params"]
        mode = cfg["mode"]
        if mode == "mix":
            evs = []
            for o in (0, 1):
                evs.append([o, cfg["base"]])
                if state["used"] < cfg["k"]:
                    evs += [[o, a] for a in cfg["alts"] if a != cfg["base"]]
            return evs
        if self.name == "MD3":
            return list(self.d.enabled(state["canon"]))
        evs = list(self.d.alphabet(p))
        if mode == "y" and self.d.kind == "batch":
            evs += [["ref", i] for i in cfg.get("refs", ())]
        return evs

    # -- feeding one variant ---------------------------------------------------
    def _feed_variant(self, cfg, det, variant, ev, pos):
        d, p, mode = self.d, cfg["params"], cfg["mode"]
        if mode == "enc":
            yt, yp = ALL_ENC[variant](ev, pos)
            det.update(y_true=yt, y_pred=yp)
        elif mode == "cont":
            yt, yp = CONT_ENC[variant](ev, pos)
            det.update(y_true=yt, y_pred=yp)
        elif mode == "mix":
            yt, yp = ENC_MIX[ev[1]](ev[0], pos)
            det.update(y_true=yt, y_pred=yp)
        elif mode == "lfr":
            t, q = divmod(ev, 2)
            yt, yp = LFR_ENC[variant](t, q, pos)
            det.update(y_true=yt, y_pred=yp)
        elif mode == "X":
            d.feed(_WithX(det, XJUNK[variant](pos), positional=bool(pos % 2)), ev, p)
        elif mode == "y":
            yt, yp = YJUNK[variant](pos)
            d.feed(_WithY(det, yt, yp, positional=bool(pos % 2)), ev, p)
        else:
            raise ValueError(mode)

    # -- one transition ----------------------------------------------------------
    def step(self, cfg, state, ev, pos, ctx):
        d, p, mode, name = self.d, cfg["params"], cfg["mode"], self.name
        seed_args = (ctx.seed, name, cfg["id"], pos)
        sym = ev[0] if mode == "mix" else ev
        is_ref = mode != "mix" and isinstance(ev, (list, tuple))
        if mode == "mix" and ev[1] != cfg["base"]:
            state["used"] += 1

        # canonical run: registry feed (0/1 ints, unused arguments omitted)
        C = state["canon"]
        rng.seed_step(*seed_args)
        c_exc = None
        try:
            d.feed(C, sym, p)
        except Exception as e:
            c_exc = e
        if c_exc is not None and mode != "y":
            # a plain labelled update of a concept-drift detector: nothing allows it to fail, and the
            # property could not be observed at all if it did
            raise Violation(
                "canonical-exception",
                "%s: update(y_true=1, y_pred=%s) with plain ints raised %r at step %d"
                % (name, "0/1" if mode != "lfr" else "cell %r" % (sym,), c_exc, pos),
                expected="accepted", observed=repr(c_exc), sig="canonical-exception:%s:%s" % (name, type(c_exc).__name__),
            )
        oc = None if c_exc is not None else public(d, C)

        what = {"enc": "encoding", "cont": "containers (y_true>y_pred)", "mix": "pair encoding (<= k positions re-encoded)", "lfr": "cell encoding", "X": "unused X", "y": "unused y"}[mode]
        for v, T in zip(self.variants(cfg), state["tw"]):
            vname = ev[1] if mode == "mix" else v
            rng.seed_step(*seed_args)
            t_exc = None
            try:
                self._feed_variant(cfg, T, v, ev, pos)
            except Exception as e:
                t_exc = e
            if (c_exc is None) != (t_exc is None) or (c_exc is not None and type(c_exc) is not type(t_exc)):
                raise Violation(
                    "%s-exception" % mode,
                    "%s: canonical call %s but the call with %s=%s (%s) %s at step %d"
                    % (
                        name,
                        "raised %r" % (c_exc,) if c_exc is not None else "was accepted",
                        what, vname, self._describe(cfg, v, ev, pos),
                        "raised %r" % (t_exc,) if t_exc is not None else "was accepted",
                        pos,
                    ),
                    expected=repr(c_exc), observed=repr(t_exc),
                    sig="%s-exception:%s:%s:%s" % (mode, name, vname, type(t_exc).__name__),
                )
            if c_exc is not None:
                continue
            ot = public(d, T)
            bad = sorted(k for k in set(oc) | set(ot) if oc.get(k, "<absent>") != ot.get(k, "<absent>"))
            if bad:
                raise Violation(
                    "%s-twin" % mode,
                    "%s: outputs %s differ from the canonical run at step %d when the call carries %s=%s (%s)"
                    % (name, bad, pos, what, vname, self._describe(cfg, v, ev, pos)),
                    expected={k: _show(oc.get(k)) for k in bad},
                    observed={k: _show(ot.get(k)) for k in bad},
                    sig="%s-twin:%s:%s:%s" % (mode, name, vname, ",".join(b.replace("attr:", "") for b in bad)),
                )
            tag = {"enc": "enc", "cont": "cont", "mix": "pair", "lfr": "lfr_enc", "X": "unusedX", "y": "unusedY"}[mode]
            if not (mode == "mix" and vname == cfg["base"]):
                ctx.count("%s:%s" % (tag, vname))
                if mode in ("X", "y"):
                    ctx.count("%s:%s:%s" % (tag, name, vname))

        if c_exc is not None:
            # the object's life ends here in both runs (e.g. CUSUM: zero standard deviation)
            ctx.terminal = True
            ctx.count("agreed_exception:%s:%s" % (name, type(c_exc).__name__))
            return {"exception": type(c_exc).__name__}

        obs = jsonable(d.obs(C))
        st = obs["state"]
        if is_ref:
            ctx.mark("set_reference_with_junk_labels")
        if mode == "mix" and ev[1] != cfg["base"]:
            ctx.mark("reencoded_positions")
            if state["used"] == 2:
                ctx.count("two_reencoded_positions")
            if st is not None:
                ctx.count("alarm_at_reencoded_position")
        if st is not None:
            ctx.mark("%s_transitions" % st)
            ctx.count("alarm:%s:%s" % (mode, name))
            for v in self.variants(cfg):
                vname = ev[1] if mode == "mix" else v
                if mode in ("enc", "lfr", "cont"):
                    ctx.count("alarm_under_%s:%s" % ({"enc": "enc", "lfr": "lfr_enc", "cont": "cont"}[mode], vname))
                elif mode in ("X", "y"):
                    ctx.count("alarm_with_%s:%s" % ("unusedX" if mode == "X" else "unusedY", vname))
            if st == "drift":
                state["drifts"] += 1
                ctx.count("drift:%s:%s" % (mode, name))
                if state["drifts"] == 2:
                    ctx.count("ge2_drifts:%s" % mode)
                    ctx.count("ge2_drifts:%s:%s" % (mode, name))
                    if mode == "mix" and state["used"] > 0:
                        ctx.count("ge2_drifts_with_reencoded_position")
        return obs

    def _describe(self, cfg, v, ev, pos):
        """what the variant call carried (only built for messages)."""
        try:
            return " ".join(self._describe1(cfg, v, ev, pos).split())
        except Exception as e:  # never let a message hide a violation
            return "<%s>" % type(e).__name__

    def _describe1(self, cfg, v, ev, pos):
        mode = cfg["mode"]
        if mode == "enc":
            return "y_true=%r, y_pred=%r" % ALL_ENC[v](ev, pos)
        if mode == "cont":
            return "y_true=%r, y_pred=%r" % CONT_ENC[v](ev, pos)
        if mode == "mix":
            return "y_true=%r, y_pred=%r" % ENC_MIX[ev[1]](ev[0], pos)
        if mode == "lfr":
            return "y_true=%r, y_pred=%r" % LFR_ENC[v](*divmod(ev, 2), pos)
        if mode == "X":
            return "X=%s" % repr(XJUNK[v](pos))[:80]
        yt, yp = YJUNK[v](pos)
        return "y_true=%s, y_pred=%s" % (repr(yt)[:60], repr(yp)[:60])


SYSTEMS = {n: Twins(DRIVERS[n]) for n in CONCEPT + UNUSED_Y + UNUSED_Y_EXTRA}


# ----------------------------------------------------------------------------
# family cross (round 5): TWO detector objects of (possibly) DIFFERENT classes alive in one process, each fed its OWN
# encoding of the labels.  All label-reading detectors share the base-class validation (menelaus/detector.py), so state
# kept outside the objects there (a module-level memo keyed by ==/hash: 1 == 1.0 == True == np.int64(1)) lets the encoding
# one object was fed decide what ANOTHER object (of another class) receives.  One *execution* = pristine process state
# (mc.procstate.reset() + every module-level functools cache of menelaus cleared), then for every cell history of the campaign a fresh object A (class cA, encoding eA) and a fresh
# object B (class cB, encoding eB) are fed the history (schedule seq: A completely, then B is built and fed; alt: both
# built, A and B alternately at every position); after every update each object must equal — bit-for-bit, all public
# observables, no exception — the canonical 0/1 run of ITS class on the same history made solo in a pristine process
# state.  Enumerated: every ordered pair of (class, encoding) x both schedules; the campaign of one execution is every
# 4^n cell history in lexicographic order followed by long histories (several epochs), so the process-level state is
# also carried from one pair of objects to the next pair of the same two kinds.
# ----------------------------------------------------------------------------
_V_TYPES = {
    "v_int": int, "v_bool": bool, "v_float": float, "v_i64": np.int64, "v_i8": np.int8, "v_u8": np.uint8,
    "v_f16": np.float16, "v_f32": np.float32, "v_f64": np.float64, "v_npbool": np.bool_, "v_str": str, "v_npstr": lambda v: np.str_(str(v)),
}


def _make_v_enc(ty):
    # value-preserving: the cell (t, p) itself, both labels converted to ONE type (0 / 1, 0.0 / 1.0, False / True, "0" / "1")
    def enc(t, p, pos):
        return ty(t), ty(p)

    return enc


V_ENC = {k: _make_v_enc(ty) for k, ty in _V_TYPES.items()}


def _cross_encodings(cls):
    """names of the encodings an object of this class is fed in the family cross"""
    if cls == "LinearFourRates":
        return ["l_int"] + ["l_" + e for e in LFR_ENC]
    return list(V_ENC) + list(ENC)


def _cross_labels(cls, enc, cell, pos):
    t, p = divmod(cell, 2)
    if cls == "LinearFourRates":
        if enc == "l_int":
            return t, p
        return LFR_ENC[enc[2:]](t, p, pos)
    if enc in V_ENC:
        return V_ENC[enc](t, p, pos)
    return ENC[enc](int(t != p), pos)


def _cross_symbol(cls, cell):
    """the registry symbol of the canonical run: LFR the cell, the error-based detectors the outcome (1 = disagree)"""
    if cls == "LinearFourRates":
        return cell
    t, p = divmod(cell, 2)
    return int(t != p)


# LinearFourRates in this family: Monte-Carlo bounds from the 2nd sample on, few simulations (the family runs ~10^5 updates)
CROSS_LFR_PARAMS = {"time_decay_factor": 0.6, "warning_level": 0.2, "detect_level": 0.05, "burn_in": 1, "num_mc": 3, "subsample": 1}
CROSS_DEPTH = {"quick": 1, "thorough": 2}
# long cell histories closing the campaign (error-based detectors: several drifts with parameter set 0)
CROSS_LONG = {
    "quick": {"err": [[3, 3, 1, 2, 0, 1, 3, 2]], "lfr": [[3, 0, 1, 2, 2]]},
    "thorough": {"err": [[3, 3, 3, 1, 2, 1, 0, 0, 2, 1, 3, 2], [0, 2, 1, 1, 3, 0, 2, 2, 1, 3, 3, 3, 1, 2]], "lfr": [[3, 0, 1, 2, 2, 1], [1, 1, 2, 3, 0, 0, 3, 2]]},
}
CROSS_SCHED = ("seq", "alt")


def _cross_params(cls, tier):
    if cls == "LinearFourRates":
        return CROSS_LFR_PARAMS
    return list(DRIVERS[cls].configs(tier))[0]


def _cross_campaign(cA, cB, tier):
    lfr = "LinearFourRates" in (cA, cB)
    hs = [list(h) for h in itertools.product((0, 1, 2, 3), repeat=CROSS_DEPTH[tier])]
    return hs + [list(h) for h in CROSS_LONG[tier]["lfr" if lfr else "err"]]


def _pristine():
    """pristine process state: mc.procstate.reset() plus every functools cache bound at module level or as a class attribute
    in a menelaus module (procstate clears the caches it finds on classes; a module-level ``@lru_cache`` function is not a
    plain function object and is not seen there, so it is cleared here)."""
    import sys
    from mc import procstate

    procstate.reset()
    for name, mod in list(sys.modules.items()):
        if mod is None or not (name == "menelaus" or name.startswith("menelaus.")):
            continue
        for v in list(vars(mod).values()):
            objs = [v]
            if isinstance(v, type) and getattr(v, "__module__", None) == name:
                objs += [getattr(a, "__func__", a) for a in vars(v).values()]
            for o in objs:
                cc = getattr(o, "cache_clear", None)
                if cc is not None and not isinstance(o, type):
                    try:
                        cc()
                    except Exception:
                        pass



def _cross_solo(cls, params, hist, seed):
    """canonical run of one object, solo, in a pristine process state: list of public observables after every update"""
    _pristine()
    d = DRIVERS[cls]
    rng.seed_step(0, cls, "cross", "init")
    det = d.make(params)
    out = []
    for pos, cell in enumerate(hist):
        rng.seed_step(seed, cls, "cross", pos)
        try:
            d.feed(det, _cross_symbol(cls, cell), params)
        except Exception as e:
            raise Violation(
                "canonical-exception", "%s: the canonical 0/1 update raised %r at step %d of cell history %r (solo, pristine process)" % (cls, e, pos, hist),
                expected="accepted", observed=repr(e), sig="canonical-exception:%s:%s" % (cls, type(e).__name__))
        out.append(public(d, det))
    return out


class _CrossObj:
    def __init__(self, role, cls, enc, params, hist, seed, solo):
        self.role, self.cls, self.enc, self.params, self.hist, self.seed, self.solo = role, cls, enc, params, hist, seed, solo
        self.d = DRIVERS[cls]
        rng.seed_step(0, cls, "cross", "init")
        self.det = self.d.make(params)
        self.pos = 0

    def feed(self, other, sched, stats):
        pos, cls, enc = self.pos, self.cls, self.enc
        yt, yp = _cross_labels(cls, enc, self.hist[pos], pos)
        rng.seed_step(self.seed, cls, "cross", pos)
        where = "object %s (%s fed encoding %s) at step %d of cell history %r, schedule %s, the other object of the process: %s fed encoding %s" % (
            self.role, cls, enc, pos, self.hist, sched, other[0], other[1])
        try:
            self.det.update(y_true=yt, y_pred=yp)
        except Exception as e:
            raise Violation(
                "cross-exception", "%s: update(y_true=%r, y_pred=%r) raised %r although the canonical solo run accepts the pair" % (where, yt, yp, e),
                expected="accepted", observed=repr(e), sig="cross-exception:%s:%s:%s" % (cls, enc, type(e).__name__))
        o = public(self.d, self.det)
        oc = self.solo[pos]
        bad = sorted(k for k in set(oc) | set(o) if oc.get(k, "<absent>") != o.get(k, "<absent>"))
        if bad:
            raise Violation(
                "cross-twin", "%s: outputs %s differ from the canonical solo run (y_true=%r, y_pred=%r)" % (where, bad, yt, yp),
                expected={k: _show(oc.get(k)) for k in bad}, observed={k: _show(o.get(k)) for k in bad},
                sig="cross-twin:%s:%s:%s" % (cls, enc, ",".join(b.replace("attr:", "") for b in bad)))
        self.pos += 1
        st = self.det.drift_state
        if st is not None:
            stats["cross_%s_in_object_%s" % (st, self.role)] += 1
            stats["cross_alarm:%s" % cls] += 1
            if st == "drift":
                self.drifts = getattr(self, "drifts", 0) + 1
                if self.drifts == 2:
                    stats["cross_ge2_drifts_in_object_%s" % self.role] += 1
        return st


def _cross_exec(cfg, campaign, seed, stats, solo_of):
    """ONE execution: pristine process state, then one pair of fresh objects per history of the campaign."""
    (cA, eA), (cB, eB), sched = cfg["A"], cfg["B"], cfg["sched"]
    pA, pB = cfg["paramsA"], cfg["paramsB"]
    solos = [(solo_of(cA, pA, h), solo_of(cB, pB, h)) for h in campaign]  # before the reset: they reset themselves
    _pristine()
    nontrivial = False
    for h, (sA, sB) in zip(campaign, solos):
        A = _CrossObj("A", cA, eA, pA, h, seed, sA)
        if sched == "seq":
            for _ in h:
                nontrivial |= A.feed((cB, eB), sched, stats) is not None
            B = _CrossObj("B", cB, eB, pB, h, seed, sB)
            for _ in h:
                nontrivial |= B.feed((cA, eA), sched, stats) is not None
        else:
            B = _CrossObj("B", cB, eB, pB, h, seed, sB)
            for _ in h:
                nontrivial |= A.feed((cB, eB), sched, stats) is not None
                nontrivial |= B.feed((cA, eA), sched, stats) is not None
        stats["transitions"] += 2 * len(h)
        stats["states"] += 2 * len(h)
        stats["cross_object_pairs_run"] += 1
    return nontrivial


class Cross(System):
    """replayable form of one execution of the family cross: the single event is the campaign (list of cell histories)"""
    name = "Cross"

    def init(self, cfg):
        return {"done": 0}

    def alphabet(self, cfg, state, pos):
        return []

    def step(self, cfg, state, ev, pos, ctx):
        memo = {}

        def solo_of(cls, params, h):
            k = (cls, tuple(h))
            if k not in memo:
                memo[k] = _cross_solo(cls, params, h, ctx.seed)
            return memo[k]

        _cross_exec(cfg, [list(h) for h in ev], ctx.seed, ctx.stats, solo_of)
        state["done"] += 1
        ctx.terminal = True
        return {"campaign_histories": len(ev)}


SYSTEMS["Cross"] = Cross()
PAIR_EXCLUDE = ("Cross",)


def cross_task(task, seed):
    """every (encoding of A) x (encoding of B) for one ordered pair of classes and one schedule"""
    import time
    from collections import Counter
    from mc.explorer import artefact

    t0 = time.time()
    tier, cA, cB, sched = task["tier"], task["A"], task["B"], task["sched"]
    stats = Counter()
    violations, samples = [], []
    pA, pB = _cross_params(cA, tier), _cross_params(cB, tier)
    campaign = _cross_campaign(cA, cB, tier)
    memo = {}
    bad_solo = {}

    def solo_of(cls, params, h):
        k = (cls, tuple(h))
        if k in bad_solo:
            raise bad_solo[k]
        if k not in memo:
            try:
                memo[k] = _cross_solo(cls, params, h, seed)
            except Violation as v:
                bad_solo[k] = v
                raise
        return memo[k]

    reported = set()
    for eA in _cross_encodings(cA):
        for eB in _cross_encodings(cB):
            cfg = {"id": "cross", "mode": "cross", "A": [cA, eA], "B": [cB, eB], "sched": sched, "paramsA": pA, "paramsB": pB}
            stats["executions"] += 1
            try:
                nt = _cross_exec(cfg, campaign, seed, stats, solo_of)
            except Violation as v:
                stats["violations_raw"] += 1
                if v.sig not in reported or len(violations) < 3:
                    reported.add(v.sig)
                    violations.append(artefact(PROPERTY, SYSTEMS["Cross"], cfg, seed, [campaign], v))
                continue
            if nt:
                stats["nontrivial_executions"] += 1
            stats["cross:%s>%s" % (cA, cB)] += 1
            stats["cross_sched:%s" % sched] += 1
            stats["cross_encA:%s" % eA] += 1
            stats["cross_encB:%s" % eB] += 1
            if cA != cB:
                stats["cross_different_classes"] += 1
            if len(samples) < 1:
                samples.append({"system": "Cross", "cfg": jsonable(cfg), "events": [campaign], "nontrivial_events": int(nt)})
    return {"stats": dict(stats), "violations": violations, "samples": samples, "wall": time.time() - t0}


def _cross_tasks(tier):
    out = []
    for cA in CONCEPT:
        for cB in CONCEPT:
            for sched in CROSS_SCHED:
                lfr = (cA == "LinearFourRates") + (cB == "LinearFourRates")
                out.append({"fn": "cross_task", "system": "Cross", "tier": tier, "A": cA, "B": cB, "sched": sched,
                            "label": "Cross|%s>%s|%s" % (cA, cB, sched), "cost": 30 * (1 + 3 * lfr)})
    return out


# ----------------------------------------------------------------------------
# bounds
# ----------------------------------------------------------------------------
ENC_DEPTH = {"quick": 10, "thorough": 14}
MIX = {
    # depth, k, alternatives, bases (base "can" = the registry's own pair: the run differs from the
    # canonical one only at the re-encoded positions; other bases only on parameter set 0)
    "quick": (6, 2, ["str", "arr1", "three"], ["can"]),
    "thorough": (8, 2, ["i37", "str", "bool", "arr1", "three"], ["can", "five_str"]),
}
LFR_DEPTH = {"quick": 5, "thorough": 7}
X_DEPTH = {
    "quick": {"DDM": 10, "EDDM": 10, "STEPD": 10, "ADWINAccuracy": 10, "LinearFourRates": 4},
    "thorough": {"DDM": 12, "EDDM": 12, "STEPD": 12, "ADWINAccuracy": 12, "LinearFourRates": 6},
}
Y_DEPTH = {
    "quick": {"ADWIN": 7, "CUSUM": 5, "PageHinkley": 5, "KdqTreeStreaming": 5, "KdqTreeBatch": 3, "HDDDM": 4, "CDBD": 4, "NNDVI": 4, "MD3": 7},
    "thorough": {"ADWIN": 9, "CUSUM": 7, "PageHinkley": 6, "KdqTreeStreaming": 7, "KdqTreeBatch": 4, "HDDDM": 5, "CDBD": 5, "NNDVI": 5, "MD3": 10},
}
Y_REFS = [1]  # batch detectors: set_reference(menu[1], junk labels) is an event too
DEV_K = {"quick": {"PCACD": 1, "KdqTreeStreaming": 0, "LinearFourRates": 1}, "thorough": {"PCACD": 2, "KdqTreeStreaming": 1, "LinearFourRates": 2}}
# long default histories (deviation-bounded): PCACD as in C01; KdqTreeStreaming several epochs
KDQS_DEFAULT = [0, 1, 1, 5, 5, 5, 0, 0, 1, 1, 1, 5, 5, 5, 5, 0, 0, 0]
# LinearFourRates (parameter set 1): 4 x TP, 4 x FN, twice -- two drifts for every seed tried
LFR_DEFAULT = [3, 3, 3, 3, 1, 1, 1, 1, 3, 3, 3, 3, 1, 1, 1, 1]
LFR_DEV_CFG = 1
_E = list(ENC)
ENC_GROUPS = [_E[:7], _E[7:]]  # encodings sharing one search tree (one detector object per encoding)
# family roll (mode enc, same depth): container pair and label kind change at every position
ROLL_GROUP = {"quick": 4, "thorough": 3}  # roll encodings sharing one search tree
# family cont: ALL ordered pairs of the containers, fixed for the whole history; all 2^n outcome sequences
CONT_DEPTH = {"quick": 6, "thorough": 9}


def _enc_groups(tier):
    r = ROLL[tier]
    return ENC_GROUPS + [r[i:i + ROLL_GROUP[tier]] for i in range(0, len(r), ROLL_GROUP[tier])]


def _cont_groups():
    # one search tree per container of y_true: its detector objects differ in the container of y_pred
    return [(ct, ["%s>%s" % (ct, cp) for cp in CONTS]) for ct in CONTS]
COST = {"KdqTreeBatch": 60, "LinearFourRates": 20, "HDDDM": 30, "CDBD": 25, "NNDVI": 8, "KdqTreeStreaming": 10, "PageHinkley": 4, "CUSUM": 3, "STEPD": 2, "ADWINAccuracy": 2}

# ADWINAccuracy: with 0/1 input the registry's parameter sets need >= 10 samples for a cut; this
# additional one (conservative bound, delta = 1) cuts on windows like 0,0,1,1 so several epochs fit the bound
ADWINACC_EXTRA = {"delta": 1.0, "max_buckets": 5, "new_sample_thresh": 1, "window_size_thresh": 0, "subwindow_size_thresh": 1, "conservative_bound": True}


def _configs(name, tier, mode):
    cfgs = list(DRIVERS[name].configs(tier))
    if name == "ADWINAccuracy":
        cfgs.append(ADWINACC_EXTRA)
    cfgs = list(enumerate(cfgs))
    if mode == "y" and name in ("HDDDM", "CDBD") and tier == "quick":
        cfgs = cfgs[:3]
    return cfgs


def _dfs_tasks(name, cfg, depth, split, label, cost, alphabet, validate_every=499):
    out = []
    split = min(split, depth)
    for pre in itertools.product(alphabet, repeat=split):
        out.append(
            {
                "system": name,
                "cfg": cfg,
                "prefix": [list(e) if isinstance(e, (list, tuple)) else e for e in pre],
                "depth": depth - split,
                "label": "%s|%s|%s" % (name, label, ",".join(str(e) for e in pre)),
                "cost": cost,
                "validate_every": validate_every,
            }
        )
    return out


def _lfr_dev(cfg, tier, label):
    """long LinearFourRates history (several epochs) with <= k positions replaced by another cell."""
    return dev_split(
        {
            "system": "LinearFourRates", "cfg": cfg, "mode": "dev", "default": LFR_DEFAULT, "menu": [0, 1, 2, 3],
            "k": DEV_K[tier]["LinearFourRates"], "label": "LinearFourRates|" + label, "cost": 12 if tier != "quick" else 4,
            "validate_every": 101,
        }
    )


def tasks(tier, seed):
    out = []
    thorough = tier != "quick"
    # -- enc: all 2^n outcome sequences under each encoding --------------------
    n = ENC_DEPTH[tier]
    for name in ERR:
        for ci, p in _configs(name, tier, "enc"):
            for gi, grp in enumerate(_enc_groups(tier)):
                fam = "enc" if gi < len(ENC_GROUPS) else "enc-roll"
                cfg = {"id": "enc%d" % ci, "mode": "enc", "params": p, "variants": grp}
                out += _dfs_tasks(name, cfg, n, 3 if thorough else 0, "%s|%d|g%d" % (fam, ci, gi),
                                  COST.get(name, 1) * (8 if thorough else 4), (0, 1))
    # -- cont: all outcome sequences x all ordered pairs of 1-element containers ---
    n = CONT_DEPTH[tier]
    for name in ERR:
        for ci, p in _configs(name, tier, "cont"):
            for ct, grp in _cont_groups():
                cfg = {"id": "cont%d" % ci, "mode": "cont", "params": p, "variants": grp}
                out += _dfs_tasks(name, cfg, n, 1 if thorough else 0, "cont|%d|%s" % (ci, ct),
                                  COST.get(name, 1) * (3 if thorough else 1), (0, 1))
    # -- mix: <= k positions re-encoded differently from the rest ---------------
    depth, k, alts, bases = MIX[tier]
    for name in ERR:
        for ci, p in _configs(name, tier, "mix"):
            for base in bases:
                if base != "can" and ci != 0:
                    continue
                cfg = {"id": "mix%d" % ci, "mode": "mix", "params": p, "base": base, "alts": alts, "k": k}
                first = [[o, e] for o in (0, 1) for e in [base] + [a for a in alts if a != base]]
                out += _dfs_tasks(name, cfg, depth, 2 if thorough else 1, "mix|%d|%s" % (ci, base),
                                  COST.get(name, 1) * (6 if thorough else 3), first)
    # -- lfr: all 4^n cell sequences under int-like encodings -------------------
    n = LFR_DEPTH[tier]
    for ci, p in _configs("LinearFourRates", tier, "lfr"):
        cfg = {"id": "lfr%d" % ci, "mode": "lfr", "params": p, "variants": list(LFR_ENC)}
        out += _dfs_tasks("LinearFourRates", cfg, n, 3 if thorough else 2, "lfr|%d" % ci, 40 if thorough else 10, (0, 1, 2, 3), 101)
        if ci == LFR_DEV_CFG:
            out += _lfr_dev(cfg, tier, "lfr|%d|dev" % ci)
    # -- X: junk in the unused X of the concept-drift detectors -----------------
    for name in CONCEPT:
        d = DRIVERS[name]
        n = X_DEPTH[tier][name]
        lfr = name == "LinearFourRates"
        for ci, p in _configs(name, tier, "X"):
            cfg = {"id": "X%d" % ci, "mode": "X", "params": p, "variants": list(XJUNK)}
            out += _dfs_tasks(name, cfg, n, (2 if thorough else 1) if lfr else (2 if thorough else 0), "X|%d" % ci,
                              (30 if lfr else 2) if thorough else (8 if lfr else 2), d.alphabet(p), 101 if lfr else 499)
            if lfr and ci == LFR_DEV_CFG:
                out += _lfr_dev(cfg, tier, "X|%d|dev" % ci)
    # -- y: junk in the unused y_true / y_pred ------------------------------------
    for name in UNUSED_Y + UNUSED_Y_EXTRA:
        d = DRIVERS[name]
        for ci, p in _configs(name, tier, "y"):
            cfg = {"id": "y%d" % ci, "mode": "y", "params": p, "variants": list(YJUNK)}
            if name == "MD3":  # the enabled events depend on the state (update vs give_oracle_label)
                out += _dfs_tasks(name, cfg, Y_DEPTH[tier][name], 1, "y|%d" % ci, 10, ("u_in", "u_out"), 211)
                continue
            default = None
            if name == "PCACD":
                w = p["window_size"]
                L = 5 * w + 2
                # two quiet windows, a jump to the outlier symbol, and back (as in C01)
                default = [(i % 3) for i in range(2 * w)] + [3] * w + [(i % 3) for i in range(L - 3 * w)]
            elif name == "KdqTreeStreaming":
                default = KDQS_DEFAULT
            if default is not None:
                out += dev_split(
                    {
                        "system": name, "cfg": cfg, "mode": "dev", "default": default, "menu": list(d.alphabet(p)),
                        "k": DEV_K[tier][name], "label": "%s|y|%d|dev" % (name, ci), "cost": 10 if thorough else 3, "validate_every": 101,
                    }
                )
            if name == "PCACD":
                continue
            alphabet = list(d.alphabet(p))
            if d.kind == "batch":
                cfg = dict(cfg, refs=Y_REFS)
                alphabet += [["ref", i] for i in Y_REFS]
            n = Y_DEPTH[tier][name]
            split = 1
            if thorough and name != "ADWIN":
                split = 2
            out += _dfs_tasks(name, cfg, n, split, "y|%d" % ci, COST.get(name, 1) * (3 if thorough else 1), alphabet, 211)
    # -- cross: two objects of (possibly) different classes, each with its own encoding, in one process ---
    out += _cross_tasks(tier)
    return out


# detectors for which a second drift inside one explored history is reached for every seed with a wide
# margin (deterministic ones, and stochastic ones with hundreds of such histories); for the others
# (KdqTreeBatch, KdqTreeStreaming, LinearFourRates with junk X) the counter is reported, not required
GE2_Y = ("ADWIN", "CUSUM", "PageHinkley", "PCACD", "HDDDM", "CDBD", "NNDVI")


def REQUIRED(tier):
    req = ["drift_transitions", "warning_transitions"]
    req += ["enc:%s" % e for e in ENC] + ["alarm_under_enc:%s" % e for e in ENC]
    # container families: the error-based detectors are deterministic, so these do not depend on VERIF_SEED
    req += ["enc:%s" % e for e in ROLL[tier]] + ["alarm_under_enc:%s" % e for e in ROLL[tier]]
    req += ["cont:%s" % e for e in CONT_ENC] + ["alarm_under_cont:%s" % e for e in CONT_ENC]
    req += ["drift:cont:%s" % n for n in ERR] + ["ge2_drifts:cont:%s" % n for n in ("DDM", "STEPD")]
    req += ["lfr_enc:%s" % e for e in LFR_ENC] + ["alarm_under_lfr_enc:%s" % e for e in LFR_ENC]
    req += ["pair:%s" % a for a in MIX[tier][2]]
    req += ["reencoded_positions", "two_reencoded_positions", "alarm_at_reencoded_position", "ge2_drifts_with_reencoded_position"]
    req += ["unusedX:%s:%s" % (n, v) for n in CONCEPT for v in XJUNK]
    req += ["unusedY:%s:%s" % (n, v) for n in UNUSED_Y + UNUSED_Y_EXTRA for v in YJUNK]
    req += ["alarm_with_unusedX:%s" % v for v in XJUNK] + ["alarm_with_unusedY:%s" % v for v in YJUNK]
    req += ["set_reference_with_junk_labels"]
    req += ["ge2_drifts:%s" % m for m in ("enc", "mix", "lfr", "X", "y")]
    req += ["ge2_drifts:enc:%s" % n for n in ERR]
    req += ["alarm:X:%s" % n for n in CONCEPT] + ["drift:X:%s" % n for n in CONCEPT] + ["ge2_drifts:X:%s" % n for n in ERR]
    req += ["drift:y:%s" % n for n in UNUSED_Y + UNUSED_Y_EXTRA]
    req += ["ge2_drifts:y:%s" % n for n in GE2_Y]
    # family cross (the error-based detectors are deterministic; LinearFourRates alarms depend on the seed: reported only)
    req += ["cross:%s>%s" % (a, b) for a in CONCEPT for b in CONCEPT] + ["cross_sched:%s" % x for x in CROSS_SCHED]
    encs = sorted(set(_cross_encodings("DDM") + _cross_encodings("LinearFourRates")))
    req += ["cross_encA:%s" % e for e in encs] + ["cross_encB:%s" % e for e in encs]
    req += ["cross_different_classes", "cross_object_pairs_run", "cross_drift_in_object_A", "cross_drift_in_object_B",
            "cross_ge2_drifts_in_object_A", "cross_ge2_drifts_in_object_B"]
    req += ["cross_alarm:%s" % n for n in ("DDM", "EDDM", "STEPD")]
    return req


def describe(tier):
    depth, k, alts, bases = MIX[tier]
    return {
        "rule": "twin runs on the real detectors: canonical (registry feed: 0/1 ints, unused arguments omitted) vs variant, "
        "same numpy seed before every call, all public observables compared bit-for-bit after every update. "
        "enc: every binary outcome sequence of length n per parameter set and encoding (incl. the roll encodings: y_true and y_pred "
        "in different 1-element containers that change at every position); cont: every binary outcome sequence x every ORDERED pair "
        "of 1-element containers (y_true container, y_pred container) kept for the whole history, label kind rotating; mix: every outcome sequence x "
        "every choice of <= k positions whose pair is replaced by a pair of another encoding with the same agreement; "
        "lfr: every sequence of confusion cells per int-like encoding; X / y: every history over the registry alphabet "
        "(batch detectors: plus set_reference with junk labels; PCACD, KdqTreeStreaming, LinearFourRates additionally: long default history with <= k deviations) with junk in "
        "the unused argument(s). A history is non-trivial when at least one update reported warning or drift "
        "(or re-encoded a position / set a reference with junk labels). "
        "cross: TWO objects in one process — every ordered pair ((class A, encoding of A), (class B, encoding of B)) over the five label-reading "
        "classes x both schedules (seq: A fed completely, then B built and fed; alt: alternately); one execution starts from a pristine process "
        "state and runs a fresh pair of objects for every cell history of the campaign (all 4^n histories, then long ones); each object is compared "
        "after every update with the canonical 0/1 run of its class made solo in a pristine process state",
        "bounds": {
            "enc_depth": ENC_DEPTH[tier],
            "encodings": list(ENC),
            "roll_encodings": {
                "depth": ENC_DEPTH[tier],
                "offsets": ROLL[tier],
                "schedule": "roll<j>: at position i y_true arrives in container i mod %d, y_pred in container (i+j) mod %d, label kind (i+j) mod %d"
                % (len(CONTS), len(CONTS), len(KINDS)),
            },
            "cont": {
                "depth": CONT_DEPTH[tier],
                "containers": list(CONTS),
                "ordered_pairs": len(CONT_ENC),
                "label_kinds_rotating_with_position": {k: [repr(v) for v in vs] for k, vs in KIND_LABELS.items()},
            },
            "mix": {"depth": depth, "k": k, "alternative_encodings": alts, "base_encodings": bases},
            "cross": {
                "classes": list(CONCEPT),
                "encodings_error_based": _cross_encodings("DDM"),
                "encodings_LinearFourRates": _cross_encodings("LinearFourRates"),
                "value_preserving_encodings": "v_<type>: both labels of the cell converted to one type (0/1, 0.0/1.0, False/True, '0'/'1', numpy scalars)",
                "ordered_object_pairs": sum(len(_cross_encodings(c)) for c in CONCEPT) ** 2,
                "schedules": list(CROSS_SCHED),
                "campaign_per_execution": "all 4^%d cell histories (lexicographic), then %r (pairs with LinearFourRates: %r)"
                % (CROSS_DEPTH[tier], CROSS_LONG[tier]["err"], CROSS_LONG[tier]["lfr"]),
                "parameters": "registry parameter set 0 of each error-based class; LinearFourRates %r" % (CROSS_LFR_PARAMS,),
            },
            "lfr_depth": LFR_DEPTH[tier],
            "lfr_encodings": list(LFR_ENC),
            "unused_X_depth": X_DEPTH[tier],
            "unused_X_variants": ["None (canonical)"] + list(XJUNK),
            "unused_y_depth": Y_DEPTH[tier],
            "unused_y_deviation_bounded": {
                "PCACD": "default history L=5w+2 (two quiet windows, outlier window, back), <= %d deviations from a 4-symbol menu" % DEV_K[tier]["PCACD"],
                "KdqTreeStreaming": "default history %r, <= %d deviations from a 3-symbol menu" % (KDQS_DEFAULT, DEV_K[tier]["KdqTreeStreaming"]),
            },
            "lfr_deviation_bounded": "modes lfr and X, parameter set %d: default cell history %r, <= %d deviations from the 4 cells"
            % (LFR_DEV_CFG, LFR_DEFAULT, DEV_K[tier]["LinearFourRates"]),
            "unused_y_variants": ["None (canonical)"] + list(YJUNK),
            "parameter_sets": {n: len(_configs(n, tier, "enc" if n in ERR else ("lfr" if n in CONCEPT else "y"))) for n in CONCEPT + UNUSED_Y + UNUSED_Y_EXTRA},
            "alphabets": {n: list(map(str, DRIVERS[n].symbols)) + (["set_reference(menu 1, junk labels)"] if DRIVERS[n].kind == "batch" else []) for n in CONCEPT + UNUSED_Y + UNUSED_Y_EXTRA},
        },
        "explanation": "differential oracle between real objects, no hand-written expected values. Compared: drift_state, "
        "retraining_recs, total / since-reset counters, STEPD accuracies, ADWIN(Accuracy) mean()/variance(), Page-Hinkley "
        "to_dataframe(), every public instance attribute (CUSUM target/sd_hat, HDM distances/epsilon_values/thresholds/"
        "beta/feature_epsilons/reference, kdq ref_data, NNDVI reference_batch, PCACD num_pcs, LFR all_drift_states ...), "
        "kdq public node counts, and exception types. states = tree nodes (no transposition merging: type differences "
        "inside the state must not be hidden)",
        "assumptions": [
            "agreement of a pair is Python/numpy equality of two labels of the same kind (both ints, both strings, ...); pairs that are equal only across kinds (1 vs 1.0 vs True) and NaN labels are not used",
            "labels are single observations (scalars or 1-element containers); containers with several observations are C14's subject",
            "container families (cont / roll / LFR box): every container holds exactly one observation in the sense of the library's own validation "
            "(np.array(y).ravel() has shape (1,)): scalar, numpy scalar, list, tuple, nested list, arrays of shape (1,), (1,1), (), narrow-int / object "
            "arrays, pandas Series with default / integer / string index, 1x1 DataFrame; label and prediction of one pair are of the same kind "
            "(int widths may differ: int8 / int16 / int64 / Python int hold the same integer); dict, set and generator 'containers' are not used",
            "LinearFourRates: only int-like encodings (Python/numpy ints and bools, 1-element lists/arrays of them) of the 0/1 cell, as the property states",
            "numpy's global RNG is re-seeded identically before the canonical call and before every variant call of the same step",
            "the canonical run is the shared driver registry's feed (y_true=1, y_pred in {0,1} as plain ints; X positional/keyword as the driver does)",
            "ADWINAccuracy gets one parameter set in addition to the registry's (delta=1, conservative bound, max_buckets=5) so that several cuts fit into 10-14 samples of 0/1 input",
            "MD3 is included in the unused-y family because its update()/set_reference() document y_true/y_pred as not used",
            "family cross: the process-level state of menelaus is put back before every execution (mc.procstate.reset() and cache_clear() of every functools cache "
            "found at module level / on classes of the menelaus modules); within one execution it is carried from one pair of objects to the next (same two kinds); "
            "the two objects never share a container, and only one parameter set per class is used",
            "per-detector '>= 2 drifts' counters are required only where they are seed-robust (not for KdqTreeBatch, KdqTreeStreaming, LinearFourRates with junk X); all are reported",
        ],
    }
