"""C03 — ADWIN keeps exact statistics of its adaptive window and cuts it by its
rule; ADWINAccuracy == ADWIN on the agreement indicators.

System "ADWIN"  (lock-step reference model, models/adwin.py)
    after EVERY update the real detector is compared with the model on
    mean(), variance(), drift_state, retraining_recs, total_samples,
    samples_since_reset and the window width W (derived from the public
    retraining_recs on drift, +1 otherwise; ``_window_size`` is read behind
    getattr only to sharpen the comparison).
    Explored:
      dfs     every sequence over {0,1} (depth 14 quick / 18 thorough) and
              {0,1,5} (9 / 11) for a pairwise-covering subset of 12 parameter
              combinations (rotated by VERIF_SEED); thorough additionally the
              whole 324-combination grid at depth 12 / 7;
      dev     default histories of length 96 (0^32 1^32 0^32, a density ramp,
              the staircase 0^32 1^32 5^32) with every choice of <= k positions
              replaced by every other symbol (k <= 2), so that rows of 8- and
              16-sample buckets are built, compressed and cut;
      nonint  exhaustive suffixes after a scripted 70-sample prefix (detector
              deep in its life: several rows, drifts behind it).
System "ADWINAccuracy"  (twin oracle)
    ADWINAccuracy(**p) fed (y_true, y_pred) vs ADWIN(**p) fed 1{y_true == y_pred},
    p != defaults, every binary agreement sequence up to the bound, all
    observables bit-for-bit.

Round-3 family extensions (EXTENDING.md) -- every family below is a set of *additional*
tasks with its own label ("ADWIN|<family>|...") and its own counters ``fam_<family>_steps``
/ ``fam_<family>_drifts``:
      val / valdev   value alphabets far from {0,1,5}: negative and fractional non-dyadic
                     values, mixed signs, levels 1e6 / +-3e7 with small spread, scale 1e-6,
                     values inside [0,1] (dfs and L=96 staircases with k <= 1);
      par / pardev   legal-but-unusual parameters: delta 1e-9, max_buckets 64 (no compression
                     ever), new_sample_thresh / window_size_thresh / subwindow_size_thresh
                     larger than the whole history, subwindow_size_thresh 0 and
                     > window_size_thresh, both bounds;
      feed           the single observation arrives as python/numpy scalar, 1-element list,
                     1-D / 2-D array, Series, one-cell DataFrame; float32-, int64-, int32- and
                     python-int-typed; mixed int/float; narrow integer dtypes (uint8/int8/int16);
      long           default parameters, L = 192, k <= 1 (the default period 32 and the default
                     minimum window sizes are really passed);
    ADWINAccuracy: twins with every unusual parameter forwarded, labels in several containers,
    and a default-parameter twin on L = 192 agreement histories.
Second batch of round-3 families:
      val / valdev   scales 1e-9 ("nano"), 1e8 with a spread of the same size ("giga") and level 1e8
                     with a spread of 5 ("lvl8");
      feed           tuple, Series with a non-default index, DataFrame with an integer column label and a
                     non-default row label, boolean observations, X accompanied by (ignored) y_true / y_pred;
      reset          ``reset()`` called by the user between updates (during warm-up, right after a
                     drift, twice in a row, deep inside an epoch): drift state / recommendation /
                     samples_since_reset are initialised, the window and total_samples are not;
      twin-lab       ADWINAccuracy on class labels that are not {0, 1}: float-coded labels of
                     magnitude 1e-9 ... 1e8 (neighbouring classes closer than any isclose()
                     tolerance), adjacent doubles / float32s, fractional and negative labels,
                     float32 predictions against float64 targets, int against float, strings,
                     booleans -- the indicator is 1{y_true == y_pred} on the values as received;
      twin-reset     the ADWINAccuracy twin with reset() events.
Tolerances of the new families scale with the conditioning of their data (see ``_tol``).
"""
import itertools
import math
import os
from fractions import Fraction

import numpy as np
import pandas as pd

from menelaus.change_detection import ADWIN
from menelaus.concept_drift import ADWINAccuracy

from mc.explorer import System, Violation, dev_split
from mc.numeric import close, lockstep
from mc.observe import stream_obs, fl
from models.adwin import ADWINModel

PROPERTY = "C03"
# safety net only (wall seconds); sized for a heavily shared machine: on 16 free cores quick needs
# ~45 s and thorough ~8 min (builders saw 10-20x that under load).  VERIF_TIME_BUDGET=<seconds> overrides both.
TIME_BUDGET = {"quick": 1800, "thorough": 10800}
if os.environ.get("VERIF_TIME_BUDGET"):
    TIME_BUDGET = {k: float(os.environ["VERIF_TIME_BUDGET"]) for k in TIME_BUDGET}

# ------------------------------------------------------------------------------------------
# parameter grid (DESIGN §4 C03)
# ------------------------------------------------------------------------------------------
GRID = (
    ("delta", (0.002, 0.3, 1.0)),
    ("max_buckets", (1, 2, 5)),
    ("new_sample_thresh", (1, 2, 4)),
    ("window_size_thresh", (0, 3, 6)),
    ("subwindow_size_thresh", (1, 2)),
    ("conservative_bound", (False, True)),
)
NAMES = [n for n, _ in GRID]
LEVELS = [len(v) for _, v in GRID]
ALL_IDX = list(itertools.product(*[range(n) for n in LEVELS]))  # 324 index tuples


def params_of(idx):
    return {n: v[i] for (n, v), i in zip(GRID, idx)}


def cfg_id(idx):
    return "g" + "".join(map(str, idx))


def idx_of(**p):
    return tuple(v.index(p[n]) for n, v in GRID)


def _pairs(idx):
    return {(a, idx[a], b, idx[b]) for a in range(len(idx)) for b in range(a + 1, len(idx))}


_SUBSETS = {}


def covering_subset(rot, n=12):
    """Pairwise-covering selection of n grid points; ``rot`` rotates the candidate
    order of the greedy construction, hence which covering subset is chosen (the
    first rotation at or after ``rot * 37`` whose greedy result covers every pair)."""
    if (rot, n) not in _SUBSETS:
        best = None
        for shift in range(len(ALL_IDX)):
            res = _greedy((rot * 37 + shift) % len(ALL_IDX), n)
            if best is None or res[1] > best[1]:
                best = res
            if res[1] == res[2]:
                break
        _SUBSETS[(rot, n)] = best
    return _SUBSETS[(rot, n)]


def _greedy(k, n):
    order = ALL_IDX[k:] + ALL_IDX[:k]
    uncovered = set()
    for c in ALL_IDX:
        uncovered |= _pairs(c)
    npairs = len(uncovered)
    chosen = []
    while len(chosen) < n:
        best, gain = None, -1
        for c in order:
            if c in chosen:
                continue
            g = len(_pairs(c) & uncovered)
            if g > gain:
                best, gain = c, g
        chosen.append(best)
        uncovered -= _pairs(best)
    return chosen, npairs - len(uncovered), npairs


# fixed ("hot") configurations for the long-history modes: they guarantee the anti-vacuity
# counters independently of the rotation of the dfs subset
HOT = [
    idx_of(delta=0.002, max_buckets=5, new_sample_thresh=4, window_size_thresh=6, subwindow_size_thresh=2, conservative_bound=False),
    idx_of(delta=0.3, max_buckets=2, new_sample_thresh=1, window_size_thresh=0, subwindow_size_thresh=1, conservative_bound=False),
    idx_of(delta=1.0, max_buckets=1, new_sample_thresh=1, window_size_thresh=0, subwindow_size_thresh=1, conservative_bound=False),
    idx_of(delta=0.3, max_buckets=1, new_sample_thresh=2, window_size_thresh=3, subwindow_size_thresh=2, conservative_bound=True),
    idx_of(delta=0.002, max_buckets=2, new_sample_thresh=2, window_size_thresh=3, subwindow_size_thresh=1, conservative_bound=True),
    idx_of(delta=1.0, max_buckets=5, new_sample_thresh=4, window_size_thresh=6, subwindow_size_thresh=2, conservative_bound=True),
]

# ADWINAccuracy twins: every parameter differs from its default
TWIN_PARAMS = [
    dict(delta=1.0, max_buckets=1, new_sample_thresh=1, window_size_thresh=0, subwindow_size_thresh=1, conservative_bound=True),
    dict(delta=1.0, max_buckets=2, new_sample_thresh=1, window_size_thresh=3, subwindow_size_thresh=2, conservative_bound=False),
    dict(delta=0.3, max_buckets=2, new_sample_thresh=2, window_size_thresh=0, subwindow_size_thresh=1, conservative_bound=True),
    dict(delta=0.3, max_buckets=1, new_sample_thresh=1, window_size_thresh=6, subwindow_size_thresh=1, conservative_bound=False),
    dict(delta=1.0, max_buckets=3, new_sample_thresh=4, window_size_thresh=3, subwindow_size_thresh=2, conservative_bound=True),
    dict(delta=0.5, max_buckets=4, new_sample_thresh=3, window_size_thresh=2, subwindow_size_thresh=3, conservative_bound=True),
]

ALPHABETS = {"b": [0, 1], "t": [0, 1, 5]}

L = 96


def _ramp01():
    # density ramp: sparse ones that get denser, all ones in the second half
    out = []
    for i in range(L):
        out.append(min(1, ((i + 1) * (i + 1)) // L - (i * i) // L))
    return out


DEFAULTS = {
    "block01": ("b", [0] * 32 + [1] * 32 + [0] * 32),
    "ramp01": ("b", _ramp01()),
    "stair015": ("t", [0] * 32 + [1] * 32 + [5] * 32),
}

PREFIXES = {
    "p0": [0] * 35 + [1] * 35,
    "p1": [0, 1] * 20 + [5] * 10 + [0] * 20,
}

DEPTH = {
    "quick": {"b": 14, "t": 9, "grid_b": 0, "grid_t": 0, "suffix_b": 9, "suffix_t": 6, "twin": 12},
    "thorough": {"b": 18, "t": 11, "grid_b": 12, "grid_t": 7, "suffix_b": 12, "suffix_t": 8, "twin": 16},
}
# (default history, hot-config positions) explored with k = 2; everything else with k = 1
DEV_K2 = {
    "quick": {"block01": (0, 1, 2, 3, 4, 5), "ramp01": (1, 2, 3), "stair015": ()},
    "thorough": {"block01": (0, 1, 2, 3, 4, 5), "ramp01": (0, 1, 2, 3, 4, 5), "stair015": (0, 1, 2, 3, 4, 5)},
}

# numeric observables: relative 1e-9; the absolute floor is scaled by the magnitude of the
# data (max |x| = 5, x^2 = 25): the detector's one-pass variance carries O(ulp * sum of
# squared deviations) of rounding noise (measured: <= 1.5e-14 on the explored histories),
# which is not a property violation
ABS_TOL = 1e-11


def _diff(exp, obs, tol=None):
    bad = []
    for k, v in exp.items():
        if k == "W_internal" and obs.get(k) is None:
            continue  # private field not available: nothing to sharpen
        if tol is not None and k in ("mean", "variance"):
            rel, abs_ = tol[k]
            ok = k in obs and close(v, obs[k], rel=rel, abs_=abs_)
        else:
            ok = k in obs and close(v, obs[k], abs_=ABS_TOL if k in ("mean", "variance") else 1e-12)
        if not ok:
            bad.append(k)
    return bad


# ------------------------------------------------------------------------------------------
# round-3 families: value alphabets, containers / dtypes, tolerances
# ------------------------------------------------------------------------------------------
# Three symbols each, playing the roles (low, middle, high) of {0, 1, 5}.  Events are the numbers
# themselves (JSON round-trips a float64 exactly); the model gets exactly the number the detector sees.
VALUE_ALPHABETS = {
    "neg": [-0.1, -0.9, -5.3],  # negative, non-dyadic
    "frac": [0.1, 0.7, 5.3],  # fractional, non-dyadic
    "mix": [-2.6, 0.3, 2.7],  # mixed signs (sums may nearly cancel)
    "unit": [0.05, 0.5, 0.95],  # inside [0, 1], the range the bound is written for
    "lvl6": [1000000.1, 1000000.9, 1000005.3],  # level 1e6, spread ~5, non-dyadic
    "lvl7": [30000000.0, 30000001.0, 30000005.0],  # level 3e7, integral
    "nlvl7": [-29999999.7, -30000000.4, -30000005.1],  # level -3e7, non-dyadic
    "tiny": [1e-06, 3e-06, 7.5e-06],  # scale 1e-6 (the additive term of eps_cut dwarfs it: statistics only)
    "dy": [0.5, -2.25, 5.75],  # dyadic, exactly representable in float32
    "i3": [-3, 0, 4],  # integers of mixed sign
    "ilvl7": [30000000, 30000001, 30000005],  # integer-typed level 3e7 (int32 sums of 72+ of them pass 2^31)
    "imix": [0, 1, 2.5],  # integral values arrive int-typed, the fractional one as a float
    "u8": [100, 101, 105],  # uint8-typed: three samples sum past 255
    "i8": [-100, -99, -95],  # int8-typed: two samples sum below -128
    "i16": [10000, 10001, 10005],  # int16-typed: four samples sum past 32767
    # second batch: the ends of the range 1e-9 ... 1e8
    "nano": [1e-09, 3e-09, 7.5e-09],  # scale 1e-9 (statistics only, like "tiny")
    "giga": [-260000000.7, 30000000.3, 270000000.9],  # scale AND spread 1e8, mixed signs (the additive term of eps_cut is negligible)
    "lvl8": [100000000.1, 100000000.9, 100000005.3],  # level 1e8, spread ~5, non-dyadic
}
ALPHABETS.update(VALUE_ALPHABETS)
# explicit reset() calls between updates ("R" is an event, not a value)
RESET = "R"
ALPHABETS["bR"] = [0, 1, RESET]
ALPHABETS["tR"] = [0, 1, 5, RESET]

EPS64 = 2.0 ** -52
EPS32 = 2.0 ** -23

# how the single observation is handed to update(); the kind used at position pos is feed[pos % len(feed)]
FEEDS = {
    # same float64 number in every container the validation accepts
    "cont": ["l1", "df", "a1", "l2", "a2", "np64", "ser", "f"],
    "df": ["df"],  # one-cell DataFrame (labelled column, non-default row label) from the first call on
    # float32-typed all the way (scalars, 1-D / 2-D arrays, DataFrame column)
    "f32": ["f32", "a1f32", "a2f32", "dff32"],
    # first observation float64, float32 afterwards (the running sums are then float64: tight tolerance)
    "f32after64": ["f"] + ["f32", "a1f32", "a2f32", "dff32"] * 64,
    "int": ["i", "i64", "a1i64", "a2i32", "dfi", "l1i"],  # integer-typed, 64 and 32 bit, python int
    "i32": ["a2i32", "i32"],  # int32 only
    "auto": ["auto"],  # int-typed when the value is integral, float otherwise
    "u8": ["a1u8", "u8"],
    "i8": ["a2i8", "i8"],
    "i16": ["a1i16", "i16"],
    # second batch
    # tuple, Series with index [5], X with (ignored) y_true / y_pred, DataFrame whose only column is labelled 3 (an
    # integer that is not its position) with row label 2
    "cont2": ["tup", "serix", "fy", "dfint", "l2", "np64", "a1"],
    "bool": ["b", "npb", "a1b", "a2b", "l1b", "dfb"],  # boolean observations (a stream of hit / miss flags)
}
_NARROW = ("u8", "i8", "i16")
_DTYPES = {"f32": np.float32, "i64": np.int64, "i32": np.int32, "u8": np.uint8, "i8": np.int8, "i16": np.int16}


def _wrap(kind, v):
    """(object handed to update(), exact number it stands for)."""
    if kind == "auto":
        kind = "i" if float(v).is_integer() else "f"
    if kind == "f":
        return float(v), float(v)
    if kind == "np64":
        return np.float64(v), float(v)
    if kind == "l1":
        return [float(v)], float(v)
    if kind == "l2":
        return [[float(v)]], float(v)
    if kind == "a1":
        return np.array([float(v)]), float(v)
    if kind == "a2":
        return np.array([[float(v)]]), float(v)
    if kind == "ser":
        return pd.Series([float(v)]), float(v)
    if kind == "df":
        return pd.DataFrame({"x": [float(v)]}, index=[7]), float(v)
    if kind == "tup":
        return (float(v),), float(v)
    if kind == "serix":
        return pd.Series([float(v)], index=[5]), float(v)
    if kind == "fy":
        return float(v), float(v)  # step() adds y_true / y_pred, which ADWIN documents as not used
    if kind == "dfint":
        return pd.DataFrame({3: [float(v)]}, index=[2]), float(v)
    if kind in ("b", "npb", "a1b", "a2b", "l1b", "dfb"):
        if v not in (0, 1):
            raise ValueError("value %r is not boolean" % (v,))
        b = bool(v)
        x = {"b": b, "npb": np.bool_(b), "a1b": np.array([b]), "a2b": np.array([[b]]), "l1b": [b]}.get(kind)
        if kind == "dfb":
            x = pd.DataFrame({"x": [b]})
        return x, int(b)
    if kind == "i":
        return int(v), int(v)
    if kind == "l1i":
        return [int(v)], int(v)
    if kind == "dfi":
        return pd.DataFrame({"x": [int(v)]}), int(v)
    shape, dt = None, kind
    if kind.startswith("a1"):
        shape, dt = 1, kind[2:]
    elif kind.startswith("a2"):
        shape, dt = 2, kind[2:]
    elif kind.startswith("df"):
        shape, dt = "df", kind[2:]
    t = _DTYPES[dt]
    x = t(v)
    seen = float(x) if dt == "f32" else int(x)
    if dt != "f32" and seen != v:
        raise ValueError("value %r does not fit dtype %s" % (v, dt))
    if shape == 1:
        return np.array([x], dtype=t), seen
    if shape == 2:
        return np.array([[x]], dtype=t), seen
    if shape == "df":
        return pd.DataFrame({"x": np.array([x], dtype=t)}), seen
    return x, seen


def _tol(alpha, L, feed=None):
    """Tolerances of a family whose data are ALPHABETS[alpha], histories no longer than L.

    S = max|x| (scale), R = max - min (spread).  A *correct* float64 implementation carries
      * on a running sum of <= L terms an error <= L * eps * L*S, hence on the mean <= L*eps*S  (L=200: 4.4e-14 S);
      * on a deviation (x - mean) the same absolute error d = L*eps*S, hence on a mean of squared deviations
        <= 2*R*d = 2*L*eps*S*R (bucket merges / removals add terms of the same form);
      * on a difference of two sub-window means the error d, i.e. relative to a difference of the size of the
        spread:  L*eps*S/R -- the conditioning of the epsilon-cut decision.
    The tolerances leave a factor ~20 over these worst-case bounds (measured errors are another 10-100x smaller):
      mean      abs 1e-12*S        variance  abs 1e-12*S*R  (+ the framework's relative 1e-9)
      decision  relative margin <= max(1e-9, 1e-12*S/R) is numerically undecidable (1e-12 ~ 20*L*eps).
    The mean is additionally held to relative 1e-12 (not 1e-9: at level 3e7 that would be 0.03 absolute).
    float32- (and integer-) typed streams get the same tolerances: the detector documents that its running
    sums are kept in double precision whatever the dtype of the input (adwin.py::update; fix 27d654b), and the
    model is fed the exact value of the float32 number.  (Before that repair the sums were float32 and this
    family needed relative 4*L*2^-23; keeping that allowance would let the defect come back unnoticed.)
    """
    vals = [float(v) for v in ALPHABETS[alpha]]
    S = max(abs(v) for v in vals)
    R = max(vals) - min(vals)
    return {
        "mean": [1e-12, 1e-12 * S],
        "variance": [1e-9, 1e-12 * S * R],
        "tie": max(1e-9, 1e-12 * S / R),
    }


class AdwinSystem(System):
    name = "ADWIN"

    def init(self, cfg):
        p = cfg["params"]
        return {"det": ADWIN(**p), "model": ADWINModel(**p), "W_obs": 0, "nresets": 0, "last_reset": False}

    def alphabet(self, cfg, state, pos):
        return ALPHABETS[cfg["alphabet"]]

    def step(self, cfg, state, ev, pos, ctx):
        det = state["det"]
        feed = cfg.get("feed")
        tol = cfg.get("tol")
        fam = cfg.get("fam")
        narrow = feed in _NARROW
        if ev == RESET:
            return self._reset_step(cfg, state, pos, ctx)
        kw = {}
        if feed:
            kinds = FEEDS[feed]
            kind = kinds[pos % len(kinds)]
            x_in, x_seen = _wrap(kind, ev)
            if kind == "fy":
                kw = {"y_true": 1, "y_pred": 0}
        else:
            x_in = x_seen = ev
        try:
            det.update(x_in, **kw)
            obs = stream_obs(det)
            obs["mean"] = fl(det.mean())
            obs["variance"] = fl(det.variance())
        except Exception as e:  # ADWIN never raises on a valid scalar
            raise Violation(
                "ADWIN-raises",
                "ADWIN.update(%r) raised %s: %s after %d samples" % (x_in, type(e).__name__, e, pos + 1),
                expected="no exception",
                observed=repr(e),
                sig="ADWIN-raises:%s%s" % (type(e).__name__, ":narrow-int-dtype" if narrow else ""),
            )
        r = obs.get("recs")
        if obs["state"] == "drift":
            # width of the retained window as published through retraining_recs
            w = (r[1] - r[0] + 1) if (r and r[0] is not None and r[1] is not None) else None
        else:
            w = state["W_obs"] + 1
        obs["W"] = w
        wi = getattr(det, "_window_size", None)
        obs["W_internal"] = None if wi is None else int(wi)
        state["W_obs"] = w if w is not None else 0

        model, exp, ok = lockstep(
            state["model"],
            lambda m, D: m.step(x_seen, D),
            lambda e: not _diff(e, obs, tol),
            stats=ctx.stats,
            **({"tie": tol["tie"]} if tol else {}),
        )
        state["model"] = model
        d = model.diag
        if not ok:
            bad = _diff(exp, obs, tol)
            sig = "ADWIN-spec"
            if cfg["params"].get("max_buckets") == 1 and d.get("gap_cut"):
                sig = "ADWIN-spec:max_buckets=1:cut-after-emptied-row"
            if narrow:
                # running sums kept in the (narrow integer) dtype of the input wrap around
                sig = "ADWIN-spec:narrow-int-dtype"
            raise Violation(
                "ADWIN-spec",
                "ADWIN disagrees with its specification on %s after %d samples (params %s%s)"
                % (bad, pos + 1, cfg["params"], (", observations fed as %s" % FEEDS[feed][:6]) if feed else ""),
                expected=exp,
                observed=obs,
                sig=sig,
            )

        state["last_reset"] = False
        if state["nresets"] and exp["state"] == "drift":
            ctx.count("drifts_after_explicit_reset")
        if fam:
            ctx.count("fam_%s_steps" % fam)
            if exp["state"] == "drift":
                ctx.count("fam_%s_drifts" % fam)
            if tol:
                # measured error relative to the tolerance granted (max over the run would need a max-counter;
                # the count of steps that used more than 5% of the tolerance is reported instead)
                for k in ("mean", "variance"):
                    rel, abs_ = tol[k]
                    lim = max(abs_, rel * max(abs(exp[k]), abs(obs[k])))
                    if lim > 0 and abs(exp[k] - obs[k]) > 0.05 * lim:
                        ctx.count("tol_%s_used_over_5pct" % k)
        # ---- anti-vacuity bookkeeping (model diagnostics, valid because the step agreed) ----
        if exp["state"] == "drift":
            ctx.mark("drift_transitions")
            dropped = d["dropped"]
            if max(dropped) >= 4:
                ctx.count("cuts_dropping_bucket_ge4")
            if max(dropped) >= 8:
                ctx.count("cuts_dropping_bucket_ge8")
            if len(dropped) >= 2:
                ctx.count("cascaded_cuts")
            if cfg["params"].get("max_buckets") == 1:
                ctx.count("max_buckets1_shrinks")
            if d.get("gap_cut"):
                ctx.count("cuts_across_missing_bucket_size")
            if model.ndrifts == 2:
                ctx.count("histories_reaching_second_drift")
            elif model.ndrifts == 3:
                ctx.count("histories_reaching_third_drift")
            if exp["since"] == 1:
                ctx.count("back_to_back_drifts")
        if d.get("largest_merge", 0) >= 8:
            ctx.count("compressions_into_row_ge3")
        if d.get("largest_merge", 0) >= 16:
            ctx.count("compressions_into_row_ge4")
        if not d["scheduled"]:
            ctx.count("checks_skipped_new_sample_thresh")
        elif not d["checked"]:
            ctx.count("checks_skipped_window_size_thresh")
        if d.get("inadmissible"):
            ctx.count("scans_with_split_below_subwindow_size_thresh")
        if d.get("min_margin", math.inf) < 0.5:
            ctx.mark("eps_decisions_within_factor2")
        if d["checked"] and exp["state"] is None and d.get("splits_tested"):
            ctx.count("checks_without_cut")
        return obs


def _adwin_reset_step(self, cfg, state, pos, ctx):
    """The user calls ``reset()`` between two updates ("Intended for use after drift_state == 'drift'", but public
    and callable at any time).  Documented effect: drift state (and with it the retraining recommendation and
    samples_since_reset) initialised.  The property's "W shrinks only in an update that reports drift" and "mean() /
    variance() are those of the W most recent inputs at every step" bind everything else: window, statistics and
    total_samples are as before the call."""
    det = state["det"]
    before = state["model"].state
    try:
        det.reset()
        obs = stream_obs(det)
        obs["mean"] = fl(det.mean())
        obs["variance"] = fl(det.variance())
    except Exception as e:
        raise Violation(
            "ADWIN-raises",
            "ADWIN.reset() raised %s: %s after %d events" % (type(e).__name__, e, pos + 1),
            expected="no exception",
            observed=repr(e),
            sig="ADWIN-reset-raises:%s" % type(e).__name__,
        )
    obs["W"] = state["W_obs"]
    wi = getattr(det, "_window_size", None)
    obs["W_internal"] = None if wi is None else int(wi)
    exp = state["model"].reset()
    bad = _diff(exp, obs, cfg.get("tol"))
    if bad:
        raise Violation(
            "ADWIN-reset",
            "after reset() (event %d, %d samples so far) ADWIN disagrees with its specification on %s (params %s)"
            % (pos + 1, exp["total"], bad, cfg["params"]),
            expected=exp,
            observed=obs,
            sig="ADWIN-reset",
        )
    ctx.count("explicit_resets")
    if before == "drift":
        ctx.mark("explicit_reset_right_after_drift")
    if state["last_reset"]:
        ctx.count("explicit_reset_twice_in_a_row")
    if exp["W"] <= cfg["params"].get("window_size_thresh", 10):
        ctx.count("explicit_reset_during_warmup")
    state["nresets"] += 1
    state["last_reset"] = True
    if cfg.get("fam"):
        ctx.count("fam_%s_steps" % cfg["fam"])
    return obs


AdwinSystem._reset_step = _adwin_reset_step


def _bits(o):
    """Bit-exact, JSON-able rendering of an observation."""
    out = {}
    for k, v in o.items():
        out[k] = float(v).hex() if isinstance(v, float) else v
    return out


YFEEDS = {
    # python int, numpy ints, 1-element list / 1-D / 2-D arrays, Series, numpy bool, float-typed labels
    "ycont": ["i", "l1", "a1", "a2", "ser", "i64", "f", "a1f32"],
}


def _ywrap(kind, y):
    if kind == "i":
        return int(y)
    if kind == "i64":
        return np.int64(y)
    if kind == "f":
        return float(y)
    if kind == "l1":
        return [int(y)]
    if kind == "a1":
        return np.array([int(y)])
    if kind == "a2":
        return np.array([[int(y)]])
    if kind == "a1f32":
        return np.array([y], dtype=np.float32)
    if kind == "ser":
        return pd.Series([int(y)])
    raise KeyError(kind)


# ------------------------------------------------------------------------------------------
# class labels that are not {0, 1}  (family twin-lab)
# ------------------------------------------------------------------------------------------
# A label kind is "<container>:<type>".  _lwrap returns the object handed to update() and the exact value it
# stands for (a Fraction for numbers -- the value after conversion to the type --, the string, the bool).
_LCONT = {
    "sc": lambda x: x,
    "l1": lambda x: [x],
    "t1": lambda x: (x,),
    "a1": lambda x: np.array([x]),
    "a2": lambda x: np.array([[x]]),
    "ser": lambda x: pd.Series([x]),
}
_LTYPE = {
    "f": float, "np64": np.float64, "f32": np.float32, "i": int, "i64": np.int64, "i32": np.int32,
    "s": str, "nps": np.str_, "b": bool, "npb": np.bool_,
}


def _lwrap(kind, v):
    cont, ty = kind.split(":")
    x = _LTYPE[ty](v)
    if ty in ("s", "nps"):
        seen = str(x)
    elif ty in ("b", "npb"):
        seen = bool(x)
    elif ty in ("i", "i64", "i32"):
        seen = Fraction(int(x))
        if seen != v:
            raise ValueError("label %r does not fit %s" % (v, ty))
    else:
        seen = Fraction(float(x))
    return _LCONT[cont](x), seen


_FLK = ["sc:f", "a1:f", "sc:np64", "l1:f", "ser:f", "a2:f", "t1:np64"]  # float64-coded
_INK = ["sc:i", "a1:i", "sc:i64", "l1:i", "ser:i", "a2:i32", "t1:i"]  # integer-coded
_F32K = ["sc:f32", "a1:f32", "a2:f32", "l1:f32"]
# name: (classes, kinds of y_true, kinds of y_pred)
LABELS = {
    # float-coded class labels, neighbouring classes 1 apart at magnitude 2.5e5 and 1e8 (relative distance 4e-6 / 1e-8)
    "big": ([250000.0, 250001.0, 250002.0], _FLK, _FLK),
    "e8": ([100000000.0, 100000001.0, 100000002.0], _FLK, _FLK),
    # the same, float targets against integer predictions and vice versa
    "e8fi": ([100000000, 100000001, 100000002], _FLK, _INK),
    "e8if": ([-100000000, -99999999, 100000000], _INK, _FLK),
    "e8i": ([100000000, 100000001, 100000002], _INK, _INK),
    # tiny labels: absolute distances 1e-9
    "nano": ([1e-09, 2e-09, 3e-09], _FLK, _FLK),
    "near0": ([0.0, 1e-09, -1e-09], _FLK, _FLK),
    # adjacent doubles around 1, and 1 + 1e-9
    "near1": ([1.0, 1.0000000000000002, 1.000000001], _FLK, _FLK),
    # fractional and negative labels (truncation to int would merge them)
    "frac": ([0.25, 0.5, 0.75, -0.25], _FLK, _FLK),
    "neg": ([-1, -2, 3], _INK, _FLK),
    # float32-coded: adjacent float32 integers at 2^24, and small dyadic ones
    "f32": ([16777214.0, 16777215.0, 16777216.0, 0.5], _F32K, _F32K),
    # float64 targets against float32 predictions: 0.1 and 0.7 are different numbers in the two precisions
    # (an "agreeing" prediction then is NOT equal under ==), 2.5 and 3.0 are the same
    "x32": ([0.1, 2.5, 0.7, 3.0], _FLK, _F32K),
    "str": (["a", "b", "ab", "B"], ["sc:s", "a1:s", "sc:nps", "l1:s", "ser:s", "a2:s"], ["l1:s", "sc:s", "ser:s", "a1:nps", "t1:s"]),
    "bool": ([False, True], ["sc:b", "a1:b", "sc:npb", "l1:b", "ser:b"], ["a2:b", "sc:npb", "sc:b", "t1:b"]),
}


def _np_isclose(a, b):
    """numpy.isclose(a, b) with its default tolerances, in exact arithmetic (region counter only)."""
    return abs(a - b) <= Fraction(1, 10**8) + Fraction(1, 10**5) * abs(b)


class AccTwinSystem(System):
    name = "ADWINAccuracy"

    def init(self, cfg):
        p = cfg["params"]
        return {"acc": ADWINAccuracy(**p), "ref": ADWIN(**p)}

    def alphabet(self, cfg, state, pos):
        return [0, 1, RESET] if cfg.get("resets") else [0, 1]

    def _reset_step(self, cfg, state, pos, ctx):
        try:
            state["ref"].reset()
            state["acc"].reset()
            exp, obs = self._observe(state["ref"]), self._observe(state["acc"])
        except Exception as e:
            raise Violation(
                "ADWINAccuracy-raises",
                "reset() raised %s: %s" % (type(e).__name__, e),
                expected="no exception",
                observed=repr(e),
                sig="ADWINAccuracy-reset-raises:%s" % type(e).__name__,
            )
        be, bo = _bits(exp), _bits(obs)
        if be != bo:
            raise Violation(
                "ADWINAccuracy-twin",
                "after reset() ADWINAccuracy(**p) differs from ADWIN(**p) on %s (event %d, p = %s)"
                % (sorted(k for k in be if be[k] != bo.get(k)), pos + 1, cfg["params"]),
                expected=be,
                observed=bo,
                sig="ADWINAccuracy-twin:reset",
            )
        ctx.count("acc_twin_resets")
        if cfg.get("fam"):
            ctx.count("fam_%s_steps" % cfg["fam"])
        return bo

    @staticmethod
    def _observe(det):
        o = stream_obs(det)
        o["mean"] = fl(det.mean())
        o["variance"] = fl(det.variance())
        return o

    def step(self, cfg, state, ev, pos, ctx):
        if ev == RESET:
            return self._reset_step(cfg, state, pos, ctx)
        if cfg.get("labels"):
            return self._label_step(cfg, state, ev, pos, ctx)
        # ev = 1: the prediction agrees with the label.  Both label values occur.
        y_true = pos % 2
        y_pred = y_true if ev else 1 - y_true
        kw = {}
        if cfg.get("xjunk") and pos % 3 != 2:
            # a feature row handed over together with the labels ("Not used for this accuracy-based ADWIN")
            kw = {"X": np.array([[0.3, 1.5 + pos]])} if pos % 3 else {"X": pd.DataFrame({"u": [0.3], "v": [-1.0]})}
        if cfg.get("yfeed"):
            # the two labels arrive in the containers / dtypes _validate_y accepts (one observation each)
            kinds = YFEEDS[cfg["yfeed"]]
            y_true_in = _ywrap(kinds[pos % len(kinds)], y_true)
            y_pred_in = _ywrap(kinds[(pos // len(kinds) + pos) % len(kinds)], y_pred)
        else:
            y_true_in, y_pred_in = y_true, y_pred
        fam = cfg.get("fam")
        ref = state["ref"]
        try:
            ref.update(int(y_true == y_pred))
            exp = self._observe(ref)
        except Exception as e:  # the reference side is plain ADWIN on a valid scalar: it must not raise
            raise Violation(
                "ADWIN-raises",
                "ADWIN(%s).update(%r) raised %s: %s after %d samples"
                % (cfg["params"], int(y_true == y_pred), type(e).__name__, e, pos + 1),
                expected="no exception",
                observed=repr(e),
                sig="ADWIN-raises:%s" % type(e).__name__,
            )
        try:
            state["acc"].update(y_true=y_true_in, y_pred=y_pred_in, **kw)
            obs = self._observe(state["acc"])
        except Exception as e:
            raise Violation(
                "ADWINAccuracy-raises",
                "ADWINAccuracy(%s).update(y_true=%r, y_pred=%r) raised %s: %s (ADWIN on the indicator accepts the sample)"
                % (cfg["params"], y_true, y_pred, type(e).__name__, e),
                expected=_bits(exp),
                observed=repr(e),
                sig="ADWINAccuracy-update-raises:%s" % type(e).__name__,
            )
        return self._compare(cfg, exp, obs, pos, ctx, "")

    def _compare(self, cfg, exp, obs, pos, ctx, what):
        fam = cfg.get("fam")
        be, bo = _bits(exp), _bits(obs)
        if be != bo:
            bad = sorted(k for k in be if be[k] != bo.get(k))
            raise Violation(
                "ADWINAccuracy-twin",
                "ADWINAccuracy(**p) differs from ADWIN(**p) on the indicator stream on %s after %d samples (p = %s)%s"
                % (bad, pos + 1, cfg["params"], what),
                expected=be,
                observed=bo,
                sig="ADWINAccuracy-twin",
            )
        ctx.count("acc_twin_steps")
        if obs["state"] == "drift":
            ctx.mark("acc_twin_drifts")
        if fam:
            ctx.count("fam_%s_steps" % fam)
            if obs["state"] == "drift":
                ctx.count("fam_%s_drifts" % fam)
        return bo

    def _label_step(self, cfg, state, ev, pos, ctx):
        """ev = 1: the prediction names the same class as the label; ev = 0: another class.  The reference ADWIN is
        fed 1{y_true == y_pred} for the two values *as the detector receives them* (exact comparison of the numbers
        after conversion to their types; strings and booleans by ==)."""
        classes, tk, pk = LABELS[cfg["labels"]]
        n = len(classes)
        ci = (pos + pos // n) % n
        cj = ci if ev else (ci + 1 + pos % (n - 1)) % n
        kt = tk[pos % len(tk)]
        kp = pk[(pos // len(pk) + pos) % len(pk)]
        y_true_in, seen_t = _lwrap(kt, classes[ci])
        y_pred_in, seen_p = _lwrap(kp, classes[cj])
        ind = int(seen_t == seen_p)
        what = " [labels %r as %s / %r as %s, indicator %d]" % (classes[ci], kt, classes[cj], kp, ind)
        try:
            state["ref"].update(ind)
            exp = self._observe(state["ref"])
        except Exception as e:
            raise Violation(
                "ADWIN-raises",
                "ADWIN(%s).update(%r) raised %s: %s after %d samples" % (cfg["params"], ind, type(e).__name__, e, pos + 1),
                expected="no exception",
                observed=repr(e),
                sig="ADWIN-raises:%s" % type(e).__name__,
            )
        try:
            state["acc"].update(y_true_in, y_pred_in)
            obs = self._observe(state["acc"])
        except Exception as e:
            raise Violation(
                "ADWINAccuracy-raises",
                "ADWINAccuracy(%s).update(%r, %r) raised %s: %s (ADWIN on the indicator accepts the sample)"
                % (cfg["params"], y_true_in, y_pred_in, type(e).__name__, e),
                expected=_bits(exp),
                observed=repr(e),
                sig="ADWINAccuracy-update-raises:%s" % type(e).__name__,
            )
        out = self._compare(cfg, exp, obs, pos, ctx, what)
        if isinstance(seen_t, Fraction):
            if not ind and _np_isclose(seen_t, seen_p):
                ctx.count("labels_unequal_but_isclose")
            if ev and not ind:
                ctx.count("labels_same_class_unequal_across_precisions")
        if ind:
            ctx.count("label_hits")
        else:
            ctx.count("label_misses")
        return out


SYSTEMS = {"ADWIN": AdwinSystem(), "ADWINAccuracy": AccTwinSystem()}


# ------------------------------------------------------------------------------------------
# tasks
# ------------------------------------------------------------------------------------------
def _cfg(idx, alpha):
    return {"id": cfg_id(idx) + alpha, "params": params_of(idx), "alphabet": alpha}


def _dfs_tasks(idx, alpha, depth, split, tag):
    out = []
    split = min(split, depth)
    for prefix in itertools.product(ALPHABETS[alpha], repeat=split):
        out.append(
            {
                "system": "ADWIN",
                "cfg": _cfg(idx, alpha),
                "prefix": list(prefix),
                "depth": depth - split,
                "label": "ADWIN|%s|%s%s|%s" % (tag, cfg_id(idx), alpha, "".join(map(str, prefix))),
                "cost": len(ALPHABETS[alpha]) ** (depth - split),
            }
        )
    return out


def _dev_tasks(idx, dname, k):
    alpha, default = DEFAULTS[dname]
    menu = ALPHABETS[alpha]
    task = {
        "system": "ADWIN",
        "cfg": _cfg(idx, alpha),
        "mode": "dev",
        "default": default,
        "menu": menu,
        "k": k,
        "label": "ADWIN|dev%d|%s%s|%s" % (k, cfg_id(idx), alpha, dname),
        "cost": (L * (len(menu) - 1)) ** k // (2 if k > 1 else 1) * L // 3 + L,
        "validate_every": 97,
    }
    # independent tasks by position/value of the first deviation (+ the deviation-free history)
    parts = dev_split(task)
    if k <= 1:
        # every part is a single history executed from a freshly constructed detector (no
        # snapshots involved), so the snapshot-vs-fresh validation has nothing to validate
        for t in parts:
            t["validate_every"] = 0
    return parts


def _nonint_tasks(idx, pname, alpha, depth):
    return [
        {
            "system": "ADWIN",
            "cfg": _cfg(idx, alpha),
            "prefix": list(PREFIXES[pname]),
            "depth": depth,
            "label": "ADWIN|nonint|%s%s|%s" % (cfg_id(idx), alpha, pname),
            "cost": len(ALPHABETS[alpha]) ** depth * 2,
            "validate_every": 199,
        }
    ]


def _twin_tasks(depth, split):
    out = []
    for ci, p in enumerate(TWIN_PARAMS):
        for prefix in itertools.product((0, 1), repeat=split):
            out.append(
                {
                    "system": "ADWINAccuracy",
                    "cfg": {"id": "twin%d" % ci, "params": p},
                    "prefix": list(prefix),
                    "depth": depth - split,
                    "label": "ADWINAccuracy|twin%d|%s" % (ci, "".join(map(str, prefix))),
                    "cost": 2 ** (depth - split) * 2,
                }
            )
    return out


# ------------------------------------------------------------------------------------------
# round-3 families (additional tasks; every existing task above is kept as it was)
# ------------------------------------------------------------------------------------------
def _P(delta, max_buckets, nst, wst, s, cons):
    return dict(delta=delta, max_buckets=max_buckets, new_sample_thresh=nst, window_size_thresh=wst,
                subwindow_size_thresh=s, conservative_bound=cons)


PCFG = {
    "hot0": params_of(HOT[0]),  # delta .002, M 5, period 4, W > 6, sub-windows >= 2
    "hot1": params_of(HOT[1]),  # delta .3, M 2, period 1, no minimum sizes
    "hot2": params_of(HOT[2]),  # delta 1, M 1
    "hot3": params_of(HOT[3]),  # conservative bound, delta .3, M 1, period 2
    "hot4": params_of(HOT[4]),  # conservative bound, delta .002, M 2, period 2
    # legal but unusual
    "d1e-9": _P(1e-9, 2, 1, 0, 1, False),  # delta very small
    "d1e-9c": _P(1e-9, 2, 1, 0, 1, True),
    "M64": _P(0.3, 64, 1, 0, 1, False),  # more buckets per row than samples: no compression ever
    "M64c": _P(1.0, 64, 2, 3, 2, True),
    "nstBig": _P(0.3, 2, 1000, 0, 1, False),  # check period longer than the whole history
    "wstBig": _P(0.3, 2, 1, 1000, 1, False),  # minimum window larger than the whole history
    "sBig": _P(0.3, 2, 1, 0, 1000, False),  # minimum sub-window larger than the window: no admissible split
    "s0": _P(0.3, 2, 1, 0, 0, False),  # minimum sub-window 0
    "s0c": _P(1.0, 1, 1, 0, 0, True),
    "s5w2": _P(0.3, 2, 1, 2, 5, False),  # subwindow_size_thresh > window_size_thresh
    "s5w2c": _P(1.0, 5, 2, 2, 5, True),
    "default": {},  # ADWIN(): delta .002, M 5, period 32, W > 10, sub-windows >= 5
}

LONG = 192


def _stair(alpha, n=32):
    a = ALPHABETS[alpha]
    return [a[0]] * n + [a[1]] * n + [a[2]] * n


def _block(alpha, n=32):
    a = ALPHABETS[alpha]
    return [a[0]] * n + [a[-1]] * n + [a[0]] * n


def _fam_cfg(fam, pname, alpha, L, feed=None):
    cfg = {
        "id": "%s:%s:%s%s" % (fam, pname, alpha, (":" + feed) if feed else ""),
        "params": PCFG[pname],
        "alphabet": alpha,
        "fam": fam,
    }
    if feed:
        cfg["feed"] = feed
    if alpha not in ("b", "t", "bR", "tR") or feed == "f32":
        cfg["tol"] = _tol(alpha, L, feed)
    return cfg


def _fam_dfs(fam, pname, alpha, depth, split, feed=None):
    cfg = _fam_cfg(fam, pname, alpha, depth, feed)
    out = []
    split = min(split, depth)
    for prefix in itertools.product(ALPHABETS[alpha], repeat=split):
        out.append(
            {
                "system": "ADWIN",
                "cfg": cfg,
                "prefix": list(prefix),
                "depth": depth - split,
                "label": "ADWIN|%s|%s|d%d|%s" % (fam, cfg["id"], depth, ",".join(map(str, prefix))),
                "cost": len(ALPHABETS[alpha]) ** (depth - split) * 2,
            }
        )
    return out


def _fam_dev(fam, pname, alpha, dname, default, k, feed=None, menu=None):
    cfg = _fam_cfg(fam, pname, alpha, len(default), feed)
    menu = ALPHABETS[alpha] if menu is None else menu
    n = len(default)
    task = {
        "system": "ADWIN",
        "cfg": cfg,
        "mode": "dev",
        "default": default,
        "menu": menu,
        "k": k,
        "label": "ADWIN|%s|%s|%s|L%d|k%d" % (fam, cfg["id"], dname, n, k),
        "cost": (n * max(1, len(menu) - 1)) ** k // (2 if k > 1 else 1) * n // 3 + n,
        "validate_every": 97,
    }
    if k <= 1:
        # prefix-sharing tasks: L + (|menu|-1) * L^2 / 2 transitions instead of (|menu|-1) * L^2 for the
        # split form, one snapshot per position; every 97th history is re-executed on a fresh detector
        if n < 150:
            return [task]
        # long histories: one task per third of the deviation positions (the deviation-free history is in each)
        return _thirds(task)
    return dev_split(task)


def _thirds(task):
    default, menu, n = task["default"], task["menu"], len(task["default"])
    out = []
    cuts = [0, n // 3, 2 * n // 3, n]
    for a, b in zip(cuts, cuts[1:]):
        t = dict(task)
        t["menu"] = [[x for x in menu if x != default[i]] if a <= i < b else [] for i in range(n)]
        t["menu_per_pos"] = True
        t["label"] = task["label"] + "|dev@%d-%d" % (a, b - 1)
        t["cost"] = (len(menu) - 1) * (b - a) * (n - (a + b) // 2) + n
        out.append(t)
    return out


# families whose drift counter must be positive (ADWIN uses no randomness: none of these depends on VERIF_SEED)
FAMILIES_WITH_DRIFTS = [
    "val-neg", "val-frac", "val-mix", "val-lvl6", "val-lvl7", "val-nlvl7",
    "valdev-neg", "valdev-frac", "valdev-mix", "valdev-unit", "valdev-lvl6", "valdev-lvl7", "valdev-nlvl7",
    "par-d1e-9c", "par-M64", "par-M64c", "par-s0", "par-s0c", "par-s5w2", "par-s5w2c",
    "feed-cont", "feed-df", "feed-f32", "feed-f32after64", "feed-int", "feed-auto",
    "long-default", "twin-par", "twin-pardev", "twin-long-default",
    # second batch
    "val-giga", "val-lvl8", "valdev-giga", "valdev-lvl8",
    "feed-cont2", "feed-bool",
    "reset", "resetdev", "reset-long-default", "twin-reset",
]
# families that can never cut (that is their point): only their step counter is demanded
FAMILIES_STATS_ONLY = ["val-tiny", "valdev-tiny", "par-nstBig", "par-wstBig", "par-sBig", "twin-ycont",
                       "val-nano", "valdev-nano"]
# int8/uint8/int16/int32-typed streams (the running sums used to wrap: fix 27d654b; the family guards the repair)
FAMILIES_NARROW = ["feed-narrow"]
# ADWINAccuracy on class labels other than {0, 1}
FAMILIES_LABELS = ["twin-lab-" + n for n in LABELS]
FAMILIES_WITH_DRIFTS += FAMILIES_LABELS

VAL_ALPHAS = ["neg", "frac", "mix", "lvl6", "lvl7", "nlvl7", "tiny", "nano", "giga", "lvl8"]
PAR_SETS = ["d1e-9", "d1e-9c", "M64", "M64c", "nstBig", "wstBig", "sBig", "s0", "s0c", "s5w2", "s5w2c"]
XDEPTH = {
    "quick": {"val": 8, "par_b": 11, "par_t": 8, "feed": 8, "narrow": 5, "twin": 12, "ytwin": 10,
              "reset_b": 9, "reset_t": 7, "lab": 10, "rtwin": 9},
    "thorough": {"val": 10, "par_b": 14, "par_t": 9, "feed": 9, "narrow": 6, "twin": 15, "ytwin": 12,
                 "reset_b": 11, "reset_t": 8, "lab": 13, "rtwin": 11},
}

# ADWINAccuracy: every unusual parameter forwarded
TWIN_PARAMS_X = [PCFG[n] for n in ("d1e-9c", "M64", "M64c", "nstBig", "wstBig", "sBig", "s0", "s0c", "s5w2", "s5w2c")] + [
    _P(1e-9, 1, 1, 0, 0, True),
    _P(1.0, 64, 1, 1, 1, False),
]


def _extension_tasks(tier):
    x = XDEPTH[tier]
    out = []
    # -- value families ---------------------------------------------------------------------
    for a in VAL_ALPHAS:
        for pn in ("hot1", "hot2", "hot3"):
            out += _fam_dfs("val-" + a, pn, a, x["val"], 1)
    for a in VAL_ALPHAS + ["unit"]:
        out += _fam_dev("valdev-" + a, "hot0", a, "stair", _stair(a), 1)
    for a in ("mix", "unit", "lvl6", "nlvl7"):
        out += _fam_dev("valdev-" + a, "hot4", a, "stair", _stair(a), 1)
    if tier == "thorough":
        for a in ("mix", "lvl7"):
            out += _fam_dev("valdev-" + a, "hot1", a, "stair", _stair(a), 2)
    # -- unusual parameters -----------------------------------------------------------------
    for pn in PAR_SETS:
        out += _fam_dfs("par-" + pn, pn, "b", x["par_b"], 2)
        out += _fam_dfs("par-" + pn, pn, "t", x["par_t"], 1)
    for pn in ("d1e-9", "d1e-9c", "M64", "M64c", "s0", "s5w2", "s5w2c"):
        out += _fam_dev("par-" + pn, pn, "t", "stair", _stair("t"), 1)
    for pn in ("d1e-9c", "s0c", "M64c"):
        out += _fam_dev("par-" + pn, pn, "b", "block", _block("b"), 1)
    # -- containers / dtypes ----------------------------------------------------------------
    for feed, dfs_cfgs, dev_cfgs in (
        ("cont", [("hot1", "frac")], [("hot0", "mix")]),
        ("df", [("hot2", "neg")], [("hot0", "frac")]),
        ("f32", [("hot1", "t"), ("hot2", "dy")], [("hot0", "dy"), ("hot4", "t")]),
        ("f32after64", [("hot1", "dy")], [("hot0", "dy")]),
        ("int", [("hot1", "t"), ("hot2", "i3")], [("hot0", "ilvl7"), ("hot0", "i3")]),
        ("auto", [("hot1", "imix")], [("hot0", "imix")]),
    ):
        for pn, a in dfs_cfgs:
            out += _fam_dfs("feed-" + feed, pn, a, x["feed"], 1, feed)
        for pn, a in dev_cfgs:
            out += _fam_dev("feed-" + feed, pn, a, "stair", _stair(a), 1, feed)
    for feed in ("u8", "i8", "i16"):
        out += _fam_dfs("feed-narrow", "hot1", feed, x["narrow"], 0, feed)
    out += _fam_dev("feed-narrow", "hot0", "ilvl7", "stair", _stair("ilvl7"), 0, "i32")
    # -- default parameters, long histories ---------------------------------------------------
    out += _fam_dev("long-default", "default", "t", "stair64", _stair("t", 64), 1)
    out += _fam_dev("long-default", "default", "unit", "stair64", _stair("unit", 64), 1)
    out += _fam_dev("long-default", "default", "b", "block64", _block("b", 64), 1)
    # -- ADWINAccuracy twins ------------------------------------------------------------------
    for ci, p in enumerate(TWIN_PARAMS_X):
        for prefix in itertools.product((0, 1), repeat=2):
            out.append(
                {
                    "system": "ADWINAccuracy",
                    "cfg": {"id": "twinx%d" % ci, "params": p, "fam": "twin-par"},
                    "prefix": list(prefix),
                    "depth": x["twin"] - 2,
                    "label": "ADWINAccuracy|twin-par|twinx%d|%s" % (ci, "".join(map(str, prefix))),
                    "cost": 2 ** (x["twin"] - 2) * 2,
                }
            )
    # ... and on L = 96 agreement histories (1^32 0^32 1^32, k <= 1): within 12 samples a forwarded period / minimum
    # window of 1000, 64 buckets per row or delta 1e-9 cannot be told from the defaults - here they can
    for ci, p in enumerate(TWIN_PARAMS_X):
        out.append(
            {
                "system": "ADWINAccuracy",
                "cfg": {"id": "twinxdev%d" % ci, "params": p, "fam": "twin-pardev"},
                "mode": "dev",
                "default": [1] * 32 + [0] * 32 + [1] * 32,
                "menu": [0, 1],
                "k": 1,
                "label": "ADWINAccuracy|twin-pardev|twinxdev%d|L96|k1" % ci,
                "cost": 96 * 96,
                "validate_every": 97,
            }
        )
    for ci in (1, 4):
        out.append(
            {
                "system": "ADWINAccuracy",
                "cfg": {"id": "twiny%d" % ci, "params": TWIN_PARAMS[ci], "fam": "twin-ycont", "yfeed": "ycont", "xjunk": ci == 4},
                "prefix": [],
                "depth": x["ytwin"],
                "label": "ADWINAccuracy|twin-ycont|twiny%d" % ci,
                "cost": 2 ** x["ytwin"] * 2,
            }
        )
    agree = [1] * 64 + [0] * 64 + [1] * 64
    for ci, (p, yfeed) in enumerate((({}, None), ({}, "ycont"))):
        t = {
            "system": "ADWINAccuracy",
            "cfg": {"id": "twinlong%d" % ci, "params": p, "fam": "twin-long-default"},
            "mode": "dev",
            "default": agree,
            "menu": [0, 1],
            "k": 1,
            "label": "ADWINAccuracy|twin-long-default|twinlong%d|L%d|k1" % (ci, LONG),
            "cost": LONG * LONG // 3,
            "validate_every": 97,
        }
        if yfeed:
            t["cfg"]["yfeed"] = yfeed
        out += _thirds(t)
    out += _extension_tasks_2(tier)
    return out


def _extension_tasks_2(tier):
    """Second batch of round-3 families (scales at the ends of 1e-9 ... 1e8 are in VAL_ALPHAS)."""
    x = XDEPTH[tier]
    out = []
    # -- more containers / dtypes ---------------------------------------------------------------
    out += _fam_dfs("feed-cont2", "hot1", "frac", x["feed"], 1, "cont2")
    out += _fam_dev("feed-cont2", "hot0", "mix", "stair", _stair("mix"), 1, "cont2")
    out += _fam_dfs("feed-bool", "hot1", "b", x["par_b"], 2, "bool")
    out += _fam_dfs("feed-bool", "hot3", "b", x["par_b"], 2, "bool")
    out += _fam_dev("feed-bool", "hot0", "b", "block", _block("b"), 1, "bool")
    out += _fam_dfs("feed-f32", "hot3", "giga", x["feed"], 1, "f32")
    out += _fam_dev("feed-f32", "hot0", "giga", "stair", _stair("giga"), 1, "f32")
    if tier == "thorough":
        # four epochs under the default parameters (checks at 32, 64, ..., 384)
        out += _fam_dev("long-default", "default", "t", "stair96x4", [0] * 96 + [1] * 96 + [5] * 96 + [0] * 96, 1)
        out += _fam_dev("long-default", "default", "unit", "stair96x4", [0.05] * 96 + [0.5] * 96 + [0.95] * 96 + [0.05] * 96, 1)
    # -- explicit reset() events -------------------------------------------------------------------
    for pn in ("hot1", "hot2", "hot3"):
        out += _fam_dfs("reset", pn, "bR", x["reset_b"], 2)
    for pn in ("hot1", "hot4"):
        out += _fam_dfs("reset", pn, "tR", x["reset_t"], 1)
    #   long histories in which every choice of <= k samples is replaced by a reset() call (k = 2: twice in a row,
    #   before and after a cut, ...), or by a reset() call or another value (k = 1)
    b96 = _block("b")
    for pn, menu, k in (("hot0", [RESET], 2), ("hot1", [0, 1, RESET], 1), ("hot3", [0, 1, RESET], 1), ("hot2", [RESET], 2 if tier == "thorough" else 1)):
        out += _fam_dev("resetdev", pn, "bR", "block", b96, k, menu=menu)
    out += _fam_dev("reset-long-default", "default", "tR", "stair64", _stair("t", 64), 1, menu=[RESET])
    # -- ADWINAccuracy on class labels other than {0, 1} -------------------------------------------
    for name in LABELS:
        fam = "twin-lab-" + name
        for prefix in itertools.product((0, 1), repeat=2):
            out.append(
                {
                    "system": "ADWINAccuracy",
                    "cfg": {"id": "twinlab:%s" % name, "params": TWIN_PARAMS[1], "fam": fam, "labels": name},
                    "prefix": list(prefix),
                    "depth": x["lab"] - 2,
                    "label": "ADWINAccuracy|%s|twinlab:%s|d%d|%s" % (fam, name, x["lab"], "".join(map(str, prefix))),
                    "cost": 2 ** (x["lab"] - 2) * 2,
                }
            )
        out.append(
            {
                "system": "ADWINAccuracy",
                "cfg": {"id": "twinlabdev:%s" % name, "params": TWIN_PARAMS[2], "fam": fam, "labels": name},
                "mode": "dev",
                "default": [1] * 32 + [0] * 32 + [1] * 32,
                "menu": [0, 1],
                "k": 1,
                "label": "ADWINAccuracy|%s|twinlabdev:%s|L96|k1" % (fam, name),
                "cost": 96 * 96,
                "validate_every": 97,
            }
        )
    # default parameters on a long history (the default period of 32 is really passed) for the numeric label sets
    # whose classes an approximate comparison would merge
    for name in ("big", "e8fi", "near0", "x32"):
        t = {
            "system": "ADWINAccuracy",
            "cfg": {"id": "twinlablong:%s" % name, "params": {}, "fam": "twin-lab-" + name, "labels": name},
            "mode": "dev",
            "default": [1] * 64 + [0] * 64 + [1] * 64,
            "menu": [0, 1],
            "k": 1,
            "label": "ADWINAccuracy|twin-lab-%s|twinlablong:%s|L%d|k1" % (name, name, LONG),
            "cost": LONG * LONG // 3,
            "validate_every": 97,
        }
        out += _thirds(t)
    # -- ADWINAccuracy twin with reset() events ------------------------------------------------------
    for ci in (0, 1, 3):
        for first in (0, 1, RESET):
            out.append(
                {
                    "system": "ADWINAccuracy",
                    "cfg": {"id": "twinreset%d" % ci, "params": TWIN_PARAMS[ci], "fam": "twin-reset", "resets": True},
                    "prefix": [first],
                    "depth": x["rtwin"] - 1,
                    "label": "ADWINAccuracy|twin-reset|twinreset%d|d%d|%s" % (ci, x["rtwin"], first),
                    "cost": 3 ** (x["rtwin"] - 1) * 2,
                }
            )
    return out


def tasks(tier, seed):
    tier = tier if tier in DEPTH else "quick"
    d = DEPTH[tier]
    subset, _, _ = covering_subset(seed)
    out = []
    # 1. depth-bounded exhaustive, covering subset at full depth
    for idx in subset:
        out += _dfs_tasks(idx, "b", d["b"], 3 if tier == "quick" else 7, "dfs")
        out += _dfs_tasks(idx, "t", d["t"], 2 if tier == "quick" else 4, "dfs")
    # 2. thorough: the whole grid at reduced depth
    if d["grid_b"]:
        for idx in ALL_IDX:
            out += _dfs_tasks(idx, "b", d["grid_b"], 0, "grid")
            out += _dfs_tasks(idx, "t", d["grid_t"], 0, "grid")
    # 3. deviation-bounded long histories
    for dname in DEFAULTS:
        for hi, idx in enumerate(HOT):
            out += _dev_tasks(idx, dname, 2 if hi in DEV_K2[tier][dname] else 1)
    # 4. exhaustive suffixes from non-initial states
    for idx in HOT:
        for pname in PREFIXES:
            out += _nonint_tasks(idx, pname, "b", d["suffix_b"])
            out += _nonint_tasks(idx, pname, "t", d["suffix_t"])
    # 5. ADWINAccuracy twins
    out += _twin_tasks(d["twin"], 2 if tier == "quick" else 5)
    # 6. round-3 families
    out += _extension_tasks(tier)
    return out


REQUIRED = [
    "drift_transitions",
    "cuts_dropping_bucket_ge4",
    "cuts_dropping_bucket_ge8",
    "cascaded_cuts",
    "compressions_into_row_ge3",
    "compressions_into_row_ge4",
    "histories_reaching_second_drift",
    "histories_reaching_third_drift",
    "back_to_back_drifts",
    "checks_skipped_new_sample_thresh",
    "checks_skipped_window_size_thresh",
    "scans_with_split_below_subwindow_size_thresh",
    "checks_without_cut",
    "eps_decisions_within_factor2",
    "max_buckets1_shrinks",
    "cuts_across_missing_bucket_size",
    "exact_ties",
    "acc_twin_steps",
    "acc_twin_drifts",
]
REQUIRED += ["fam_%s_steps" % f for f in FAMILIES_WITH_DRIFTS + FAMILIES_STATS_ONLY + FAMILIES_NARROW]
REQUIRED += ["fam_%s_drifts" % f for f in FAMILIES_WITH_DRIFTS]
REQUIRED += [
    # explicit reset() calls at the moments that matter
    "explicit_resets",
    "explicit_reset_right_after_drift",
    "explicit_reset_twice_in_a_row",
    "explicit_reset_during_warmup",
    "drifts_after_explicit_reset",
    "acc_twin_resets",
    # label families: both outcomes, different classes an isclose() would merge, equal classes that differ across precisions
    "label_hits",
    "label_misses",
    "labels_unequal_but_isclose",
    "labels_same_class_unequal_across_precisions",
]


def describe(tier):
    tier = tier if tier in DEPTH else "quick"
    d = DEPTH[tier]
    try:
        seed = int(os.environ.get("VERIF_SEED", "0"))
    except ValueError:
        seed = 0
    subset, cov, npairs = covering_subset(seed)
    return {
        "rule": "every history inside the bound is executed on the real ADWIN (prefix-shared DFS, snapshots by "
        "deepcopy, no transposition merging) and compared with the reference model after every update; a history "
        "is non-trivial when at least one of its updates reported drift or decided an epsilon-cut within a factor "
        "2 of its threshold; histories are distinct event sequences or distinct parameter sets. ADWINAccuracy: "
        "every binary agreement sequence, twin ADWIN on the indicators, bit-for-bit",
        "bounds": {
            "alphabets": ALPHABETS,
            "dfs_depth": {"{0,1}": d["b"], "{0,1,5}": d["t"]},
            "dfs_parameter_sets": [params_of(i) for i in subset],
            "dfs_subset_pairwise_coverage": "%d of %d parameter-value pairs" % (cov, npairs),
            "whole_grid_324_depth": {"{0,1}": d["grid_b"], "{0,1,5}": d["grid_t"]} if d["grid_b"] else "thorough tier only",
            "dev_history_length": L,
            "dev_defaults": sorted(DEFAULTS),
            "dev_deviations_k": {n: {"k=2 for hot configs": list(DEV_K2[tier][n]), "others": 1} for n in DEFAULTS},
            "hot_parameter_sets": [params_of(i) for i in HOT],
            "nonint_prefix_length": 70,
            "nonint_suffix_depth": {"{0,1}": d["suffix_b"], "{0,1,5}": d["suffix_t"]},
            "twin_depth": d["twin"],
            "twin_parameter_sets": TWIN_PARAMS,
            "round3_families": {
                "value_alphabets": {k: VALUE_ALPHABETS[k] for k in sorted(VALUE_ALPHABETS)},
                "named_parameter_sets": PCFG,
                "val": "dfs depth %d over each of %s x (hot1, hot2, hot3)" % (XDEPTH[tier]["val"], VAL_ALPHAS),
                "valdev": "L=96 staircase lo^32 mid^32 hi^32, k<=1, each of %s under hot0; mix/unit/lvl6/nlvl7 also under "
                "hot4 (conservative bound)%s" % (VAL_ALPHAS + ["unit"], "; k<=2 for mix and lvl7 under hot1" if tier == "thorough" else ""),
                "par": "each of %s: dfs {0,1} depth %d and {0,1,5} depth %d; L=96 k<=1 staircases / blocks for the sets "
                "that can cut" % (PAR_SETS, XDEPTH[tier]["par_b"], XDEPTH[tier]["par_t"]),
                "feed": {"containers_and_dtypes": FEEDS, "dfs_depth": XDEPTH[tier]["feed"], "dev": "L=96 staircase, k<=1",
                         "narrow_integer_dfs_depth": XDEPTH[tier]["narrow"]},
                "long": "ADWIN() with default parameters, L=192 (lo^64 mid^64 hi^64 over {0,1,5} and {0.05,0.5,0.95}; "
                "0^64 1^64 0^64), k<=1%s" % ("; L=384 (lo^96 mid^96 hi^96 lo^96), k<=1" if tier == "thorough" else ""),
                "twin": {"extra_parameter_sets": TWIN_PARAMS_X, "depth": XDEPTH[tier]["twin"], "dev": "1^32 0^32 1^32, k<=1",
                         "label_containers": YFEEDS, "label_container_depth": XDEPTH[tier]["ytwin"],
                         "default_parameters": "L=192 (1^64 0^64 1^64), k<=1, plain and container-rotated labels"},
                "second_batch": {
                    "scales": "value alphabets nano (1e-9), giga (scale and spread 1e8), lvl8 (level 1e8, spread 5) in val / valdev "
                    "as above; giga also float32-typed",
                    "feed": "cont2 / bool feeds (see containers_and_dtypes): dfs depth %d (bool: %d under hot1 and hot3), "
                    "L=96 k<=1" % (XDEPTH[tier]["feed"], XDEPTH[tier]["par_b"]),
                    "reset": "reset() as an event: dfs {0,1,R} depth %d x (hot1, hot2, hot3), {0,1,5,R} depth %d x (hot1, hot4); "
                    "0^32 1^32 0^32 with <= 2 samples replaced by reset() (hot0%s), <= 1 replaced by a reset() or the other value "
                    "(hot1, hot3%s); default parameters, 0^64 1^64 5^64 with <= 1 sample replaced by reset()"
                    % (XDEPTH[tier]["reset_b"], XDEPTH[tier]["reset_t"], ", hot2" if tier == "thorough" else "",
                       "" if tier == "thorough" else "; reset() only: hot2"),
                    "twin_labels": {
                        "label_sets (classes, kinds of y_true, kinds of y_pred)": {k: list(v) for k, v in LABELS.items()},
                        "dfs_depth": XDEPTH[tier]["lab"],
                        "dev": "1^32 0^32 1^32 (1 = prediction names the label's class), k<=1; default parameters L=192 k<=1 for big, e8fi, near0, x32",
                    },
                    "twin_reset": "agreement bits and reset() events, depth %d, twin parameter sets 0, 1, 3" % XDEPTH[tier]["rtwin"],
                },
            },
        },
        "explanation": "states = tree nodes; traces_validated_against_impl = maximal histories on which the real "
        "detector and the model (or the twin) were compared after every update",
        "assumptions": [
            "the epsilon-cut formulas documented inline in adwin.py::_check_epsilon (normal-approximation bound "
            "with the whole-window population variance and ln(2 ln W / delta); conservative bound with ln(4 ln W / "
            "delta); m = 1/(n0-s+1) + 1/(n1-s+1)) are the documented epsilon-cut",
            "the exponential-histogram rule: a row of max_buckets+1 equal-sized buckets merges its two oldest",
            "an epsilon comparison within relative 1e-9 is numerically undecidable and follows the implementation "
            "(near_tie_steered); integer guards are enforced exactly",
            "mean/variance are compared with relative 1e-9 and absolute 1e-11 (data magnitude <= 5; measured rounding noise of the one-pass variance <= 1.5e-14)",
            "legacy families: values {0,1,5}; windows up to 96 samples; <= 2 deviations from the long default histories",
            "round-3 families: the value alphabets listed under bounds (3 symbols each), windows up to 192 samples, "
            "k <= 1; their tolerances scale with the data (mean: abs 1e-12*S, variance: abs 1e-12*S*R, decisions within "
            "max(1e-9, 1e-12*S/R) undecidable; S = max|x|, R = spread); float32- and integer-typed streams get the same "
            "tolerances, because the detector documents double-precision running sums whatever the input dtype",
            "every number of a value alphabet is handed to the model as the exact rational the detector receives "
            "(float32 / integer kinds: the value after conversion to that dtype)",
            "delta = 0 (accepted by the constructor, division by zero in the bound), float16 and object-dtype inputs, "
            "streams mixing magnitudes more than ~1e3 apart (e.g. one 1e8 outlier in unit-scale data: after the outlier "
            "leaves the window a correct one-pass implementation keeps an absolute error of ~1e8*2^-52, so only a tolerance "
            "too weak to be useful would be sound) and k >= 2 on the L=192 histories are not explored",
            "reset() called by the user initialises drift_state, retraining_recs and samples_since_reset and nothing else "
            "(the property lets W shrink only in an update that reports drift and total_samples counts every sample)",
            "ADWINAccuracy label families: 1{y_true == y_pred} is the == of the two values as received (numbers compared "
            "exactly after conversion to their dtype, so float32(0.1) != 0.1 while 2.5 == float32(2.5) == 2.5; 1e8 == "
            "int(1e8)); NaN labels, labels of mixed string / number type and integer labels beyond 2^53 are not explored",
            "the deviation-free history of an L=192 family is executed once per third of the deviation positions",
        ],
    }
