"""C03 — ADWIN keeps exact statistics of its adaptive window and cuts it by its
rule; ADWINAccuracy == ADWIN on the agreement indicators.

System "ADWIN"  (lock-step reference model, models/adwin.py)
    after EVERY update the real detector is compared with the model on
    mean(), variance(), drift_state, retraining_recs, total_samples,
    samples_since_reset and the window width W (derived from the public
    retraining_recs on drift, +1 otherwise; ``_window_size`` is read behind
    getattr only to sharpen the comparison).
    Explored:
      dfs     every sequence over {0,1} (depth 14 quick / 18 thorough) and
              {0,1,5} (9 / 11) for a pairwise-covering subset of 12 parameter
              combinations (rotated by VERIF_SEED); thorough additionally the
              whole 324-combination grid at depth 12 / 7;
      dev     default histories of length 96 (0^32 1^32 0^32, a density ramp,
              the staircase 0^32 1^32 5^32) with every choice of <= k positions
              replaced by every other symbol (k <= 2), so that rows of 8- and
              16-sample buckets are built, compressed and cut;
      nonint  exhaustive suffixes after a scripted 70-sample prefix (detector
              deep in its life: several rows, drifts behind it).
System "ADWINAccuracy"  (twin oracle)
    ADWINAccuracy(**p) fed (y_true, y_pred) vs ADWIN(**p) fed 1{y_true == y_pred},
    p != defaults, every binary agreement sequence up to the bound, all
    observables bit-for-bit.
"""
import itertools
import math
import os

from menelaus.change_detection import ADWIN
from menelaus.concept_drift import ADWINAccuracy

from mc.explorer import System, Violation, dev_split
from mc.numeric import close, lockstep
from mc.observe import stream_obs, fl
from models.adwin import ADWINModel

PROPERTY = "C03"
# safety net only (wall seconds); sized for a heavily shared machine: on 16 free cores quick needs
# ~30 s and thorough ~5 min.  VERIF_TIME_BUDGET=<seconds> overrides both.
TIME_BUDGET = {"quick": 1800, "thorough": 3600}
if os.environ.get("VERIF_TIME_BUDGET"):
    TIME_BUDGET = {k: float(os.environ["VERIF_TIME_BUDGET"]) for k in TIME_BUDGET}

# ------------------------------------------------------------------------------------------
# parameter grid (DESIGN §4 C03)
# ------------------------------------------------------------------------------------------
GRID = (
    ("delta", (0.002, 0.3, 1.0)),
    ("max_buckets", (1, 2, 5)),
    ("new_sample_thresh", (1, 2, 4)),
    ("window_size_thresh", (0, 3, 6)),
    ("subwindow_size_thresh", (1, 2)),
    ("conservative_bound", (False, True)),
)
NAMES = [n for n, _ in GRID]
LEVELS = [len(v) for _, v in GRID]
ALL_IDX = list(itertools.product(*[range(n) for n in LEVELS]))  # 324 index tuples


def params_of(idx):
    return {n: v[i] for (n, v), i in zip(GRID, idx)}


def cfg_id(idx):
    return "g" + "".join(map(str, idx))


def idx_of(**p):
    return tuple(v.index(p[n]) for n, v in GRID)


def _pairs(idx):
    return {(a, idx[a], b, idx[b]) for a in range(len(idx)) for b in range(a + 1, len(idx))}


_SUBSETS = {}


def covering_subset(rot, n=12):
    """Pairwise-covering selection of n grid points; ``rot`` rotates the candidate
    order of the greedy construction, hence which covering subset is chosen (the
    first rotation at or after ``rot * 37`` whose greedy result covers every pair)."""
    if (rot, n) not in _SUBSETS:
        best = None
        for shift in range(len(ALL_IDX)):
            res = _greedy((rot * 37 + shift) % len(ALL_IDX), n)
            if best is None or res[1] > best[1]:
                best = res
            if res[1] == res[2]:
                break
        _SUBSETS[(rot, n)] = best
    return _SUBSETS[(rot, n)]


def _greedy(k, n):
    order = ALL_IDX[k:] + ALL_IDX[:k]
    uncovered = set()
    for c in ALL_IDX:
        uncovered |= _pairs(c)
    npairs = len(uncovered)
    chosen = []
    while len(chosen) < n:
        best, gain = None, -1
        for c in order:
            if c in chosen:
                continue
            g = len(_pairs(c) & uncovered)
            if g > gain:
                best, gain = c, g
        chosen.append(best)
        uncovered -= _pairs(best)
    return chosen, npairs - len(uncovered), npairs


# fixed ("hot") configurations for the long-history modes: they guarantee the anti-vacuity
# counters independently of the rotation of the dfs subset
HOT = [
    idx_of(delta=0.002, max_buckets=5, new_sample_thresh=4, window_size_thresh=6, subwindow_size_thresh=2, conservative_bound=False),
    idx_of(delta=0.3, max_buckets=2, new_sample_thresh=1, window_size_thresh=0, subwindow_size_thresh=1, conservative_bound=False),
    idx_of(delta=1.0, max_buckets=1, new_sample_thresh=1, window_size_thresh=0, subwindow_size_thresh=1, conservative_bound=False),
    idx_of(delta=0.3, max_buckets=1, new_sample_thresh=2, window_size_thresh=3, subwindow_size_thresh=2, conservative_bound=True),
    idx_of(delta=0.002, max_buckets=2, new_sample_thresh=2, window_size_thresh=3, subwindow_size_thresh=1, conservative_bound=True),
    idx_of(delta=1.0, max_buckets=5, new_sample_thresh=4, window_size_thresh=6, subwindow_size_thresh=2, conservative_bound=True),
]

# ADWINAccuracy twins: every parameter differs from its default
TWIN_PARAMS = [
    dict(delta=1.0, max_buckets=1, new_sample_thresh=1, window_size_thresh=0, subwindow_size_thresh=1, conservative_bound=True),
    dict(delta=1.0, max_buckets=2, new_sample_thresh=1, window_size_thresh=3, subwindow_size_thresh=2, conservative_bound=False),
    dict(delta=0.3, max_buckets=2, new_sample_thresh=2, window_size_thresh=0, subwindow_size_thresh=1, conservative_bound=True),
    dict(delta=0.3, max_buckets=1, new_sample_thresh=1, window_size_thresh=6, subwindow_size_thresh=1, conservative_bound=False),
    dict(delta=1.0, max_buckets=3, new_sample_thresh=4, window_size_thresh=3, subwindow_size_thresh=2, conservative_bound=True),
    dict(delta=0.5, max_buckets=4, new_sample_thresh=3, window_size_thresh=2, subwindow_size_thresh=3, conservative_bound=True),
]

ALPHABETS = {"b": [0, 1], "t": [0, 1, 5]}

L = 96


def _ramp01():
    # density ramp: sparse ones that get denser, all ones in the second half
    out = []
    for i in range(L):
        out.append(min(1, ((i + 1) * (i + 1)) // L - (i * i) // L))
    return out


DEFAULTS = {
    "block01": ("b", [0] * 32 + [1] * 32 + [0] * 32),
    "ramp01": ("b", _ramp01()),
    "stair015": ("t", [0] * 32 + [1] * 32 + [5] * 32),
}

PREFIXES = {
    "p0": [0] * 35 + [1] * 35,
    "p1": [0, 1] * 20 + [5] * 10 + [0] * 20,
}

DEPTH = {
    "quick": {"b": 14, "t": 9, "grid_b": 0, "grid_t": 0, "suffix_b": 9, "suffix_t": 6, "twin": 12},
    "thorough": {"b": 18, "t": 11, "grid_b": 12, "grid_t": 7, "suffix_b": 12, "suffix_t": 8, "twin": 16},
}
# (default history, hot-config positions) explored with k = 2; everything else with k = 1
DEV_K2 = {
    "quick": {"block01": (0, 1, 2, 3, 4, 5), "ramp01": (1, 2, 3), "stair015": ()},
    "thorough": {"block01": (0, 1, 2, 3, 4, 5), "ramp01": (0, 1, 2, 3, 4, 5), "stair015": (0, 1, 2, 3, 4, 5)},
}

# numeric observables: relative 1e-9; the absolute floor is scaled by the magnitude of the
# data (max |x| = 5, x^2 = 25): the detector's one-pass variance carries O(ulp * sum of
# squared deviations) of rounding noise (measured: <= 1.5e-14 on the explored histories),
# which is not a property violation
ABS_TOL = 1e-11


def _diff(exp, obs):
    bad = []
    for k, v in exp.items():
        if k == "W_internal" and obs.get(k) is None:
            continue  # private field not available: nothing to sharpen
        if k not in obs or not close(v, obs[k], abs_=ABS_TOL if k in ("mean", "variance") else 1e-12):
            bad.append(k)
    return bad


class AdwinSystem(System):
    name = "ADWIN"

    def init(self, cfg):
        p = cfg["params"]
        return {"det": ADWIN(**p), "model": ADWINModel(**p), "W_obs": 0}

    def alphabet(self, cfg, state, pos):
        return ALPHABETS[cfg["alphabet"]]

    def step(self, cfg, state, ev, pos, ctx):
        det = state["det"]
        try:
            det.update(ev)
            obs = stream_obs(det)
            obs["mean"] = fl(det.mean())
            obs["variance"] = fl(det.variance())
        except Exception as e:  # ADWIN never raises on a valid scalar
            raise Violation(
                "ADWIN-raises",
                "ADWIN.update(%r) raised %s: %s after %d samples" % (ev, type(e).__name__, e, pos + 1),
                expected="no exception",
                observed=repr(e),
                sig="ADWIN-raises:%s" % type(e).__name__,
            )
        r = obs.get("recs")
        if obs["state"] == "drift":
            # width of the retained window as published through retraining_recs
            w = (r[1] - r[0] + 1) if (r and r[0] is not None and r[1] is not None) else None
        else:
            w = state["W_obs"] + 1
        obs["W"] = w
        wi = getattr(det, "_window_size", None)
        obs["W_internal"] = None if wi is None else int(wi)
        state["W_obs"] = w if w is not None else 0

        model, exp, ok = lockstep(
            state["model"],
            lambda m, D: m.step(ev, D),
            lambda e: not _diff(e, obs),
            stats=ctx.stats,
        )
        state["model"] = model
        d = model.diag
        if not ok:
            bad = _diff(exp, obs)
            sig = "ADWIN-spec"
            if cfg["params"]["max_buckets"] == 1 and d.get("gap_cut"):
                sig = "ADWIN-spec:max_buckets=1:cut-after-emptied-row"
            raise Violation(
                "ADWIN-spec",
                "ADWIN disagrees with its specification on %s after %d samples (params %s)"
                % (bad, pos + 1, cfg["params"]),
                expected=exp,
                observed=obs,
                sig=sig,
            )

        # ---- anti-vacuity bookkeeping (model diagnostics, valid because the step agreed) ----
        if exp["state"] == "drift":
            ctx.mark("drift_transitions")
            dropped = d["dropped"]
            if max(dropped) >= 4:
                ctx.count("cuts_dropping_bucket_ge4")
            if max(dropped) >= 8:
                ctx.count("cuts_dropping_bucket_ge8")
            if len(dropped) >= 2:
                ctx.count("cascaded_cuts")
            if cfg["params"]["max_buckets"] == 1:
                ctx.count("max_buckets1_shrinks")
            if d.get("gap_cut"):
                ctx.count("cuts_across_missing_bucket_size")
            if model.ndrifts == 2:
                ctx.count("histories_reaching_second_drift")
            elif model.ndrifts == 3:
                ctx.count("histories_reaching_third_drift")
            if exp["since"] == 1:
                ctx.count("back_to_back_drifts")
        if d.get("largest_merge", 0) >= 8:
            ctx.count("compressions_into_row_ge3")
        if d.get("largest_merge", 0) >= 16:
            ctx.count("compressions_into_row_ge4")
        if not d["scheduled"]:
            ctx.count("checks_skipped_new_sample_thresh")
        elif not d["checked"]:
            ctx.count("checks_skipped_window_size_thresh")
        if d.get("inadmissible"):
            ctx.count("scans_with_split_below_subwindow_size_thresh")
        if d.get("min_margin", math.inf) < 0.5:
            ctx.mark("eps_decisions_within_factor2")
        if d["checked"] and exp["state"] is None and d.get("splits_tested"):
            ctx.count("checks_without_cut")
        return obs


def _bits(o):
    """Bit-exact, JSON-able rendering of an observation."""
    out = {}
    for k, v in o.items():
        out[k] = float(v).hex() if isinstance(v, float) else v
    return out


class AccTwinSystem(System):
    name = "ADWINAccuracy"

    def init(self, cfg):
        p = cfg["params"]
        return {"acc": ADWINAccuracy(**p), "ref": ADWIN(**p)}

    def alphabet(self, cfg, state, pos):
        return [0, 1]

    @staticmethod
    def _observe(det):
        o = stream_obs(det)
        o["mean"] = fl(det.mean())
        o["variance"] = fl(det.variance())
        return o

    def step(self, cfg, state, ev, pos, ctx):
        # ev = 1: the prediction agrees with the label.  Both label values occur.
        y_true = pos % 2
        y_pred = y_true if ev else 1 - y_true
        ref = state["ref"]
        try:
            ref.update(int(y_true == y_pred))
            exp = self._observe(ref)
        except Exception as e:  # the reference side is plain ADWIN on a valid scalar: it must not raise
            raise Violation(
                "ADWIN-raises",
                "ADWIN(%s).update(%r) raised %s: %s after %d samples"
                % (cfg["params"], int(y_true == y_pred), type(e).__name__, e, pos + 1),
                expected="no exception",
                observed=repr(e),
                sig="ADWIN-raises:%s" % type(e).__name__,
            )
        try:
            state["acc"].update(y_true=y_true, y_pred=y_pred)
            obs = self._observe(state["acc"])
        except Exception as e:
            raise Violation(
                "ADWINAccuracy-raises",
                "ADWINAccuracy(%s).update(y_true=%r, y_pred=%r) raised %s: %s (ADWIN on the indicator accepts the sample)"
                % (cfg["params"], y_true, y_pred, type(e).__name__, e),
                expected=_bits(exp),
                observed=repr(e),
                sig="ADWINAccuracy-update-raises:%s" % type(e).__name__,
            )
        be, bo = _bits(exp), _bits(obs)
        if be != bo:
            bad = sorted(k for k in be if be[k] != bo.get(k))
            raise Violation(
                "ADWINAccuracy-twin",
                "ADWINAccuracy(**p) differs from ADWIN(**p) on the indicator stream on %s after %d samples (p = %s)"
                % (bad, pos + 1, cfg["params"]),
                expected=be,
                observed=bo,
                sig="ADWINAccuracy-twin",
            )
        ctx.count("acc_twin_steps")
        if obs["state"] == "drift":
            ctx.mark("acc_twin_drifts")
        return bo


SYSTEMS = {"ADWIN": AdwinSystem(), "ADWINAccuracy": AccTwinSystem()}


# ------------------------------------------------------------------------------------------
# tasks
# ------------------------------------------------------------------------------------------
def _cfg(idx, alpha):
    return {"id": cfg_id(idx) + alpha, "params": params_of(idx), "alphabet": alpha}


def _dfs_tasks(idx, alpha, depth, split, tag):
    out = []
    split = min(split, depth)
    for prefix in itertools.product(ALPHABETS[alpha], repeat=split):
        out.append(
            {
                "system": "ADWIN",
                "cfg": _cfg(idx, alpha),
                "prefix": list(prefix),
                "depth": depth - split,
                "label": "ADWIN|%s|%s%s|%s" % (tag, cfg_id(idx), alpha, "".join(map(str, prefix))),
                "cost": len(ALPHABETS[alpha]) ** (depth - split),
            }
        )
    return out


def _dev_tasks(idx, dname, k):
    alpha, default = DEFAULTS[dname]
    menu = ALPHABETS[alpha]
    task = {
        "system": "ADWIN",
        "cfg": _cfg(idx, alpha),
        "mode": "dev",
        "default": default,
        "menu": menu,
        "k": k,
        "label": "ADWIN|dev%d|%s%s|%s" % (k, cfg_id(idx), alpha, dname),
        "cost": (L * (len(menu) - 1)) ** k // (2 if k > 1 else 1) * L // 3 + L,
        "validate_every": 97,
    }
    # independent tasks by position/value of the first deviation (+ the deviation-free history)
    parts = dev_split(task)
    if k <= 1:
        # every part is a single history executed from a freshly constructed detector (no
        # snapshots involved), so the snapshot-vs-fresh validation has nothing to validate
        for t in parts:
            t["validate_every"] = 0
    return parts


def _nonint_tasks(idx, pname, alpha, depth):
    return [
        {
            "system": "ADWIN",
            "cfg": _cfg(idx, alpha),
            "prefix": list(PREFIXES[pname]),
            "depth": depth,
            "label": "ADWIN|nonint|%s%s|%s" % (cfg_id(idx), alpha, pname),
            "cost": len(ALPHABETS[alpha]) ** depth * 2,
            "validate_every": 199,
        }
    ]


def _twin_tasks(depth, split):
    out = []
    for ci, p in enumerate(TWIN_PARAMS):
        for prefix in itertools.product((0, 1), repeat=split):
            out.append(
                {
                    "system": "ADWINAccuracy",
                    "cfg": {"id": "twin%d" % ci, "params": p},
                    "prefix": list(prefix),
                    "depth": depth - split,
                    "label": "ADWINAccuracy|twin%d|%s" % (ci, "".join(map(str, prefix))),
                    "cost": 2 ** (depth - split) * 2,
                }
            )
    return out


def tasks(tier, seed):
    tier = tier if tier in DEPTH else "quick"
    d = DEPTH[tier]
    subset, _, _ = covering_subset(seed)
    out = []
    # 1. depth-bounded exhaustive, covering subset at full depth
    for idx in subset:
        out += _dfs_tasks(idx, "b", d["b"], 3 if tier == "quick" else 7, "dfs")
        out += _dfs_tasks(idx, "t", d["t"], 2 if tier == "quick" else 4, "dfs")
    # 2. thorough: the whole grid at reduced depth
    if d["grid_b"]:
        for idx in ALL_IDX:
            out += _dfs_tasks(idx, "b", d["grid_b"], 0, "grid")
            out += _dfs_tasks(idx, "t", d["grid_t"], 0, "grid")
    # 3. deviation-bounded long histories
    for dname in DEFAULTS:
        for hi, idx in enumerate(HOT):
            out += _dev_tasks(idx, dname, 2 if hi in DEV_K2[tier][dname] else 1)
    # 4. exhaustive suffixes from non-initial states
    for idx in HOT:
        for pname in PREFIXES:
            out += _nonint_tasks(idx, pname, "b", d["suffix_b"])
            out += _nonint_tasks(idx, pname, "t", d["suffix_t"])
    # 5. ADWINAccuracy twins
    out += _twin_tasks(d["twin"], 2 if tier == "quick" else 5)
    return out


REQUIRED = [
    "drift_transitions",
    "cuts_dropping_bucket_ge4",
    "cuts_dropping_bucket_ge8",
    "cascaded_cuts",
    "compressions_into_row_ge3",
    "compressions_into_row_ge4",
    "histories_reaching_second_drift",
    "histories_reaching_third_drift",
    "back_to_back_drifts",
    "checks_skipped_new_sample_thresh",
    "checks_skipped_window_size_thresh",
    "scans_with_split_below_subwindow_size_thresh",
    "checks_without_cut",
    "eps_decisions_within_factor2",
    "max_buckets1_shrinks",
    "cuts_across_missing_bucket_size",
    "exact_ties",
    "acc_twin_steps",
    "acc_twin_drifts",
]


def describe(tier):
    tier = tier if tier in DEPTH else "quick"
    d = DEPTH[tier]
    try:
        seed = int(os.environ.get("VERIF_SEED", "0"))
    except ValueError:
        seed = 0
    subset, cov, npairs = covering_subset(seed)
    return {
        "rule": "every history inside the bound is executed on the real ADWIN (prefix-shared DFS, snapshots by "
        "deepcopy, no transposition merging) and compared with the reference model after every update; a history "
        "is non-trivial when at least one of its updates reported drift or decided an epsilon-cut within a factor "
        "2 of its threshold; histories are distinct event sequences or distinct parameter sets. ADWINAccuracy: "
        "every binary agreement sequence, twin ADWIN on the indicators, bit-for-bit",
        "bounds": {
            "alphabets": ALPHABETS,
            "dfs_depth": {"{0,1}": d["b"], "{0,1,5}": d["t"]},
            "dfs_parameter_sets": [params_of(i) for i in subset],
            "dfs_subset_pairwise_coverage": "%d of %d parameter-value pairs" % (cov, npairs),
            "whole_grid_324_depth": {"{0,1}": d["grid_b"], "{0,1,5}": d["grid_t"]} if d["grid_b"] else "thorough tier only",
            "dev_history_length": L,
            "dev_defaults": sorted(DEFAULTS),
            "dev_deviations_k": {n: {"k=2 for hot configs": list(DEV_K2[tier][n]), "others": 1} for n in DEFAULTS},
            "hot_parameter_sets": [params_of(i) for i in HOT],
            "nonint_prefix_length": 70,
            "nonint_suffix_depth": {"{0,1}": d["suffix_b"], "{0,1,5}": d["suffix_t"]},
            "twin_depth": d["twin"],
            "twin_parameter_sets": TWIN_PARAMS,
        },
        "explanation": "states = tree nodes; traces_validated_against_impl = maximal histories on which the real "
        "detector and the model (or the twin) were compared after every update",
        "assumptions": [
            "the epsilon-cut formulas documented inline in adwin.py::_check_epsilon (normal-approximation bound "
            "with the whole-window population variance and ln(2 ln W / delta); conservative bound with ln(4 ln W / "
            "delta); m = 1/(n0-s+1) + 1/(n1-s+1)) are the documented epsilon-cut",
            "the exponential-histogram rule: a row of max_buckets+1 equal-sized buckets merges its two oldest",
            "an epsilon comparison within relative 1e-9 is numerically undecidable and follows the implementation "
            "(near_tie_steered); integer guards are enforced exactly",
            "mean/variance are compared with relative 1e-9 and absolute 1e-11 (data magnitude <= 5; measured rounding noise of the one-pass variance <= 1.5e-14)",
            "values outside {0,1,5}, windows longer than 96 samples and more than 2 deviations from the long "
            "default histories are not covered",
        ],
    }
