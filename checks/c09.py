"""C09 — kdq-tree detectors alarm exactly when the leaf divergence exceeds the
bootstrap bound.

Explored: KdqTreeBatch over sequences of update / set_reference events drawn
from a menu of 5 batches (1-D and 2-D menus) for alpha x bootstrap_samples x
count_ubound; KdqTreeStreaming over all value sequences (window_size 2, DFS) and
over a long default history with <= k deviations (window_size 3, 4) for
persistence x alpha.  Oracle: lock-step agreement with models/kdq (own
point-routing tree on the observed shape, same-seed bootstrap bound through the
documented draw protocol, `KL > critical` through the Decider, *consecutive*
persistence counter) on drift_state and the counters after every call; the
per-node reference/test counts are read back from to_plotly_dataframe() and
must equal the model's (second opinion on the divergence).
"""
import os

import numpy as np
import pandas as pd

from menelaus.data_drift.kdq_tree import KdqTreeBatch, KdqTreeStreaming

from mc import rng
from mc.canon import canon
from mc.explorer import HarnessError, System, Violation
from mc.numeric import close, diff_keys, lockstep
from mc.observe import batch_obs, stream_obs
from models.kdq import KdqBatchModel, KdqStreamModel, ShapeError, kl_counts

from checks.c08 import df_rows

PROPERTY = "C09"

SIG_PERSISTENCE = "streaming-persistence-counter-never-reset"


# ------------------------------------------------------- observing the tree


def observe_tree(det, full=True):
    """-> (counts by path {path: (reference count, test count)}, shape) read
    from the public to_plotly_dataframe(); (None, False) when the detector has
    no tree.  ``full``: use the default call (reference vs. test with the
    Kulldorff column, ~4 ms); otherwise two cheap single-id calls."""
    try:
        if full:
            df = det.to_plotly_dataframe()
        else:
            df = det.to_plotly_dataframe(tree_id2=None)
            dft = det.to_plotly_dataframe(tree_id1="test", tree_id2=None)
    except AttributeError:
        return None, False
    except Exception as e:
        raise Violation("plotly-raises", "to_plotly_dataframe() raised %r" % (e,), observed=repr(e))
    rows = df_rows(df)
    if full:
        counts = {p: (int(r["cell_count"]), int(r["cell_count"]) + int(r["count_diff"])) for p, r in rows.items()}
    else:
        if len(dft) == 0:  # no test sample filed yet
            counts = {p: (int(r["cell_count"]), 0) for p, r in rows.items()}
        else:
            trows = df_rows(dft)
            if set(trows) != set(rows):
                raise Violation("reference-tree", "reference and test listings of the tree differ", expected=sorted(rows), observed=sorted(trows))
            counts = {p: (int(r["cell_count"]), int(trows[p]["cell_count"])) for p, r in rows.items()}

    def shape(path):
        if path + "L" in rows:
            return (shape(path + "L"), shape(path + "R"))
        return None

    return counts, shape("")


def compare_tree(rows, model, what):
    """Public per-node counts vs. the model's individually routed points."""
    R = model.R
    if R is None:
        if rows is not None:
            raise Violation("unexpected-tree", "%s: a reference tree exists before the reference window is complete" % what)
        return None
    if rows is None:
        raise Violation("reference-tree", "%s: no reference tree observable" % what)
    tree = R.tree
    if set(rows) != set(tree.nodes):
        raise Violation("reference-tree", "%s: observed nodes %r, model %r" % (what, sorted(rows), sorted(tree.nodes)))
    test = model.test
    for p in tree.nodes:
        t = 0 if test is None else test[p]
        if rows[p] != (tree.ref[p], t):
            raise Violation(
                "node-counts",
                "%s: node %r reports reference/test counts %r, the routed points give %r/%r"
                % (what, p, rows[p], tree.ref[p], t),
                expected=[tree.ref[p], t],
                observed=list(rows[p]),
            )
    return kl_counts([rows[p][0] for p in tree.leaves], [rows[p][1] for p in tree.leaves])


def check_leaves_full(model, what):
    """Round 4b: a reference tree that stops splitting too early (in the extreme: a single leaf, divergence and bound
    identically 0, a detector that can never alarm) used to be accepted, because the shape is read from the
    implementation.  count_ubound is documented as "no leaf shall contain more samples than this value, unless further
    divisions violate the cutpoint_proportion_lbound restriction"; the implementation (pinned by C08) also stops when
    the node holds at most count_ubound distinct scalar values or has no extent along the axis of its depth.  Demand
    only what survives all of these: a leaf with more than count_ubound points AND more than count_ubound distinct
    values AND a positive extent along its axis must have been split (the menus are small integers / short decimals:
    int(cutpoint_proportion_lbound * range) is 0 and midpoints are never rounded up to the maximum)."""
    tree = model.R.tree
    by = {}
    for p in tree.points:
        by.setdefault(tree.leaf_of(p), []).append(p)
    for leaf, pts in sorted(by.items()):
        axis = len(leaf) % tree.dim
        col = [p[axis] for p in pts]
        if len(pts) > tree.ub and len({v for p in pts for v in p}) > tree.ub and min(col) < max(col):
            raise Violation(
                "reference-tree:oversized-leaf",
                "%s: leaf %r of the reference tree holds %d points (%d distinct values, range [%r, %r] along axis %d) "
                "with count_ubound=%d but is not split" % (what, leaf, len(pts), len({v for p in pts for v in p}),
                                                          min(col), max(col), axis, tree.ub),
                expected="internal",
                observed="leaf",
            )


def sharpen(det, model, d_public, what):
    """Private fields only behind getattr, only to sharpen (DESIGN §2.2)."""
    R = model.R
    if R is None or os.environ.get("VERIF_C09_NO_SHARPEN"):
        return
    crit = getattr(det, "_critical_dist", None)
    if crit is not None and not close(float(crit), R.crit):
        raise Violation(
            "critical-value",
            "%s: bound %r, the (1-alpha) nearest-rank quantile of the same-seed bootstrap divergences is %r"
            % (what, crit, R.crit),
            expected=R.crit,
            observed=crit,
        )
    td = getattr(det, "_test_dist", None)
    if td is not None and model.d is not None:
        if not close(float(td), model.d) or not close(d_public, model.d):
            raise Violation(
                "divergence",
                "%s: divergence %r (from public counts: %r), KL(reference || test) over the reference leaves is %r"
                % (what, td, d_public, model.d),
                expected=model.d,
                observed=td,
            )


# ------------------------------------------------------------------- batch

MENUS = {
    "1d": [
        [[0.0], [1.0], [2.0], [3.0]],
        [[0.0], [0.0], [1.0], [1.0], [2.0], [3.0]],
        [[3.0], [3.0], [3.0], [2.0], [3.0]],
        [[0.0], [1.0], [2.0], [3.0], [4.0], [5.0], [6.0], [7.0]],
        [[0.0], [0.0], [0.0], [1.0], [4.0], [4.0], [4.0]],
    ],
    "2d": [
        [[0.0, 0.0], [1.0, 1.0], [2.0, 2.0], [3.0, 3.0]],
        [[0.0, 0.0], [0.0, 1.0], [1.0, 0.0], [1.0, 1.0], [3.0, 3.0]],
        [[3.0, 3.0], [3.0, 2.0], [2.0, 3.0], [3.0, 3.0], [2.0, 2.0], [3.0, 3.0]],
        [[0.0, 3.0], [1.0, 2.0], [2.0, 1.0], [3.0, 0.0], [0.0, 0.0], [3.0, 3.0], [1.0, 1.0], [2.0, 2.0]],
        [[0.0, 0.0], [0.0, 0.0], [0.0, 0.0], [1.0, 0.0], [0.0, 1.0], [0.0, 0.0], [3.0, 3.0]],
    ],
}


# round 3 --------------------------------------------------------------------
# "1dmix": integer batches (handed over as integer arrays when cfg["int_when_integral"]) mixed with float batches whose
# values change leaf when truncated (1.7 | 1 around the split 1.5, 0.6 | 0 around 0.5, 2.6 | 2 around 2.5)
MENUS["1dmix"] = [
    [[0.0], [1.0], [2.0], [3.0]],
    [[0.0], [1.7], [0.6], [3.0]],
    [[3.0], [3.0], [3.0], [2.0], [3.0]],
    [[0.6], [1.7], [2.6], [0.4], [1.4], [2.4]],
    [[0.0], [0.0], [0.0], [1.0], [4.0], [4.0], [4.0]],
]
# "sizes": batches of 4, 16, 2, 12 and 3 rows: after a reference replacement the bootstrap sample size is the size of
# the *current* reference, a factor 4-8 away from the previous one
MENUS["sizes"] = [
    [[0.0], [1.0], [2.0], [3.0]],
    [[0.0]] * 2 + [[1.0]] * 2 + [[2.0]] * 6 + [[3.0]] * 6,
    [[3.0], [3.0]],
    [[float(i)] for i in (0, 0, 1, 1, 2, 2, 3, 3, 0, 3, 1, 2)],
    [[0.0], [0.0], [3.0]],
]
DF_COLS = ["y", "x", "w"]  # deliberately not in alphabetical order: positions, not labels, define the axes

# round 4 ("the caller re-uses its containers") --------------------------------------------------------------------
# Menus whose batches share ONE shape, so that a caller with one preallocated container per shape overwrites the
# very object it passed earlier.  All values are small integers (exact in float64 / int64 containers alike).
# "eq1d": four batches of 6 rows (spread / low / high / two clusters) + one of 4 rows (a second shape: its container
# is a different object, the 6-row container stays untouched while it is used).
MENUS["eq1d"] = [
    [[0.0], [1.0], [2.0], [3.0], [4.0], [5.0]],
    [[0.0], [0.0], [1.0], [1.0], [2.0], [5.0]],
    [[5.0], [5.0], [5.0], [4.0], [5.0], [3.0]],
    [[0.0], [0.0], [0.0], [5.0], [5.0], [5.0]],
    [[0.0], [1.0], [4.0], [5.0]],
]
# "eq2d": five batches of 6 rows x 2 features
MENUS["eq2d"] = [
    [[0.0, 0.0], [1.0, 1.0], [2.0, 2.0], [3.0, 3.0], [0.0, 3.0], [3.0, 0.0]],
    [[0.0, 0.0], [0.0, 1.0], [1.0, 0.0], [1.0, 1.0], [0.0, 0.0], [3.0, 3.0]],
    [[3.0, 3.0], [3.0, 2.0], [2.0, 3.0], [3.0, 3.0], [2.0, 2.0], [3.0, 3.0]],
    [[0.0, 3.0], [1.0, 2.0], [2.0, 1.0], [3.0, 0.0], [0.0, 0.0], [3.0, 3.0]],
    [[0.0, 0.0], [0.0, 0.0], [0.0, 0.0], [1.0, 0.0], [0.0, 1.0], [3.0, 3.0]],
]


def _lattice(n, dim, kind):
    """Deterministic batches of n rows for the larger-batch family (count_ubound 8, several points per leaf):
    integer lattice points, "spread" over 0..15, "low" / "high" squeezed into one half, "ends" on {0, 1, 14, 15}.  No random numbers: value i of feature j is a fixed arithmetic pattern."""
    rows = []
    for i in range(n):
        r = []
        for j in range(dim):
            v = (i * (5 + 2 * j) + 3 * j) % 16
            if kind == "low":
                v = v // 2
            elif kind == "high":
                v = 8 + v // 2
            elif kind == "ends":
                v = v // 4 if v < 8 else 14 + v % 2
            r.append(float(v))
        rows.append(r)
    return rows


# "big1d" / "big2d": five batches of 48 rows each (count_ubound 8 in the family that uses them)
for _dim in (1, 2):
    MENUS["big%dd" % _dim] = [_lattice(48, _dim, k) for k in ("spread", "low", "high", "ends")] + [
        _lattice(48, _dim, "spread")[::-1]  # the spread batch in reverse row order: same leaf counts, other object content
    ]



def _lattice256(n, dim, kind):
    """Deterministic batches of n rows on the integer lattice 0..255 for the default-parameter family (count_ubound
    100, 600 rows as in the library's examples; a node is only split while it holds MORE than count_ubound distinct
    scalar values, so every batch has at least 128 of them): "spread" over 0..255, "low" / "high" squeezed into one
    half, "ends" on {0..63, 192..255}.  Fixed arithmetic pattern, no random numbers."""
    rows = []
    for i in range(n):
        r = []
        for j in range(dim):
            v = (i * (37 + 6 * j) + 11 * j) % 256
            if kind == "low":
                v = v // 2
            elif kind == "high":
                v = 128 + v // 2
            elif kind == "ends":
                v = v // 2 if v < 128 else 192 + v % 64
            r.append(float(v))
        rows.append(r)
    return rows


# "huge1d" (unused at present) / "huge2d": five batches of 600 rows (the detector's DEFAULT count_ubound 100 and alpha 0.01 in the family
# that uses them; 100 bootstrap samples of 1200 draws)
for _dim in (1, 2):
    MENUS["huge%dd" % _dim] = [_lattice256(600, _dim, k) for k in ("spread", "low", "high", "ends")] + [
        _lattice256(600, _dim, "spread")[::-1]
    ]

# container kinds of the "caller re-uses / destroys its containers" families.  nd1 / series: one feature (batch), one
# row (streaming).  Round 4b: ndF (Fortran-ordered 2-D array), ndview (a strided, non-contiguous view into a larger
# array the caller owns: every second row and column), ndro (an array whose writeable flag is off whenever the detector
# sees it), dfidx (DataFrame whose index labels run backwards: positions, not labels, are the rows), dfmix (DataFrame
# with an int64 first column and float64 other columns: no single block that to_numpy() could hand out as a view)
REUSE_KINDS = ("nd2", "nd1", "series", "df", "ndF", "ndview", "ndro", "dfidx", "dfmix")
_NP = {"f8": np.float64, "i8": np.int64, "f4": np.float32}


def buf_new(kind, dtype, shape, row):
    """A caller-owned container of the given kind for values of the given 2-D shape, holding zeros.  ``row``: the 1-D
    kinds hold one row of features (streaming sample); otherwise one column (single-feature batch)."""
    z = np.zeros(shape, dtype=_NP[dtype])
    flat = z[0] if row else z[:, 0]
    if kind == "nd2":
        return z
    if kind == "nd1":
        return flat.copy()
    if kind == "series":
        return pd.Series(flat.copy())
    if kind == "df":
        return pd.DataFrame(z, columns=DF_COLS[: shape[1]])
    if kind == "ndF":
        return np.asfortranarray(z)
    if kind == "ndview":
        base = np.zeros((2 * shape[0], 2 * shape[1]), dtype=_NP[dtype])
        return base[::2, ::2]  # does not own its data, not contiguous
    if kind == "ndro":
        z.flags.writeable = False
        return z
    if kind == "dfidx":
        return pd.DataFrame(z, columns=DF_COLS[: shape[1]], index=list(range(shape[0]))[::-1])
    if kind == "dfmix":
        return pd.DataFrame({c: (z[:, j].astype(np.int64) if j == 0 else z[:, j].copy())
                             for j, c in enumerate(DF_COLS[: shape[1]])})
    raise HarnessError("unknown reusable container %r" % (kind,))


def buf_write(obj, kind, arr, row):
    """Overwrite the caller-owned container IN PLACE with the values of ``arr`` (the object stays the same)."""
    flat = arr[0] if row else arr[:, 0]
    if kind in ("nd2", "ndF", "ndview"):
        obj[...] = arr
    elif kind == "ndro":  # the caller may write to its own array; the detector sees it read-only
        obj.flags.writeable = True
        obj[...] = arr
        obj.flags.writeable = False
    elif kind == "nd1":
        obj[...] = flat
    elif kind == "series":
        obj.iloc[:] = flat.astype(obj.dtype)
    elif kind in ("df", "dfidx"):
        obj.iloc[:, :] = arr.astype(obj.dtypes.iloc[0])
    elif kind == "dfmix":
        for j in range(arr.shape[1]):
            obj.iloc[:, j] = arr[:, j].astype(obj.dtypes.iloc[j])
    else:
        raise HarnessError("unknown reusable container %r" % (kind,))


def buf_scribble(obj, kind, arr, row):
    """The caller destroys what it passed, IN PLACE, as soon as the call has returned: the rows in reverse order, every
    value + 100 (still ordinary numbers, exact in every dtype used, different from what was passed in EVERY element,
    and far outside the range of the menus: a reference built from them has its cut points above every later sample,
    so the public node counts differ from the model's at the first sample that is not the minimum)."""
    junk = np.array(arr, dtype=float)[::-1] + 100.0
    buf_write(obj, kind, junk, row)
    if np.array_equal(buf_read(obj, kind, row), np.array(arr, dtype=float)):
        raise HarnessError("scribbling over the %s left the passed values in place" % (kind,))


def buf_read(obj, kind, row):
    """The values the caller-owned container currently holds, as a 2-D float array."""
    a = obj.to_numpy(dtype=float) if kind in ("series", "df", "dfidx", "dfmix") else np.array(obj, dtype=float)
    if a.ndim == 1:
        a = a.reshape(1, -1) if row else a.reshape(-1, 1)
    return a


def reused_container(cfg, state, role, rows, ctx, row):
    """The caller keeps ONE container object per (role and) shape, refills it in place and passes the same object in
    every call (cfg["reuse"] = kind of container; cfg["roles"] = "shared": update and set_reference batches of one
    shape travel in the same object, "separate": one object per role and shape).  The containers live in
    state["bufs"], so snapshots copy detector and containers together (a detector attribute that *is* the caller's
    object stays the copied caller's object).  The model / oracle sees the values, never the object."""
    kind, dtype = cfg["reuse"], cfg.get("reuse_dtype", "f8")
    arr = np.array(rows, dtype=float)
    key = "%s:%dx%d" % (role if cfg.get("roles", "shared") == "separate" else "any", arr.shape[0], arr.shape[1])
    bufs = state["bufs"]
    if key not in bufs:
        bufs[key] = buf_new(kind, dtype, arr.shape, row)
        ctx.count("reuse_containers_allocated")
    else:
        ctx.count("reuse_objects_passed_again")
        if not np.array_equal(buf_read(bufs[key], kind, row), arr):
            ctx.count("reuse_objects_overwritten_with_other_values")
    obj = bufs[key]
    buf_write(obj, kind, arr, row)
    if not np.array_equal(buf_read(obj, kind, row), arr):
        raise HarnessError("the reused %s (%s) does not hold the values written to it" % (kind, dtype))
    if len(bufs) >= 2:
        ctx.count("reuse_steps_with_two_or_more_containers_alive")
    ctx.count("reuse_kind_%s_%s" % (kind, dtype))
    if dtype == "i8":
        ctx.count("integer_typed_samples")
    if kind in ("df", "dfidx", "dfmix"):
        ctx.count("dataframe_inputs")
    if kind in ("ndF", "ndview") and not (obj.flags.c_contiguous and obj.flags.owndata):
        ctx.count("reuse_arrays_not_c_contiguous_or_not_owning")
    if kind == "ndro":
        if obj.flags.writeable:
            raise HarnessError("the read-only container is writeable")
        ctx.count("reuse_arrays_read_only")
    return obj, key


def scribble_after_call(cfg, state, key, rows, ctx, row):
    """cfg["scribble"]: the caller overwrites the object it has just passed (whatever it passes next: the same object
    or another one).  Done before anything is observed, inside the step, so the consequence of a retained alias is part
    of the detector's state from here on (snapshots cannot cut it)."""
    if not cfg.get("scribble"):
        return
    buf_scribble(state["bufs"][key], cfg["reuse"], rows, row)
    ctx.count("scribbled_containers")


def bufs_key(state):
    """Contents of the caller's containers, for the transposition key (equal detector + equal containers = equal futures)."""
    return tuple((k, canon(v)) for k, v in sorted(state.get("bufs", {}).items()))


def menu_dim(cfg):
    return len(MENUS[cfg["menu"]][0][0])


def encode(cfg, rows, pos, ctx):
    """The rows (list of equal-length lists of floats) in the container / dtype the configuration asks for:
    ndarray (default), DataFrame with the column labels DF_COLS, or alternating by position; integer dtype when
    cfg["int_when_integral"] and every value is integral."""
    a = np.array(rows, dtype=float)
    if cfg.get("int_when_integral") and all(float(v).is_integer() for r in rows for v in r):
        # integer-typed input interleaved with float input: the same numbers in another container dtype
        a = a.astype(np.int64)
        ctx.count("integer_typed_samples")
    kind = cfg.get("container", "ndarray")
    if kind == "alt":
        kind = "df" if pos % 2 == 0 else "ndarray"
    if kind == "df":
        ctx.count("dataframe_inputs")
        return pd.DataFrame(a, columns=DF_COLS[: a.shape[1]])
    return a


class BatchSys(System):
    name = "KdqTreeBatch"

    def init(self, cfg):
        dim = menu_dim(cfg)
        kw = dict(alpha=cfg["alpha"], bootstrap_samples=cfg["B"], count_ubound=cfg["ub"])
        state = {"det": KdqTreeBatch(**kw), "model": KdqBatchModel(dim=dim, **kw), "nset": 0}
        if cfg.get("reuse"):
            state["bufs"] = {}  # the caller's containers (round 4), snapshotted together with the detector
            state["drift_buf"] = None  # container (key) that carried the batch of the last drift
        return state

    def alphabet(self, cfg, state, pos):
        evs = [{"op": "update", "b": i} for i in cfg.get("updates", range(5))]
        if state["nset"] < cfg.get("max_set_reference", 2):
            evs += [{"op": "set_reference", "b": i} for i in cfg.get("set_menu", (0, 2, 3))]
        return evs

    def key(self, cfg, state, pos):
        return (canon(state["det"]), state["model"].canon(), state["nset"], bufs_key(state), state.get("drift_buf"))

    def step(self, cfg, state, ev, pos, ctx):
        det = state["det"]
        pts = MENUS[cfg["menu"]][ev["b"]]
        bkey = None
        if cfg.get("reuse"):
            X, bkey = reused_container(cfg, state, ev["op"], pts, ctx, row=False)
            if state["model"].state == "drift" and state["drift_buf"] is not None and ev["op"] == "update":
                # the reference of this update must be the batch that drifted; the container that carried it ...
                if bkey != state["drift_buf"]:
                    ctx.count("reuse_update_after_drift_in_another_container")  # ... still holds it
                elif pts != [list(p) for p in state["model"].next_ref]:
                    ctx.mark("reuse_update_after_drift_in_the_same_container_other_values")  # ... holds other values by now
        elif "container" in cfg or "int_when_integral" in cfg:
            X = encode(cfg, pts, pos, ctx)
        else:
            X = np.array(pts, dtype=float)
        seed = rng.seed_step(ctx.seed, cfg["id"], pos)
        try:
            if ev["op"] == "update":
                det.update(X)
            else:
                det.set_reference(X)
                state["nset"] += 1
        except Exception as e:
            raise Violation("raises", "%s(batch %d) raised %r" % (ev["op"], ev["b"], e), observed=repr(e))
        if cfg.get("scribble"):
            scribble_after_call(cfg, state, bkey, pts, ctx, row=False)
            if det.drift_state == "drift":
                ctx.mark("scribbled_over_a_drifted_batch_before_the_reference_is_rebuilt")
            if ev["op"] == "set_reference":
                ctx.count("scribbled_over_a_set_reference_batch")
        obs = batch_obs(det)
        before = state["model"]
        adopting = before.R is None or before.state == "drift" or ev["op"] == "set_reference"
        rows, shape = observe_tree(det, full=cfg.get("full_df", False) or adopting or obs["state"] == "drift")
        what = "after %s(batch %d) at step %d" % (ev["op"], ev["b"], pos)
        try:
            model, exp, ok = lockstep(
                before,
                lambda m, D: getattr(m, ev["op"])(pts, D, shape, seed),
                lambda e: not diff_keys(e, obs),
                stats=ctx.stats,
            )
        except ShapeError as e:
            raise Violation("reference-tree:" + e.sub, "%s: %s" % (what, e.msg), expected=e.expected, observed=e.observed)
        state["model"] = model
        if not ok:
            bad = diff_keys(exp, obs)
            sub = "batch-decision" if bad == ["state"] else "batch-counters"
            raise Violation(
                sub,
                "%s: detector reports %r, specification %r (divergence %r, bound %r, reference size %d)"
                % (what, obs, exp, model.d, model.R.crit if model.R else None, model.R.tree.ref[""] if model.R else 0),
                expected=exp,
                observed=obs,
            )
        d_public = compare_tree(rows, model, what)
        sharpen(det, model, d_public, what)
        # coverage
        if obs["state"] == "drift":
            ctx.mark("drift_transitions")
        if model.d is not None:
            ctx.count("decisions_above" if obs["state"] == "drift" else "decisions_at_or_below")
        if model.epochs > before.epochs:
            check_leaves_full(model, what)
            ctx.count("reference_adoptions")
            if before.state == "drift":
                ctx.mark("drifted_batch_became_reference")
            elif ev["op"] == "update":
                ctx.count("first_update_doubles_as_reference")
            if model.epochs >= 3:
                ctx.count("third_or_later_reference")
        if ev["op"] == "set_reference":
            ctx.count("set_reference_events")
            if before.state == "drift":
                ctx.count("set_reference_while_in_drift")
            if state.get("last_op") == "set_reference":
                ctx.count("set_reference_twice_in_a_row")
        state["last_op"] = ev["op"]
        if cfg.get("reuse"):
            if obs["state"] == "drift":
                state["drift_buf"] = bkey
                ctx.count("reuse_drifts")
            else:
                state["drift_buf"] = None
        if model.epochs > before.epochs and before.R is not None:
            a, b = before.R.tree.ref[""], model.R.tree.ref[""]
            if max(a, b) >= 4 * min(a, b):
                ctx.count("reference_replaced_by_one_4x_larger_or_smaller")
        if model.epochs > before.epochs:
            if len(model.R.tree.leaves) == 1 and len(set(model.R.tree.points)) > 1:
                ctx.count("single_leaf_reference_trees")
            if cfg["alpha"] in (0, 1):
                ctx.count("bounds_at_alpha_%g" % cfg["alpha"])
            elif cfg["alpha"] * cfg["B"] <= 0.5:
                ctx.count("bounds_with_alpha_times_samples_at_most_half")
            if cfg["B"] <= 2:
                ctx.count("bounds_from_%d_bootstrap_samples" % cfg["B"])
        if isinstance(X, pd.DataFrame):
            ctx.count("dataframe_batches")
        if model.R is not None and len(model.R.tree.leaves) >= 4:
            ctx.count("steps_on_trees_with_4plus_leaves")
        if model.exact_tie:
            ctx.mark("divergence_exactly_at_bound" if model.d > 0 else "divergence_and_bound_both_zero")
        return obs


# --------------------------------------------------------------- streaming


class StreamSys(System):
    name = "KdqTreeStreaming"

    def init(self, cfg):
        kw = dict(
            window_size=cfg["w"], persistence=cfg["persistence"], alpha=cfg["alpha"],
            bootstrap_samples=cfg["B"], count_ubound=cfg["ub"],
        )
        state = {"det": KdqTreeStreaming(**kw), "model": KdqStreamModel(dim=cfg.get("dim", 1), **kw)}
        if cfg.get("reuse"):
            state["bufs"] = {}  # the caller's one-sample container (round 4), snapshotted together with the detector
        return state

    def alphabet(self, cfg, state, pos):
        return list(cfg["values"])

    def key(self, cfg, state, pos):
        return (canon(state["det"]), state["model"].canon(), bufs_key(state))

    def step(self, cfg, state, ev, pos, ctx):
        det = state["det"]
        if isinstance(ev, (list, tuple)):  # round 3: a row of cfg["dim"] features
            row = tuple(float(v) for v in ev)
            x = list(row)
        else:
            x = float(ev)
            row = (x,)
        seed = rng.seed_step(ctx.seed, cfg["id"], pos)
        if cfg.get("reuse"):
            if state["model"].R is None and state["model"].buf and state["model"].state != "drift":
                # a reference window is being collected: its earlier samples travelled in the same container
                if any(p != row for p in state["model"].buf):
                    ctx.mark("reuse_reference_window_sample_overwritten_in_callers_container")
            arr, skey = reused_container(cfg, state, "x", [list(row)], ctx, row=True)
        elif "container" in cfg or len(row) > 1:
            arr = encode(cfg, [list(row)], pos, ctx)
        else:
            arr = np.array([[x]])
            if cfg.get("int_when_integral") and x == int(x):
                # integer-typed samples interleaved with float ones: the same numbers in another container dtype
                arr = np.array([[int(x)]])
                ctx.count("integer_typed_samples")
        try:
            det.update(arr)
        except Exception as e:
            raise Violation("raises", "update(%r) raised %r" % (x, e), observed=repr(e))
        if cfg.get("scribble"):
            scribble_after_call(cfg, state, skey, [list(row)], ctx, row=True)
            m0 = state["model"]  # the model BEFORE this sample
            if m0.state == "drift" or m0.R is None:
                if (0 if m0.state == "drift" else len(m0.buf)) + 1 < cfg["w"]:
                    ctx.mark("scribbled_over_a_sample_of_an_incomplete_reference_window")
        obs = stream_obs(det)
        before = state["model"]
        adopting = before.R is None or before.state == "drift"
        rows, shape = observe_tree(det, full=cfg.get("full_df", False) or adopting or obs["state"] == "drift")
        what = "after sample %d (value %r)" % (pos + 1, x)
        try:
            model, exp, ok = lockstep(
                before,
                lambda m, D: m.step(row, D, shape, seed),
                lambda e: not diff_keys(e, obs),
                stats=ctx.stats,
            )
        except ShapeError as e:
            raise Violation("reference-tree:" + e.sub, "%s: %s" % (what, e.msg), expected=e.expected, observed=e.observed)
        state["model"] = model
        if model.inrow_matters:
            ctx.mark("decisions_depending_on_in_a_row")
        if not ok:
            bad = diff_keys(exp, obs)
            sub, sig = "stream-counters", None
            if bad == ["state"]:
                sub = "stream-decision"
                if model.inrow_matters and obs["state"] == "drift":
                    sub, sig = "persistence-in-a-row", SIG_PERSISTENCE
            raise Violation(
                sub,
                "%s: detector reports %r, specification %r; epoch trail (a = above the bound, b = at/below) %r, "
                "divergence %r, bound %r, samples in a row above the bound %d (ever above: %d), needs more than %r"
                % (what, obs, exp, model.trail, model.d, model.R.crit if model.R else None, model.run, model.cum,
                   model.persistence * model.w),
                expected=exp,
                observed=obs,
                sig=sig,
            )
        d_public = compare_tree(rows, model, what)
        sharpen(det, model, d_public, what)
        # coverage
        if obs["state"] == "drift":
            ctx.mark("drift_transitions")
            if model.epochs >= 2:
                ctx.count("drifts_in_second_or_later_epoch")
            if model.epochs >= 3:
                ctx.count("drifts_in_third_or_later_epoch")
        if model.R is not None and before.R is None:
            check_leaves_full(model, what)
            ctx.count("reference_windows_completed")
            if len(model.R.tree.leaves) == 1 and len(set(model.R.tree.points)) > 1:
                ctx.count("single_leaf_reference_trees")
            if cfg["alpha"] in (0, 1):
                ctx.count("bounds_at_alpha_%g" % cfg["alpha"])
            elif cfg["alpha"] * cfg["B"] <= 0.5:
                ctx.count("bounds_with_alpha_times_samples_at_most_half")
            if cfg["B"] <= 2:
                ctx.count("bounds_from_%d_bootstrap_samples" % cfg["B"])
            if len(row) > 1 and len({a for a, _ in model.R.tree.splits.values()}) > 1:
                ctx.count("reference_trees_splitting_both_features")
        if len(row) > 1:
            ctx.count("two_feature_samples")
            if obs["state"] == "drift":
                ctx.count("drifts_on_two_feature_streams")
        if cfg["w"] == 1:
            ctx.count("steps_with_window_size_1")
        if model.d is not None and model.R is not None and model.trail != before.trail:
            pw = model.persistence * model.w
            if pw >= model.w:
                ctx.count("evaluations_with_persistence_at_least_1")
            if pw > 0 and float(pw).is_integer() and model.run == pw:
                ctx.count("runs_exactly_at_an_integer_persistence_bound")
        if model.exact_tie:
            ctx.mark("divergence_exactly_at_bound" if model.d > 0 else "divergence_and_bound_both_zero")
        if model.trail.endswith("a") and "ab" in model.trail[:-1]:
            ctx.count("above_below_above_steps")
        if model.trail.endswith("b") and model.trail != before.trail:
            ctx.count("samples_at_or_below_bound")
        if model.trail.endswith("a") and model.trail != before.trail and obs["state"] is None:
            ctx.count("above_bound_but_not_yet_persistent")
        return obs


class MultiSys(System):
    """Several kdq-tree detectors alive in one process, called in an interleaved schedule (round 3).  Every member is
    judged by its own lock-step model exactly as when it runs alone; after every call the public observables of all the
    *other* members must be what they were (no state shared between detector objects)."""

    name = "KdqTreeInterleaved"

    def _members(self, cfg):
        out = []
        for i, m in enumerate(cfg["members"]):
            mc = dict(m)
            mc["id"] = "%s/m%d" % (cfg["id"], i)
            out.append((SYSTEMS[m["system"]], mc))
        return out

    def init(self, cfg):
        return {"members": [sysm.init(mc) for sysm, mc in self._members(cfg)], "last": [None] * len(cfg["members"])}

    def alphabet(self, cfg, state, pos):
        k = cfg["schedule"][pos % len(cfg["schedule"])]
        sysm, mc = self._members(cfg)[k]
        return [{"k": k, "ev": e} for e in sysm.alphabet(mc, state["members"][k], pos)]

    def key(self, cfg, state, pos):
        return tuple(sysm.key(mc, st, pos) for (sysm, mc), st in zip(self._members(cfg), state["members"]))

    def step(self, cfg, state, ev, pos, ctx):
        members = self._members(cfg)
        k = ev["k"]
        sysm, mc = members[k]
        obs = sysm.step(mc, state["members"][k], ev["ev"], pos, ctx)
        state["last"][k] = obs
        ctx.count("interleaved_calls")
        if sum(1 for o in state["last"] if o is not None) >= 3:
            ctx.count("interleaved_calls_with_3_detectors_in_use")
        for j, ((sj, mj), st) in enumerate(zip(members, state["members"])):
            if j == k or state["last"][j] is None:
                continue
            now = batch_obs(st["det"]) if sj.name == "KdqTreeBatch" else stream_obs(st["det"])
            if diff_keys(state["last"][j], now):
                raise Violation(
                    "cross-detector",
                    "a call on detector %d (%s) at step %d changed what detector %d (%s) reports: %r -> %r"
                    % (k, sysm.name, pos, j, sj.name, state["last"][j], now),
                    expected=state["last"][j],
                    observed=now,
                )
        return {"k": k, "obs": obs}


SYSTEMS = {"KdqTreeBatch": BatchSys(), "KdqTreeStreaming": StreamSys()}
SYSTEMS["KdqTreeInterleaved"] = MultiSys()


# ------------------------------------------------------------------- tasks

PERSISTENCE = (0, 0.3, 0.5, 1)
ALPHAS_STREAM = (0.3, 0.6)

# default histories of the deviation-bounded exploration (window_size 3 and 4):
# reference window, a matching test window, a shifted stretch (above the
# bound), a stretch that pulls the accumulated test counts back (at/below), a
# second shifted stretch; repeated so that several epochs fit into 30 samples.
DEFAULT = {
    3: [0, 1, 5, 0, 1, 5, 5, 5, 0, 1, 0, 1, 5, 5, 5, 5, 0, 1, 5, 1, 0, 5, 0, 0, 0, 1, 5, 1, 5, 5],
    4: [0, 1, 5, 5, 0, 1, 5, 5, 0, 0, 1, 5, 5, 5, 0, 0, 0, 0, 1, 5, 1, 0, 5, 5, 0, 0, 0, 5, 5, 1],
}


def _batch_cfgs(tier):
    out = []
    for menu in ("1d", "2d"):
        for ub in (1, 2):
            for alpha in (0.01, 0.3, 0.6):
                out.append((menu, ub, alpha, 10, 4 if tier == "quick" else 5))
    for menu in ("1d", "2d"):
        for alpha in (0.01, 0.3, 0.6):
            if tier == "quick" and alpha != 0.3:
                continue
            out.append((menu, 1, alpha, 40, 4))
    return out


def _round3_tasks(tier):
    """Round-3 families (EXTENDING.md): values, containers and parameter regions outside the round-1/2 alphabets."""
    q = tier == "quick"
    out = []

    def batch(cid, menu, depth, ub=1, alpha=0.3, B=10, updates=(0, 1, 2, 3, 4), set_menu=(0,), max_set=1, cost=1, **kw):
        cfg = {"id": "r3b-" + cid, "menu": menu, "ub": ub, "alpha": alpha, "B": B, "max_set_reference": max_set,
               "set_menu": list(set_menu), "updates": list(updates)}
        cfg.update(kw)
        firsts = [{"op": "update", "b": i} for i in updates] + [{"op": "set_reference", "b": i} for i in set_menu]
        for f in firsts:
            out.append({"system": "KdqTreeBatch", "cfg": cfg, "prefix": [f], "depth": depth - 1, "validate_every": 101,
                        "label": "KdqTreeBatch|%s|%s%d" % (cfg["id"], f["op"][0], f["b"]), "cost": cost})

    def stream(cid, w, values, depth, persistence=0, alpha=0.6, B=10, ub=1, cost=5, **kw):
        cfg = {"id": "r3s-" + cid, "w": w, "persistence": persistence, "alpha": alpha, "B": B, "ub": ub,
               "values": values}
        cfg.update(kw)
        for first in values:
            out.append({"system": "KdqTreeStreaming", "cfg": cfg, "prefix": [first], "depth": depth - 1,
                        "validate_every": 101, "label": "KdqTreeStreaming|%s|%s" % (cfg["id"], first), "cost": cost})
        return cfg

    d = 0 if q else 1  # thorough: one more event everywhere
    # --- batch ---------------------------------------------------------------------------------------------------
    # integer-typed batches mixed with float batches (generalises the mixed-dtype streaming family)
    batch("mixed-dtype", "1dmix", 4 + d, updates=(0, 1, 2, 3), set_menu=(1,), int_when_integral=True)
    # DataFrame batches (two features; all DataFrames / DataFrames alternating with arrays)
    batch("df-2d", "2d", 4 + d, updates=(0, 1, 2, 4), set_menu=(3,), container="df", alpha=0.6)
    batch("alt-2d", "2d", 3 + d, updates=(0, 1, 2, 4), set_menu=(3,), container="alt", ub=2)
    # batches of very different sizes: the bootstrap sample size follows the current reference
    batch("sizes", "sizes", 4 + d, set_menu=(1,), alpha=0.3, cost=2)
    # alpha 0 / 1 / alpha * bootstrap_samples <= 1/2; 1 and 2 bootstrap samples
    for alpha, B in ((0, 10), (1, 10), (0.04, 10), (0.05, 10), (0.3, 1), (0.5, 2), (0, 1), (1, 2)):
        batch("a%g-B%d" % (alpha, B), "1d", 3 + d, alpha=alpha, B=B, cost=0.3)
    # count_ubound so large that the tree is a single leaf: divergence identically 0
    batch("single-leaf-1d", "1d", 3 + d, ub=100, alpha=0.6, cost=0.3)
    batch("single-leaf-2d", "2d", 3 + d, ub=100, alpha=0.01, container="df", cost=0.3)
    # set_reference twice in a row, right after a drift, as first call, after an update without reference
    batch("set-ref", "1d", 4 + d, updates=(0, 2), set_menu=(0, 2, 3), max_set=3, alpha=0.6)
    # --- streaming ----------------------------------------------------------------------------------------------
    two = [[0, 0], [5, 0], [0, 5]]
    stream("2d-w2-p0", 2, two, 10 + d, dim=2)
    stream("2d-w2-p.5", 2, two, 10 + d, dim=2, persistence=0.5, alpha=0.3, full_df=True)
    stream("2d-df-w2", 2, two, 9 + d, dim=2, container="df", persistence=0.5)
    stream("2d-alt-w2", 2, [[0, 0], [5, 1], [1.5, 5]], 8 + d, dim=2, container="alt", int_when_integral=True)
    # window of three rows: the reference tree splits both features, a sample's leaf depends on its second feature
    stream("2d-w3", 3, [[0, 0], [5, 1], [1, 5]], 10 + d, dim=2, persistence=0.3, cost=8)
    stream("1d-df-w2", 2, [0, 1, 5], 9 + d, container="df", persistence=0.5)
    for w in (3,):
        cfg = {"id": "r3s-2d-w%d-dev" % w, "w": w, "persistence": 0.3, "alpha": 0.6, "B": 10, "ub": 1, "dim": 2,
               "values": [[0, 0], [1, 1], [5, 0], [0, 5]], "container": "df"}
        default = [[0, 0], [1, 1], [5, 0], [0, 0], [1, 1], [5, 0], [0, 5], [0, 5], [0, 0], [1, 1], [0, 0], [1, 1], [5, 0], [0, 5],
                   [0, 5], [0, 5], [0, 0], [1, 1], [5, 0], [1, 1], [0, 0], [5, 0], [0, 0], [0, 0]]
        out.append({"system": "KdqTreeStreaming", "cfg": cfg, "mode": "dev", "default": default, "menu": cfg["values"],
                    "k": 1 if q else 2, "validate_every": 53, "label": "KdqTreeStreaming|%s|dev" % cfg["id"], "cost": 20})
    # window_size 1 (the reference is one sample: a single leaf, divergence and bound identically 0)
    stream("w1-p0", 1, [0, 1, 5], 6 + d, cost=0.3)
    stream("w1-p1", 1, [0, 1, 5], 6 + d, persistence=1, alpha=0.3, cost=0.3)
    stream("w1-2d", 1, two, 5 + d, dim=2, container="alt", cost=0.3)
    # persistence >= 1 (more than window_size samples in a row) and exactly at an integer multiple
    stream("w2-p1.5", 2, [0, 1, 5], 11 + d, persistence=1.5, cost=8)
    stream("w3-p1", 3, [0, 5], 13 + d, persistence=1, alpha=0.3, cost=4)
    stream("w4-p.25", 4, [0, 5], 12 + d, persistence=0.25, cost=4)
    # alpha 0 / 1 / alpha * bootstrap_samples <= 1/2; 1 and 2 bootstrap samples
    for alpha, B in ((0, 10), (1, 10), (0.04, 10), (0.6, 1), (0.5, 2), (1, 1)):
        stream("w2-a%g-B%d" % (alpha, B), 2, [0, 1, 5], 9 + d, persistence=0.5, alpha=alpha, B=B, cost=1)
    # count_ubound so large that the tree is a single leaf
    stream("single-leaf", 3, [0, 1, 5], 8 + d, ub=100, cost=0.5)
    # --- several detectors alive in one process, interleaved call by call -----------------------------------------
    sA = {"system": "KdqTreeStreaming", "w": 2, "persistence": 0, "alpha": 0.6, "B": 10, "ub": 1, "values": [0, 5]}
    sB = {"system": "KdqTreeStreaming", "w": 2, "persistence": 0.5, "alpha": 0.3, "B": 10, "ub": 1, "values": [1, 5]}
    bC = {"system": "KdqTreeBatch", "menu": "1d", "ub": 1, "alpha": 0.3, "B": 10, "max_set_reference": 0, "updates": [0, 2]}
    bD = {"system": "KdqTreeBatch", "menu": "2d", "ub": 1, "alpha": 0.6, "B": 10, "max_set_reference": 1, "updates": [0, 2],
          "set_menu": [3], "container": "df"}
    for cid, members, schedule, depth in (
        ("ss", [sA, sB], [0, 1], 12 + d),
        ("sb", [sA, bC], [0, 1, 0], 10 + d),
        ("ssb", [sA, sB, bC], [0, 1, 2, 1, 0, 2], 11 + d),
        ("bb", [bC, bD], [0, 1], 7 + d),
    ):
        cfg = {"id": "r3m-" + cid, "members": members, "schedule": schedule}
        msys = SYSTEMS["KdqTreeInterleaved"]
        st0 = msys.init(cfg)
        for f in msys.alphabet(cfg, st0, 0):
            for g in msys.alphabet(cfg, st0, 1):  # the alphabets of these members do not depend on the state
                out.append({"system": "KdqTreeInterleaved", "cfg": cfg, "prefix": [f, g], "depth": depth - 2,
                            "validate_every": 101, "cost": 4,
                            "label": "KdqTreeInterleaved|%s|%s,%s" % (cfg["id"], f["ev"], g["ev"])})
    return out


REUSE_BATCH = [
    # id, menu, container, dtype, roles, alpha, count_ubound, depth (quick; thorough +1)
    ("eq1d-nd2", "eq1d", "nd2", "f8", "shared", 0.6, 1, 4),
    ("eq1d-nd2-sep", "eq1d", "nd2", "f8", "separate", 0.3, 1, 3),
    ("eq1d-nd1", "eq1d", "nd1", "f8", "shared", 1, 1, 3),
    ("eq1d-series", "eq1d", "series", "f8", "shared", 0.6, 2, 3),
    ("eq1d-df", "eq1d", "df", "f8", "shared", 0.3, 1, 3),
    ("eq1d-nd2-i8", "eq1d", "nd2", "i8", "shared", 0.6, 1, 3),
    ("eq2d-nd2", "eq2d", "nd2", "f8", "shared", 0.6, 1, 3),
    ("eq2d-df", "eq2d", "df", "f8", "shared", 0.3, 1, 4),
    ("eq2d-nd2-sep", "eq2d", "nd2", "f8", "separate", 1, 2, 3),
    ("eq2d-df-i8", "eq2d", "df", "i8", "separate", 0.6, 1, 3),
    # larger batches (48 rows, several points per leaf)
    ("big1d-nd1", "big1d", "nd1", "f8", "shared", 0.3, 8, 3),
    ("big2d-nd2", "big2d", "nd2", "f8", "shared", 0.6, 8, 3),
    ("big2d-df", "big2d", "df", "f8", "shared", 0.3, 8, 3),
]
REUSE_STREAM = [
    # id, container, dtype, window_size, persistence, alpha, values, depth (quick; thorough +1)
    ("nd2-w2", "nd2", "f8", 2, 0, 0.6, [0, 1, 5], 9),
    ("nd1-w2", "nd1", "f8", 2, 0.5, 0.3, [0, 1, 5], 9),
    ("series-w3", "series", "f8", 3, 0.3, 0.6, [0, 1, 5], 9),
    ("df-w2", "df", "f8", 2, 0.5, 0.6, [0, 1, 5], 8),
    ("nd2-i8-w3", "nd2", "i8", 3, 0, 0.6, [0, 1, 5], 8),
    ("nd2-w1", "nd2", "f8", 1, 0, 0.6, [0, 1, 5], 6),
    ("nd2-w4", "nd2", "f8", 4, 0.25, 0.6, [0, 5], 11),
    ("2d-nd2-w2", "nd2", "f8", 2, 0, 0.6, [[0, 0], [5, 0], [0, 5]], 8),
    ("2d-nd1-w3", "nd1", "f8", 3, 0.3, 0.6, [[0, 0], [5, 1], [1, 5]], 8),
    ("2d-series-w2", "series", "f8", 2, 0.5, 0.3, [[0, 0], [5, 0], [0, 5]], 8),
    ("2d-df-w3", "df", "f8", 3, 0, 0.6, [[0, 0], [5, 1], [1, 5]], 8),
]


def _round4_tasks(tier):
    """Round-4 family "the caller re-uses its containers": the harness keeps ONE container object per (role and)
    shape, refills it in place and passes the same object in every call of the history; oracle unchanged (the model
    sees the values).  Snapshots copy detector and containers together; paths are re-executed from scratch every 7th
    leaf, so that an alias that a deepcopy snapshot would cut (a numpy view) sends the task to the explorer's
    snapshot-free mode."""
    d = 0 if tier == "quick" else 1
    out = []
    for cid, menu, kind, dtype, roles, alpha, ub, depth in REUSE_BATCH:
        cfg = {"id": "r4b-reuse-" + cid, "menu": menu, "ub": ub, "alpha": alpha, "B": 10, "max_set_reference": 1,
               "set_menu": [0, 2], "updates": [0, 1, 2, 3, 4], "reuse": kind, "reuse_dtype": dtype, "roles": roles}
        big = menu.startswith("big")
        firsts = [{"op": "update", "b": i} for i in cfg["updates"]] + [{"op": "set_reference", "b": i} for i in cfg["set_menu"]]
        for f in firsts:
            out.append({"system": "KdqTreeBatch", "cfg": cfg, "prefix": [f], "depth": depth + d - 1, "validate_every": 7,
                        "label": "KdqTreeBatch|%s|%s%d" % (cfg["id"], f["op"][0], f["b"]),
                        "cost": (4 if big else 1) * 7 ** (depth - 3)})
    for cid, kind, dtype, w, p, alpha, values, depth in REUSE_STREAM:
        cfg = {"id": "r4s-reuse-" + cid, "w": w, "persistence": p, "alpha": alpha, "B": 10, "ub": 1, "values": values,
               "reuse": kind, "reuse_dtype": dtype}
        if isinstance(values[0], list):
            cfg["dim"] = len(values[0])
        for first in values:
            out.append({"system": "KdqTreeStreaming", "cfg": cfg, "prefix": [first], "depth": depth + d - 1,
                        "validate_every": 7, "label": "KdqTreeStreaming|%s|%s" % (cfg["id"], first), "cost": 5})
    return out


TWO = [[0, 0], [5, 0], [0, 5]]
TWO3 = [[0, 0], [5, 1], [1, 5]]
# round 4b.  "scribble": the caller overwrites the object it passed as soon as the call has returned (reversed rows,
# values + 100), whatever it passes next -- menus whose batches all differ in shape ("sizes", "1d", "2d") never pass the
# same container twice in the plain re-use family.  scribble False: the plain re-use family in the new container kinds.
SCRIBBLE_BATCH = [
    # id, menu, container, dtype, scribble, alpha, count_ubound, bootstrap_samples, depth (quick; thorough +1)
    ("scr-sizes-nd2", "sizes", "nd2", "f8", True, 0.3, 1, 10, 3),
    ("scr-1d-nd1", "1d", "nd1", "f8", True, 0.6, 1, 10, 3),
    ("scr-1d-series-i8", "1d", "series", "i8", True, 0.3, 2, 10, 3),
    ("scr-2d-df", "2d", "df", "f8", True, 0.6, 1, 10, 3),
    ("scr-2d-ndF", "2d", "ndF", "f8", True, 0.3, 1, 10, 3),
    ("scr-2d-ndview", "2d", "ndview", "f8", True, 0.6, 2, 10, 3),
    ("scr-2d-ndro", "2d", "ndro", "f8", True, 0.6, 1, 10, 3),
    ("scr-2d-dfmix", "2d", "dfmix", "f8", True, 0.6, 1, 10, 3),
    ("scr-eq2d-nd2-f4", "eq2d", "nd2", "f4", True, 0.6, 1, 10, 3),
    ("scr-big2d-nd2", "big2d", "nd2", "f8", True, 0.3, 8, 10, 3),
    # the detector's default count_ubound / alpha on 600-row batches
    ("scr-huge2d-nd2", "huge2d", "nd2", "f8", True, 0.01, 100, 100, 3),
    ("reuse-eq2d-ndF", "eq2d", "ndF", "f8", False, 0.6, 1, 10, 3),
    ("reuse-eq2d-ndview", "eq2d", "ndview", "f8", False, 0.3, 1, 10, 3),
    ("reuse-eq2d-ndro", "eq2d", "ndro", "f8", False, 0.6, 2, 10, 3),
    ("reuse-eq2d-dfmix", "eq2d", "dfmix", "f8", False, 0.3, 1, 10, 3),
    ("reuse-eq1d-nd2-f4", "eq1d", "nd2", "f4", False, 0.6, 1, 10, 3),
]
SCRIBBLE_STREAM = [
    # id, container, dtype, scribble, window_size, persistence, alpha, values, depth (quick; thorough +1)
    ("scr-nd2-w2", "nd2", "f8", True, 2, 0, 0.6, [0, 1, 5], 8),
    ("scr-nd1-w3", "nd1", "f8", True, 3, 0.3, 0.6, [0, 1, 5], 8),
    ("scr-series-i8-w2", "series", "i8", True, 2, 0.5, 0.3, [0, 1, 5], 7),
    ("scr-df-w3", "df", "f8", True, 3, 0, 0.6, [0, 1, 5], 7),
    ("scr-nd2-w1", "nd2", "f8", True, 1, 0, 0.6, [0, 1, 5], 6),
    ("scr-nd2-f4-w2", "nd2", "f4", True, 2, 0.5, 0.6, [0, 1, 5], 7),
    ("scr-2d-ndview-w2", "ndview", "f8", True, 2, 0, 0.6, TWO, 7),
    ("scr-2d-ndro-w2", "ndro", "f8", True, 2, 0.5, 0.6, TWO, 7),
    ("scr-2d-dfmix-w3", "dfmix", "f8", True, 3, 0.3, 0.6, TWO3, 7),
    ("scr-2d-dfidx-w2", "dfidx", "f8", True, 2, 0, 0.3, TWO, 7),
    ("reuse-2d-ndview-w3", "ndview", "f8", False, 3, 0, 0.6, TWO3, 7),
    ("reuse-2d-ndro-w2", "ndro", "f8", False, 2, 0.5, 0.6, TWO, 7),
    ("reuse-2d-dfmix-w2", "dfmix", "f8", False, 2, 0, 0.6, TWO, 7),
    ("reuse-nd2-f4-w3", "nd2", "f4", False, 3, 0.3, 0.6, [0, 1, 5], 7),
]


def _round4b_tasks(tier):
    """Round-4b families: (1) "the caller destroys what it passed" (scribble), (2) further container kinds for the
    re-use family (Fortran order, strided view, read-only, float32, DataFrames with a reversed index / mixed column
    dtypes), (3) 600-row batches with the detector's default count_ubound 100 / alpha 0.01.  Oracle unchanged."""
    d = 0 if tier == "quick" else 1
    out = []
    for cid, menu, kind, dtype, scr, alpha, ub, B, depth in SCRIBBLE_BATCH:
        cfg = {"id": "r4b-" + cid, "menu": menu, "ub": ub, "alpha": alpha, "B": B, "max_set_reference": 1,
               "set_menu": [0, 2], "updates": [0, 1, 2, 3, 4], "reuse": kind, "reuse_dtype": dtype, "roles": "shared",
               "scribble": scr}
        heavy = 6 if menu.startswith("huge") else 4 if menu.startswith("big") else 1
        if menu.startswith("huge"):  # ~0.1 s per step (600 rows, 100 bootstrap samples of 1200 draws): 4 events
            cfg["updates"], cfg["set_menu"] = [0, 1, 2], [2]
        firsts = [{"op": "update", "b": i} for i in cfg["updates"]] + [{"op": "set_reference", "b": i} for i in cfg["set_menu"]]
        for f in firsts:
            out.append({"system": "KdqTreeBatch", "cfg": cfg, "prefix": [f], "depth": depth + d - 1, "validate_every": 7,
                        "label": "KdqTreeBatch|%s|%s%d" % (cfg["id"], f["op"][0], f["b"]),
                        "cost": heavy * 7 ** (depth - 3)})
    for cid, kind, dtype, scr, w, p, alpha, values, depth in SCRIBBLE_STREAM:
        cfg = {"id": "r4s-" + cid, "w": w, "persistence": p, "alpha": alpha, "B": 10, "ub": 1, "values": values,
               "reuse": kind, "reuse_dtype": dtype, "scribble": scr}
        if isinstance(values[0], list):
            cfg["dim"] = len(values[0])
        for first in values:
            out.append({"system": "KdqTreeStreaming", "cfg": cfg, "prefix": [first], "depth": depth + d - 1,
                        "validate_every": 7, "label": "KdqTreeStreaming|%s|%s" % (cfg["id"], first), "cost": 5})
    return out


def tasks(tier, seed):
    out = _round3_tasks(tier) + _round4_tasks(tier) + _round4b_tasks(tier)
    # batch: one task per (configuration, first event)
    for menu, ub, alpha, B, depth in _batch_cfgs(tier):
        cfg = {"id": "b-%s-ub%d-a%g-B%d" % (menu, ub, alpha, B), "menu": menu, "ub": ub, "alpha": alpha, "B": B,
               "max_set_reference": 1 if tier == "quick" else 2, "set_menu": [0, 2, 3]}
        firsts = [{"op": "update", "b": i} for i in range(5)] + [{"op": "set_reference", "b": i} for i in (0, 2, 3)]
        for f in firsts:
            out.append({
                "system": "KdqTreeBatch", "cfg": cfg, "prefix": [f], "depth": depth - 1, "validate_every": 211,
                "label": "KdqTreeBatch|%s|%s%d" % (cfg["id"], f["op"][0], f["b"]),
                "cost": (4 if B == 40 else 1) * 8 ** (depth - 4),
            })
    # streaming, window_size 2: all sequences
    values = [0, 1, 5] if tier == "quick" else [0, 1, 2, 5]
    depth = 12 if tier == "quick" else 14
    for p in PERSISTENCE:
        for alpha in ALPHAS_STREAM:
            for B in (10,) if tier == "quick" else (10, 7):
                cfg = {"id": "s-w2-p%g-a%g-B%d" % (p, alpha, B), "w": 2, "persistence": p, "alpha": alpha, "B": B,
                       "ub": 1, "values": values, "full_df": True}
                for first in values:
                    out.append({
                        "system": "KdqTreeStreaming", "cfg": cfg, "prefix": [first], "depth": depth - 1,
                        "validate_every": 101,
                        "label": "KdqTreeStreaming|%s|%d" % (cfg["id"], first), "cost": 20,
                    })
    # streaming, window_size 2, mixed dtypes: integral values arrive as integer arrays, the others as floats
    mixed = [0, 1.5, 0.6, 5]  # 0.6 lies between the midpoints of (0, 1.5) and of its integer truncation (0, 1)
    for p in (0, 0.5):
        cfg = {"id": "s-w2-mixed-p%g" % p, "w": 2, "persistence": p, "alpha": 0.6, "B": 10, "ub": 1, "values": mixed,
               "full_df": True, "int_when_integral": True}
        for first in mixed:
            out.append({
                "system": "KdqTreeStreaming", "cfg": cfg, "prefix": [first], "depth": (9 if tier == "quick" else 11) - 1,
                "validate_every": 101, "label": "KdqTreeStreaming|%s|%s" % (cfg["id"], first), "cost": 10,
            })
    # streaming, window_size 3 and 4: default history with <= k deviations
    for w in (3, 4):
        for p in PERSISTENCE:
            for alpha in ALPHAS_STREAM:
                for ub in (1,) if tier == "quick" else (1, 2):
                    cfg = {"id": "s-w%d-p%g-a%g-ub%d" % (w, p, alpha, ub), "w": w, "persistence": p, "alpha": alpha,
                           "B": 10, "ub": ub, "values": values}
                    out.append({
                        "system": "KdqTreeStreaming", "cfg": cfg, "mode": "dev", "default": DEFAULT[w],
                        "menu": values, "k": 2, "validate_every": 53,
                        "label": "KdqTreeStreaming|%s|dev" % cfg["id"], "cost": 100,
                    })
    return out


REQUIRED = [
    "integer_typed_samples",
    "drift_transitions",
    "decisions_above",
    "decisions_at_or_below",
    "drifted_batch_became_reference",
    "first_update_doubles_as_reference",
    "third_or_later_reference",
    "set_reference_events",
    "set_reference_while_in_drift",
    "steps_on_trees_with_4plus_leaves",
    "exact_ties",
    "divergence_exactly_at_bound",
    "decisions_depending_on_in_a_row",
    "above_below_above_steps",
    "samples_at_or_below_bound",
    "above_bound_but_not_yet_persistent",
    "drifts_in_third_or_later_epoch",
    "reference_windows_completed",
    # round 4 / 4b (none of these depends on a random draw)
    "reuse_objects_overwritten_with_other_values",
    "scribbled_containers",
    "scribbled_over_a_set_reference_batch",
    "scribbled_over_a_sample_of_an_incomplete_reference_window",
    "reuse_arrays_not_c_contiguous_or_not_owning",
    "reuse_arrays_read_only",
]


def describe(tier):
    values = [0, 1, 5] if tier == "quick" else [0, 1, 2, 5]
    return {
        "rule": "KdqTreeBatch: every sequence of update(b)/set_reference(b) events of the stated length over a menu of "
        "5 batches (at most 1 (quick) / 2 (thorough) set_reference calls per history, set_reference batches {0,2,3}), per configuration; "
        "KdqTreeStreaming window_size 2: every value sequence of the stated length (DFS); window_size 3 and 4: the "
        "default 30-sample history with every choice of <= 2 positions replaced by every other value. Prefix sharing "
        "by deepcopy snapshots; states whose complete detector state (structural hash) and model state coincide at "
        "the same step are merged (transposition table; the RNG is re-seeded per step so merged states have equal "
        "futures). A history is non-trivial when it contains a drift or a decision that depends on the in-a-row reading",
        "bounds": {
            "batch_configs": [list(c) for c in _batch_cfgs(tier)],
            "batch_cfg_columns": ["menu", "count_ubound", "alpha", "bootstrap_samples", "depth"],
            "batch_menu_sizes": {k: [len(b) for b in v] for k, v in MENUS.items()},
            "stream_values": values,
            "stream_w2": {"depth": 12 if tier == "quick" else 14, "persistence": list(PERSISTENCE),
                          "alpha": list(ALPHAS_STREAM), "bootstrap_samples": [10] if tier == "quick" else [10, 7]},
            "stream_w3_w4": {"mode": "deviation-bounded", "L": 30, "k": 2, "persistence": list(PERSISTENCE),
                             "alpha": list(ALPHAS_STREAM), "bootstrap_samples": 10,
                             "count_ubound": [1] if tier == "quick" else [1, 2]},
        },
        "families_round3": "see _round3_tasks: mixed int/float dtypes, DataFrame / alternating containers, batch sizes "
        "2..16, alpha 0 / 1 / alpha*B <= 1/2, 1-2 bootstrap samples, single-leaf trees (count_ubound 100), "
        "set_reference runs, two-feature streams, window_size 1, persistence >= 1, interleaved detectors",
        "families_round4_reuse": {
            "what": "the caller keeps ONE container per (role and) shape, refills it in place and passes the same object "
            "in every call; containers are part of the explored state; every 7th maximal path re-executed from scratch",
            "batch": [list(r) for r in REUSE_BATCH],
            "batch_columns": ["id", "menu", "container", "dtype", "roles", "alpha", "count_ubound", "depth(quick)"],
            "stream": [list(r) for r in REUSE_STREAM],
            "stream_columns": ["id", "container", "dtype", "window_size", "persistence", "alpha", "values", "depth(quick)"],
        },
        "families_round4b": {
            "what": "scribble=true: the caller overwrites the object it passed (rows reversed, values + 100) as soon as "
            "the call has returned, whatever it passes next (menus whose batches all differ in shape included); "
            "scribble=false: plain re-use in further container kinds: ndF Fortran order, ndview strided view into a "
            "larger array, ndro read-only array, f4 float32, dfidx DataFrame with reversed index labels, dfmix DataFrame "
            "with int64 + float64 columns; huge2d: 600-row batches (events: update 0, 1, 2, set_reference 2) (>= 128 distinct values each) with the "
            "detector's default count_ubound 100, alpha 0.01, 100 bootstrap samples. set_reference menu "
            "{0, 2}, at most one set_reference per history; thorough: depth + 1",
            "batch": [list(r) for r in SCRIBBLE_BATCH],
            "batch_columns": ["id", "menu", "container", "dtype", "scribble", "alpha", "count_ubound", "bootstrap_samples", "depth(quick)"],
            "stream": [list(r) for r in SCRIBBLE_STREAM],
            "stream_columns": ["id", "container", "dtype", "scribble", "window_size", "persistence", "alpha", "values", "depth(quick)"],
        },
        "oracle_round4b": "at every reference adoption: a leaf of the reference tree holding more than count_ubound points, "
        "more than count_ubound distinct scalar values and a positive extent along the axis of its depth is a violation "
        "(reference-tree:oversized-leaf); before, any under-split shape read from the implementation was accepted",
        "explanation": "states = distinct (detector, model) states per task after transposition merging; "
        "traces_validated_against_impl = maximal executions not cut by merging; every transition compares "
        "drift_state and counters with the model, the public per-node counts with individually routed points, and "
        "(sharpening only) _critical_dist / _test_dist with the model's same-seed values",
        "assumptions": [
            "draw protocol (DESIGN §2.3): bootstrap_samples draws of np.random.choice(leaves, 2n, p=corrected reference "
            "distribution), first n vs last n, np.quantile(., 1-alpha, method='nearest'); n = reference size / window_size",
            "the shape of the reference tree (which nodes are leaves) is read from to_plotly_dataframe() and validated "
            "against what C08 fixes; split values are the exact midpoints (all inputs are small integers)",
            "KL > bound within relative 1e-9 is numerically undecidable and follows the implementation, except where "
            "both sides come from identical count vectors or are exactly zero (exact tie: no drift)",
            "the first update of a KdqTreeBatch without reference adopts that batch as reference and leaves "
            "batches_since_reset at 0 (DESIGN §2.5)",
            "a leaf may legitimately hold more than count_ubound points when it holds at most count_ubound distinct "
            "scalar values (over all features) or has no extent along the axis of its depth (implementation rules pinned "
            "by C08); everything else above count_ubound must be split (documented meaning of count_ubound)",
            "caller-owned containers: the model sees the values written into the container before the call, never the "
            "object; what the caller does to the object after the call must not matter",
            "statistical quality of the bootstrap bound is not decided, only that it is the stated quantile of the stated draws",
        ],
    }


TIME_BUDGET = {"quick": 2400, "thorough": 14400}
