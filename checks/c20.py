"""C20 — drift injectors change only the window and columns they are asked to change.

Explored (exhaustive input enumeration, DESIGN §4 C20): every injector of
menelaus.injection x {float ndarray, int ndarray, float / int / mixed-dtype /
string-label DataFrame} with 1-5 rows x 2-3 columns x EVERY window
0 <= from <= to <= n x every column (pair) / class (pair, incl. equal and
absent) / shift factor / probability vector / sample size.  The random answers
the injectors ask numpy for (``numpy.random.choice``, ``numpy.random.dirichlet``)
are owned by the harness: a stub records what it was asked (candidates,
weights) and the enumeration drives it through every possible answer (all +-1
walks, all index vectors of a resample for small windows, all ordered samples
of a group) — stateless depth-first search over the answer script.

Oracle: the plain-Python specification in models/injectors.py (container type,
shape, column labels, frame condition, documented effect inside the window,
swap twice = identity, label swap involution, weights handed to the generator,
input object bit-for-bit unchanged).

Histories ("<Injector>|hist|..." tasks): every ordered pair (thorough: also every
triple on the ndarray data set) of calls from a per-injector menu — containers and
data sets, windows of equal and different length, columns / classes, seeded and
unseeded calls, documented rejections — made by ONE injector object or by fresh
objects, all inside one execution, every call judged by the complete oracle.

Isolation: whatever menelaus.injection keeps at process level (class attributes,
module globals, mutable default arguments, function attributes, functools caches)
is put back to its imported value at the start of every execution, and numpy's
global generator is seeded before every call, so an execution is a function of its
event alone and every violation replays in a fresh process; state carried from one
call to the next is what the history families explore.

Every execution is one step of a one-step System (the event is the complete
call description, for a history including the earlier calls), so artefacts replay
generically with ``./check C20 --replay``.
"""
import copy
import itertools
import math
import sys
import time
import types
from contextlib import contextmanager

import numpy as np
import pandas as pd

from menelaus.injection import (
    BrownianNoiseInjector,
    FeatureCoverInjector,
    FeatureShiftInjector,
    FeatureSwapInjector,
    LabelDirichletInjector,
    LabelJoinInjector,
    LabelProbabilityInjector,
    LabelSwapInjector,
)

from mc.explorer import Ctx, HarnessError, System, Violation, artefact, jsonable, run_path, _same
from mc.canon import canon
from mc.rng import derive
from models import injectors as M

PROPERTY = "C20"

INJECTORS = {
    "FeatureSwapInjector": FeatureSwapInjector,
    "FeatureCoverInjector": FeatureCoverInjector,
    "FeatureShiftInjector": FeatureShiftInjector,
    "LabelSwapInjector": LabelSwapInjector,
    "LabelJoinInjector": LabelJoinInjector,
    "LabelProbabilityInjector": LabelProbabilityInjector,
    "LabelDirichletInjector": LabelDirichletInjector,
    "BrownianNoiseInjector": BrownianNoiseInjector,
}
CONTAINERS = ["nd_float", "nd_int", "df_float", "df_int", "df_mixed", "df_strlab"]
INT_CONTAINERS = ("nd_int", "df_int")

# ------------------------------------------------------------------ data sets
COEF = [-2, 0, 2, -1, 1]


def col_kinds(ct, k, lc):
    """'f' float, 'i' int, 's' str per column position."""
    if ct in ("nd_float", "df_float"):
        return ["f"] * k
    if ct in ("nd_int", "df_int"):
        return ["i"] * k
    others = ["f", "s"] if ct == "df_mixed" else ["f", "i"]
    kinds, q = [], 0
    for j in range(k):
        if j == lc:
            kinds.append("i" if ct == "df_mixed" else "s")
        else:
            kinds.append(others[q])
            q += 1
    return kinds


def cls_value(kind, token):
    if kind == "s":
        return "c%d" % token
    if kind == "f":
        return float(token)
    return int(token)


def feature_cell(q, i, kind, pat):
    if pat == 0:  # all rows distinct
        base = 10 * (q + 1) + i
        return {"i": base, "f": base + 0.5, "s": "s%d_%d" % (q, i)}[kind]
    base = COEF[i] * (q + 1)  # repeated values, zero means, negatives
    return {"i": base, "f": base * 0.5, "s": "uv"[i % 2]}[kind]


def col_labels(ct, k):
    if ct.startswith("nd"):
        return list(range(k))
    if ct == "df_int":
        return [2, 0, 1][:k]  # integer labels that are NOT the positions
    return ["a", "b", "c"][:k]


def build_data(spec):
    ct, n, k, lc, lab, pat = spec["ct"], spec["n"], spec["k"], spec["lc"], spec["lab"], spec["pat"]
    kinds = col_kinds(ct, k, lc)
    rows = []
    for i in range(n):
        r, q = [], 0
        for j in range(k):
            if j == lc:
                r.append(cls_value(kinds[j], lab[i]))
            else:
                r.append(feature_cell(q, i, kinds[j], pat))
                q += 1
        rows.append(r)
    labels = col_labels(ct, k)
    if ct == "nd_float":
        obj = np.array(rows, dtype=np.float64).reshape(n, k)
    elif ct == "nd_int":
        obj = np.array(rows, dtype=np.int64).reshape(n, k)
    else:
        obj = pd.DataFrame({labels[j]: [r[j] for r in rows] for j in range(k)}, columns=labels)
    return obj, rows, labels, kinds


def norm_cell(v):
    if isinstance(v, np.generic):
        v = v.item()
    return v


def to_rows(obj):
    if isinstance(obj, pd.DataFrame):
        arr = obj.to_numpy(dtype=object)
    else:
        arr = np.asarray(obj)
    if arr.ndim != 2:
        return None
    return [[norm_cell(v) for v in r] for r in arr.tolist()]


def _bits(v):
    v = norm_cell(v)
    if isinstance(v, float):
        return ("float", v.hex())
    return (type(v).__name__, repr(v))


def snapshot(obj):
    """Everything a caller can see of its own object, bit for bit."""
    if isinstance(obj, np.ndarray):
        return ("nd", obj.dtype.str, obj.shape, obj.strides, obj.tobytes())
    return (
        "df",
        obj.shape,
        tuple(_bits(c) for c in obj.columns.tolist()),
        tuple(_bits(i) for i in obj.index.tolist()),
        tuple(str(d) for d in obj.dtypes.tolist()),
        tuple(tuple(_bits(v) for v in r) for r in obj.to_numpy(dtype=object).tolist()),
    )


# ------------------------------------------------------------------ owned RNG
def vec_menu(m, w):
    """Small menu of index vectors (positions into the support) when m**w is too large."""
    menu = [
        [0] * w,
        [m - 1] * w,
        [i % m for i in range(w)],
        [(m - 1 - i) % m for i in range(w)],
        [(2 * i + 1) % m for i in range(w)],
    ]
    out = []
    for v in menu:
        if v not in out:
            out.append(v)
    return out


def perm_menu(n, w):
    menu = [list(range(w)), list(range(n - 1, n - 1 - w, -1)), [(2 * i + 1) % n for i in range(w)]]
    out = []
    for v in menu:
        if len(set(v)) == w and v not in out:
            out.append(v)
    return out


# Answers of numpy.random.dirichlet: exact dyadic vectors, a vector with a zero, and for 2 / 3 classes one
# REAL draw (numpy.random.seed(12); dirichlet([1, 1]) and seed(1); dirichlet([1, 1, 1])) whose components add
# up to 1 + 1 ulp in floating point, as happens for roughly every tenth real draw.
_FH = float.fromhex
DIRICHLET_MENU = {
    1: [[1.0]],
    2: [[0.5, 0.5], [0.25, 0.75], [1.0, 0.0], [_FH("0x1.c4c19956fd6e3p-4"), _FH("0x1.c767ccd520525p-1")]],
    3: [[0.5, 0.25, 0.25], [0.125, 0.125, 0.75], [0.0, 0.5, 0.5],
        [_FH("0x1.30a1ef03b4485p-2"), _FH("0x1.67a6c48ba0451p-1"), _FH("0x1.087e50b2dac0cp-14")]],
}


class OwnedRng:
    """Replacement of numpy.random.choice / dirichlet: records what it is asked and
    answers from a script of option numbers (missing entries = option 0).  ``trace``
    lists [chosen option, number of options] per choice point."""

    def __init__(self, answers, vec_cap, perm_cap, real=False, trace=None):
        self.real = real  # True: numpy's own generator is left in place (explicit random_state)
        self.answers = list(answers or [])
        self.vec_cap = vec_cap  # 0: one fixed answer vector per resample / Dirichlet draw (history families)
        self.perm_cap = perm_cap  # 0: one fixed ordered sample per group
        self.trace = [] if trace is None else trace  # shared by the calls of one history: one script per execution
        self.calls = []
        self.capped = 0

    def pick(self, dom):
        i = len(self.trace)
        c = self.answers[i] if i < len(self.answers) else 0
        if not (isinstance(c, int) and 0 <= c < dom):
            raise HarnessError(
                "HARNESS-NONDET: scripted RNG answer %r at choice point %d is outside its domain of %d options"
                % (c, i, dom)
            )
        self.trace.append([c, dom])
        return c

    def choice(self, a, size=None, replace=True, p=None):
        arr = np.arange(a) if isinstance(a, (int, np.integer)) else np.asarray(a)
        n = len(arr)
        pl = None if p is None else [float(x) for x in np.asarray(p, dtype=float).ravel()]
        call = {"fn": "choice", "a": [norm_cell(v) for v in arr.tolist()], "size": size,
                "replace": bool(replace), "p": pl, "pos": []}
        self.calls.append(call)
        support = list(range(n))
        if pl is not None and len(pl) == n:
            support = [i for i in range(n) if pl[i] > 0] or support
        if size is None:
            if n == 0:
                raise ValueError("'a' cannot be empty unless no samples are taken")
            pos = support[self.pick(len(support))]
            call["pos"] = [pos]
            return arr[pos]
        w = int(size)
        if w == 0:
            return arr[np.zeros(0, dtype=np.intp)]
        if n == 0:
            raise ValueError("'a' cannot be empty unless no samples are taken")
        if replace:
            m = len(support)
            if m ** w <= self.vec_cap:
                pos = [support[self.pick(m)] for _ in range(w)]
            else:
                self.capped += 1
                menu = vec_menu(m, w) if self.vec_cap else [[i % m for i in range(w)]]
                pos = [support[q] for q in menu[self.pick(len(menu))]]
        else:
            if w > n:
                raise ValueError("Cannot take a larger sample than population when 'replace=False'")
            if math.perm(n, w) <= self.perm_cap:
                rest = list(range(n))
                pos = [rest.pop(self.pick(len(rest))) for _ in range(w)]
            else:
                self.capped += 1
                menu = perm_menu(n, w) if self.perm_cap else perm_menu(n, w)[-1:]
                pos = menu[self.pick(len(menu))]
        call["pos"] = pos
        return arr[np.asarray(pos, dtype=np.intp)]

    def dirichlet(self, alpha, size=None):
        al = [float(x) for x in np.asarray(alpha, dtype=float).ravel()]
        menu = DIRICHLET_MENU.get(len(al)) or [[1.0 / len(al)] * len(al)]
        if not self.vec_cap:
            menu = menu[1:2] or menu  # history families: one answer with unequal components
        v = menu[self.pick(len(menu))]
        self.calls.append({"fn": "dirichlet", "alpha": al, "ret": list(v)})
        return np.array(v, dtype=float)


GLOBAL_SEED = [derive(0, "C20", "global-state")]


@contextmanager
def owned_rng(rng):
    """numpy.random.choice / dirichlet answered by ``rng``; numpy's global generator is put into the same state
    (a function of VERIF_SEED only, BUILDING.md "own randomness") before and after every call into menelaus, so
    nothing an injector does to it (numpy.random.seed(random_state)) or draws from it directly reaches another call."""
    saved = (np.random.choice, np.random.dirichlet)
    np.random.seed(GLOBAL_SEED[0])
    if not rng.real:
        np.random.choice = rng.choice
        np.random.dirichlet = rng.dirichlet
    try:
        yield
    finally:
        np.random.choice, np.random.dirichlet = saved
        np.random.seed(GLOBAL_SEED[0])


# ------------------------------------------------------------------ process-level state of the code under test
_PLAIN = (int, float, complex, str, bytes, bool, type(None))
_CODE_TYPES = (types.FunctionType, types.BuiltinFunctionType, types.MethodType, types.ModuleType, type,
               staticmethod, classmethod, property)


def _functions_of(owner):
    for name, v in list(vars(owner).items()):
        if isinstance(v, (staticmethod, classmethod)):
            v = v.__func__
        elif isinstance(v, property):
            v = v.fget
        if isinstance(v, types.FunctionType) and (v.__module__ or "").startswith("menelaus.injection"):
            yield v
        elif callable(getattr(v, "cache_clear", None)):  # functools.lru_cache / functools.cache wrappers
            yield v


class ProcessState:
    """Everything the modules of menelaus.injection keep at process level — module globals, class attributes,
    mutable default arguments, function attributes, functools caches — as it was right after import.

    An execution of this check is meant to be a function of its event alone (that is what makes a violation
    replayable in another process).  Code under test that remembers something outside the injector object
    (a class-level cache, a module-level counter, a mutable default argument) breaks that: what an execution sees
    would depend on which executions the worker process happened to run before.  ``restore()`` is therefore called
    at the start of every execution and puts that state back to its imported value; the behaviour *across calls*
    is explored deliberately by the history families, where all calls of a history run inside one execution."""

    def __init__(self):
        mods = [m for n, m in sorted(sys.modules.items())
                if (n == "menelaus.injection" or n.startswith("menelaus.injection.")) and m is not None]
        owners = list(mods)
        for m in mods:
            for v in vars(m).values():
                if isinstance(v, type) and (v.__module__ or "").startswith("menelaus.injection") and v not in owners:
                    owners.append(v)
        self.owners = []
        for o in owners:
            shallow = dict(vars(o))
            data = {}
            for name, v in shallow.items():
                if name.startswith("__") or name.startswith("_abc_") or isinstance(v, _CODE_TYPES):
                    continue
                if callable(getattr(v, "cache_clear", None)):
                    continue
                try:
                    data[name] = (copy.deepcopy(v), canon(v))
                except Exception:  # noqa: BLE001 - something that cannot be copied is left alone
                    pass
            self.owners.append((o, shallow, data))
        self.functions = []
        seen = set()
        for o in owners:
            for fn in _functions_of(o):
                if id(fn) in seen:
                    continue
                seen.add(id(fn))
                if isinstance(fn, types.FunctionType):
                    try:
                        rec = {"fn": fn, "attrs": copy.deepcopy(dict(fn.__dict__))}
                        for slot in ("__defaults__", "__kwdefaults__"):
                            v = getattr(fn, slot)
                            vals = list(v.values()) if isinstance(v, dict) else list(v or ())
                            rec[slot] = {"live": v, "copy": copy.deepcopy(v), "canon": canon(v),
                                         "plain": all(isinstance(x, _PLAIN) for x in vals)}
                        self.functions.append(rec)
                    except Exception:  # noqa: BLE001
                        pass
                else:
                    self.functions.append({"fn": fn, "cache": True})

    def restore(self):
        """-> number of items that had to be put back."""
        n = 0
        for o, shallow, data in self.owners:
            cur = vars(o)
            if len(cur) != len(shallow) or any(k not in shallow for k in cur):
                for k in [k for k in cur if k not in shallow]:
                    try:
                        delattr(o, k)
                        n += 1
                    except Exception:  # noqa: BLE001
                        pass
            for k, v in shallow.items():
                c = cur.get(k, _CODE_TYPES)
                if k in data:
                    try:
                        same = canon(c) == data[k][1]
                    except Exception:  # noqa: BLE001
                        same = False
                    if not same:
                        setattr(o, k, copy.deepcopy(data[k][0]))
                        n += 1
                elif c is not v and not (k.startswith("__") or k.startswith("_abc_")):
                    try:
                        setattr(o, k, v)
                        n += 1
                    except Exception:  # noqa: BLE001
                        pass
        for rec in self.functions:
            fn = rec["fn"]
            if rec.get("cache"):
                try:
                    if fn.cache_info().currsize:
                        fn.cache_clear()
                        n += 1
                except Exception:  # noqa: BLE001
                    pass
                continue
            for slot in ("__defaults__", "__kwdefaults__"):
                r = rec[slot]
                v = getattr(fn, slot)
                if v is r["live"] and r["plain"]:
                    continue  # the very same tuple / dict of immutable values
                try:
                    same = canon(v) == r["canon"]
                except Exception:  # noqa: BLE001
                    same = False
                if not same:
                    setattr(fn, slot, copy.deepcopy(r["copy"]))
                    r["live"] = getattr(fn, slot)
                    n += 1
            if fn.__dict__ or rec["attrs"]:
                try:
                    same = canon(dict(fn.__dict__)) == canon(rec["attrs"])
                except Exception:  # noqa: BLE001
                    same = False
                if not same:
                    fn.__dict__.clear()
                    fn.__dict__.update(copy.deepcopy(rec["attrs"]))
                    n += 1
        return n


PROCESS_STATE = ProcessState()


# ------------------------------------------------------------------ the system
def prime_data(ct):
    """Fresh small data set of the OTHER container type."""
    if ct.startswith("nd"):
        return pd.DataFrame({"p": [0.0, 1.0], "q": [1.0, 2.0]}), ("p", "q")
    return np.array([[0.0, 1.0], [1.0, 2.0]]), (0, 1)


def window_kind(f, t, n):
    if f == t:
        return "empty"
    if f == 0 and t == n:
        return "full"
    return "interior"


class InjectorSystem(System):
    """One event = one complete injector call (data spec, window, arguments, RNG script)."""

    def __init__(self, name):
        self.name = name
        self.cls = INJECTORS[name]
        self.cache = {}
        self.last_trace = []
        self.last_capped = 0
        self.last_request = {}
        self.caps = (27, 24)

    def init(self, cfg):
        return {}

    def alphabet(self, cfg, state, pos):
        return []

    # -- data (cached; validated bit-for-bit after every use, dropped on any difference)
    def data(self, spec):
        key = (spec["ct"], spec["n"], spec["k"], spec["lc"], tuple(spec["lab"]), spec["pat"])
        ent = self.cache.get(key)
        if ent is None:
            obj, rows, labels, kinds = build_data(spec)
            ent = (obj, rows, labels, kinds, snapshot(obj))
            if len(self.cache) > 4000:
                self.cache.clear()
            self.cache[key] = ent
        return ent

    def prime(self, inj, ct, labels=None):
        """Use the same injector instance on the OTHER container type first
        (Injector._columns is remembered between calls); for DataFrame targets also on a frame that carries the
        same column labels at other positions (anything remembered per label must not survive the call)."""
        if labels is not None and not ct.startswith("nd") and len(labels) >= 2:
            k = len(labels)
            rev = pd.DataFrame(np.array([[0.0] * k, [1.0] * k]), columns=list(reversed(list(labels))))  # classes 0 and 1 in every column
            self._prime_call(inj, rev, labels[0], labels[1])
        other, (c0, c1) = prime_data(ct)
        self._prime_call(inj, other, c0, c1)

    def _prime_call(self, inj, other, c0, c1):
        n = self.name
        try:
            with owned_rng(OwnedRng([], 1, 1)):
                if n == "FeatureSwapInjector":
                    inj(other, 0, 1, c0, c1)
                elif n == "FeatureShiftInjector":
                    inj(other, 0, 1, c0, 0.5)
                elif n == "FeatureCoverInjector":
                    inj(other, c0, 2, random_state=0)
                elif n == "LabelSwapInjector":
                    inj(other, 0, 2, c0, 0, 1)
                elif n == "LabelJoinInjector":
                    inj(other, 0, 2, c0, 0, 1, 2)
                elif n == "LabelProbabilityInjector":
                    inj(other, 0, 2, c0, {0: 0.5})
                elif n == "BrownianNoiseInjector":
                    inj(other, 0, 1, c0, 0, random_state=0)
        except HarnessError:
            raise
        except Exception as e:  # noqa: BLE001
            raise Violation("unexpected-exception",
                            "%s: a plain call on a 2x2 %s (before the call under test) raised %s: %s"
                            % (n, type(other).__name__, type(e).__name__, e),
                            expected="a result", observed="%s: %s" % (type(e).__name__, e),
                            sig="exception:%s:%s:priming-call" % (n, type(e).__name__))

    # -- binding of the event's arguments to a real call
    def bind(self, inj, ev, labels, kinds):
        a = ev["args"]
        f, t = ev["f"], ev["t"]
        lc = ev["data"]["lc"]
        n = self.name
        cv = lambda tok: cls_value(kinds[lc], tok)
        if n == "FeatureSwapInjector":
            return lambda d: inj(d, f, t, labels[a["c1"]], labels[a["c2"]])
        if n == "FeatureShiftInjector":
            if a.get("alpha") is None:
                return lambda d: inj(d, f, t, labels[a["col"]], a["sf"])
            return lambda d: inj(d, f, t, labels[a["col"]], a["sf"], alpha=a["alpha"])
        if n == "FeatureCoverInjector":
            return lambda d: inj(d, labels[a["col"]], a["ss"], random_state=a.get("rs"))
        if n == "LabelSwapInjector":
            return lambda d: inj(d, f, t, labels[lc], cv(a["a"]), cv(a["b"]))
        if n == "LabelJoinInjector":
            return lambda d: inj(d, f, t, labels[lc], cv(a["a"]), cv(a["b"]), cv(a["new"]))
        if n == "LabelProbabilityInjector":
            def call_prob(d):
                self.last_request = req = {cv(k): v for k, v in a["probs"]}
                return inj(d, f, t, labels[lc], req)
            return call_prob
        if n == "LabelDirichletInjector":
            return lambda d: inj(d, f, t, labels[lc], {cv(k): v for k, v in a["alpha"]})
        if n == "BrownianNoiseInjector":
            return lambda d: inj(d, f, t, labels[a["col"]], a["x0"], random_state=a.get("rs"))
        raise HarnessError("unknown injector " + n)

    def run_call(self, call, obj, rng):
        """-> (result, exception).  HarnessErrors pass through."""
        with owned_rng(rng):
            try:
                return call(obj), None
            except HarnessError:
                raise
            except Exception as e:  # noqa: BLE001 - classified by the oracle
                return None, e

    # -- the step: one execution = one call, or one history of calls (ev["hist"] = the earlier calls, in order)
    def step(self, cfg, state, ev, pos, ctx):
        GLOBAL_SEED[0] = derive(ctx.seed, "C20", "global-state")
        if PROCESS_STATE.restore():
            ctx.count("note_process_level_state_put_back")  # the code under test keeps something outside its objects
        trace = []
        self.last_trace = trace
        self.last_capped = 0
        hist = ev.get("hist") or []
        if not hist:
            obs = self.one_call(ev, ev, self.cls(), ctx, trace, "")
            obs["rng_trace"] = trace
            return obs
        calls = list(hist) + [ev]
        ctx.count("hist_executions")
        ctx.count("hist_fresh_objects" if ev.get("fresh") else "hist_same_object")
        ctx.count("hist_depth_%d" % len(calls))
        self.count_history(ev, calls, ctx)
        inj, seen = None, []
        for i, c in enumerate(calls):
            if inj is None or ev.get("fresh"):
                inj = self.cls()
            o = self.one_call(c, ev, inj, ctx, trace, "call %d of %d in a history on %s: " % (
                i + 1, len(calls), "fresh injector objects" if ev.get("fresh") else "one injector object"))
            if i and o["outcome"] == "ok" and seen[-1]["outcome"] != "ok":
                ctx.count("hist_call_after_rejected_call")
            seen.append(o)
        obs = seen[-1]
        obs["hist"] = seen[:-1]
        obs["rng_trace"] = trace
        return obs

    def count_history(self, ev, calls, ctx):
        cts = {c["data"]["ct"] for c in calls}
        if len(cts) > 1:
            ctx.count("hist_containers_mixed")
        core = [(c["data"], c["f"], c["t"], c["args"]) for c in calls]
        if any(a == b for a, b in zip(core, core[1:])):
            ctx.count("hist_identical_consecutive_calls")
        if self.name in ("BrownianNoiseInjector", "FeatureCoverInjector"):
            keys = [(c["t"] - c["f"] if self.name == "BrownianNoiseInjector" else None, c["args"].get("rs")) for c in calls]
            seeded = [k for k in keys if k[1] is not None]
            if len(seeded) != len(set(seeded)):
                ctx.count("hist_seed_repeated" + ("_same_length" if self.name == "BrownianNoiseInjector" else ""))
            if seeded and len(seeded) < len(keys):
                ctx.count("hist_seeded_and_unseeded_calls")

    def one_call(self, ev, top, inj, ctx, trace, where):
        """One injector call with the complete oracle.  ``top`` = the event of the execution (caps, script)."""
        spec = ev["data"]
        ct, n, k, lc = spec["ct"], spec["n"], spec["k"], spec["lc"]
        f, t = ev["f"], ev["t"]
        obj, rows, labels, kinds, snap = self.data(spec)
        if ev.get("prime"):
            self.prime(inj, ct, labels)
            ctx.count("primed_calls")
        real = ev["args"].get("rs") is not None
        caps = tuple(top.get("caps") or self.caps)
        rng = OwnedRng(top.get("rng"), *caps, real=real, trace=trace)
        t0 = len(trace)
        call = self.bind(inj, ev, labels, kinds)
        out, exc = self.run_call(call, obj, rng)
        self.last_capped += rng.capped
        if self.name == "LabelProbabilityInjector" and list(self.last_request.items()) != [
                (cls_value(kinds[lc], k_), v_) for k_, v_ in ev["args"]["probs"]]:
            ctx.count("note_c15_class_probabilities_dict_written")  # C15's business, only counted here
        wk = window_kind(f, t, n) if self.name != "FeatureCoverInjector" else "none"
        desc = "%s%s on %s %dx%d window [%d,%d) args %r" % (where, self.name, ct, n, k, f, t, ev["args"])

        # the caller's object is untouched, whatever happened
        if snapshot(obj) != snap:
            self.cache.clear()
            raise Violation("input-mutated", "%s: the input object was modified" % desc,
                            expected=rows, observed=to_rows(obj))

        ctx.count("injector_" + self.name)
        ctx.count("container_" + ct)
        if wk != "none":
            ctx.count("windows_" + wk)
        if len(trace) > t0:
            ctx.count("rng_answers_enumerated")
            ctx.count("rng_choice_points", len(trace) - t0)

        obs = {"outcome": "ok"}
        if exc is not None:
            obs["outcome"] = "raised %s" % type(exc).__name__
            if self.allowed_rejection(ev, rows, exc, ctx):
                ctx.mark("documented_rejections")
                return obs
            raise Violation(
                "unexpected-exception",
                "%s raised %s: %s" % (desc, type(exc).__name__, exc),
                expected="a result",
                observed="%s: %s" % (type(exc).__name__, exc),
                sig=self.exception_sig(ev, exc),
            )

        # container type, shape, labels
        want_df = ct.startswith("df")
        if want_df != isinstance(out, pd.DataFrame) or (not want_df and type(out) is not np.ndarray):
            raise Violation("container-type", "%s returned a %s" % (desc, type(out).__name__),
                            expected=type(obj).__name__, observed=type(out).__name__)
        orows = to_rows(out)
        cover = self.name == "FeatureCoverInjector"
        exp_labels = [l for j, l in enumerate(labels) if not (cover and j == ev["args"]["col"])]
        if orows is None or (not cover and tuple(out.shape) != (n, k)) or (cover and out.shape[1] != k - 1):
            raise Violation("shape", "%s returned shape %r" % (desc, tuple(out.shape)),
                            expected=[n, k - 1 if cover else k], observed=list(out.shape))
        if want_df:
            got = [norm_cell(c) for c in out.columns]
            if len(got) != len(exp_labels) or any(not M.same_cell(x, y) for x, y in zip(got, exp_labels)):
                raise Violation("column-labels", "%s returned columns %r" % (desc, got),
                                expected=exp_labels, observed=got)
        obs["out"] = orows

        getattr(self, "oracle_" + self.name)(ev, ctx, desc, obj, rows, out, orows, call, rng, kinds)
        if cover or not M.same_rows(rows, orows):
            ctx.mark("effect_visible")
        return obs

    def exception_sig(self, ev, exc):
        f, t = ev["f"], ev["t"]
        if isinstance(exc, ValueError) and "exceed 1" in str(exc) and self.name == "LabelDirichletInjector":
            return "exception:LabelDirichletInjector:ValueError:draw-sums-to-1-plus-rounding"
        return "exception:%s:%s:%s-window" % (self.name, type(exc).__name__, "empty" if f == t else "nonempty")

    # -- rejections the documentation announces (never required, only tolerated)
    def allowed_rejection(self, ev, rows, exc, ctx):
        a = ev["args"]
        lc = ev["data"]["lc"]
        if self.name == "LabelProbabilityInjector" and isinstance(exc, ValueError):
            toks = [k for k, _ in a["probs"]]
            have = set(ev["data"]["lab"])
            if math.fsum(v for _, v in a["probs"]) > 1.0 or any(k not in have for k in toks):
                return True
        if self.name == "LabelDirichletInjector" and isinstance(exc, ValueError):
            have = set(ev["data"]["lab"])
            if any(k not in have for k, _ in a["alpha"]):
                return True
        if self.name == "FeatureCoverInjector" and isinstance(exc, ValueError):
            keys, members = M.groups_of(rows, a["col"])
            if min(len(m) for m in members) < a["ss"] // len(keys):
                ctx.count("cover_oversample_rejected")
                return True
        return False

    # -- helpers
    def frame_and_effect(self, desc, rows, orows, exp, f, t, cols, sub):
        outside, _ = M.split_frame_effect(rows, orows, f, t, cols)
        if outside:
            i, j, x, y = outside[0]
            raise Violation(
                "frame",
                "%s: cell (%d,%d) outside the window / targeted columns changed from %r to %r" % (desc, i, j, x, y),
                expected=rows, observed=orows)
        bad = M.diff_cells(exp, orows)
        if bad:
            i, j, x, y = bad[0]
            raise Violation(sub, "%s: cell (%d,%d) is %r, documented effect gives %r" % (desc, i, j, y, x),
                            expected=exp, observed=orows)

    def again(self, desc, call, out, rows, sub, ctx):
        """Apply the same call to its own result: must restore the input."""
        out2, exc = self.run_call(call, out, OwnedRng([], *self.caps))
        if exc is not None:
            raise Violation(sub, "%s: second application raised %s: %s" % (desc, type(exc).__name__, exc),
                            expected=rows, observed="%s: %s" % (type(exc).__name__, exc))
        r2 = to_rows(out2)
        if type(out2) is not type(out) or r2 is None or not M.same_rows(rows, r2):
            raise Violation(sub, "%s: applying the injector twice does not restore the input" % desc,
                            expected=rows, observed=r2)
        ctx.count(sub + "_checked")

    # -- oracles
    def oracle_FeatureSwapInjector(self, ev, ctx, desc, obj, rows, out, orows, call, rng, kinds):
        a, f, t = ev["args"], ev["f"], ev["t"]
        exp = M.expect_feature_swap(rows, f, t, a["c1"], a["c2"])
        self.frame_and_effect(desc, rows, orows, exp, f, t, {a["c1"], a["c2"]}, "effect-FeatureSwapInjector")
        self.again(desc, call, out, rows, "twice-restores", ctx)
        if a["c1"] == a["c2"]:
            ctx.count("equal_column_pairs")

    def oracle_LabelSwapInjector(self, ev, ctx, desc, obj, rows, out, orows, call, rng, kinds):
        a, f, t, lc = ev["args"], ev["f"], ev["t"], ev["data"]["lc"]
        ca, cb = cls_value(kinds[lc], a["a"]), cls_value(kinds[lc], a["b"])
        exp = M.expect_label_swap(rows, f, t, lc, ca, cb)
        self.frame_and_effect(desc, rows, orows, exp, f, t, {lc}, "effect-LabelSwapInjector")
        self.again(desc, call, out, rows, "involution", ctx)
        self.count_classes(ctx, rows, f, t, lc, [ca, cb], a["a"] == a["b"])

    def oracle_LabelJoinInjector(self, ev, ctx, desc, obj, rows, out, orows, call, rng, kinds):
        a, f, t, lc = ev["args"], ev["f"], ev["t"], ev["data"]["lc"]
        ca, cb, cn = (cls_value(kinds[lc], a[x]) for x in ("a", "b", "new"))
        exp = M.expect_label_join(rows, f, t, lc, ca, cb, cn)
        self.frame_and_effect(desc, rows, orows, exp, f, t, {lc}, "effect-LabelJoinInjector")
        self.count_classes(ctx, rows, f, t, lc, [ca, cb], a["a"] == a["b"])

    def count_classes(self, ctx, rows, f, t, lc, classes, equal):
        wc = M.window_classes(rows, f, t, lc)
        if any(not any(M.same_cell(c, w) for w in wc) for c in classes):
            ctx.count("absent_class_cases")
        if equal:
            ctx.count("equal_class_pairs")

    def oracle_FeatureShiftInjector(self, ev, ctx, desc, obj, rows, out, orows, call, rng, kinds):
        a, f, t = ev["args"], ev["f"], ev["t"]
        c = a["col"]
        alpha = 0.001 if a.get("alpha") is None else a["alpha"]
        exp, delta = M.expect_shift(rows, f, t, c, a["sf"], alpha)
        outside, _ = M.split_frame_effect(rows, orows, f, t, {c})
        if outside:
            i, j, x, y = outside[0]
            raise Violation("frame", "%s: cell (%d,%d) outside the window / shifted column changed from %r to %r"
                            % (desc, i, j, x, y), expected=rows, observed=orows)
        for i in range(f, t):
            y = orows[i][c]
            if isinstance(y, (str, bool)) or not isinstance(y, (int, float)) or not M.close(y, exp[i][c]):
                trunc = (
                    ev["data"]["ct"] in INT_CONTAINERS
                    and all(isinstance(orows[r][c], int) and orows[r][c] == math.trunc(exp[r][c]) for r in range(f, t))
                )
                raise Violation(
                    "effect-FeatureShiftInjector",
                    "%s: cell (%d,%d) is %r, expected %r = %r + shift_factor*(alpha + window mean) = %r + %r%s"
                    % (desc, i, c, y, float(exp[i][c]), rows[i][c], rows[i][c], float(delta),
                       " (integer data: the shift was truncated)" if trunc else ""),
                    expected=[[float(v) if not isinstance(v, (str, int, float)) else v for v in r] for r in exp],
                    observed=orows,
                    sig="effect-FeatureShiftInjector" + (":integer-truncation" if trunc else ""))
        if delta is not None and delta != 0:
            ctx.count("shift_nonzero")
        if delta is not None and delta == int(delta):
            ctx.count("shift_integral_delta")

    def oracle_BrownianNoiseInjector(self, ev, ctx, desc, obj, rows, out, orows, call, rng, kinds):
        a, f, t = ev["args"], ev["f"], ev["t"]
        c = a["col"]
        outside, _ = M.split_frame_effect(rows, orows, f, t, {c})
        if outside:
            i, j, x, y = outside[0]
            raise Violation("frame", "%s: cell (%d,%d) outside the window / noisy column changed from %r to %r"
                            % (desc, i, j, x, y), expected=rows, observed=orows)
        err, ups, downs = M.check_walk([rows[i][c] for i in range(f, t)], [orows[i][c] for i in range(f, t)], a["x0"])
        if err:
            trunc = False
            if ev["data"]["ct"] in INT_CONTAINERS and a.get("rs") is None:
                signs = [cl["a"][cl["pos"][0]] for cl in rng.calls if cl["fn"] == "choice" and cl["pos"]]
                if len(signs) == max(0, t - f - 1):
                    w = [float(a["x0"])]
                    for s in signs:
                        w.append(w[-1] + s / math.sqrt(t - f))
                    trunc = all(
                        isinstance(orows[f + i][c], int) and orows[f + i][c] == math.trunc(rows[f + i][c] + w[i])
                        for i in range(t - f))
            raise Violation(
                "effect-BrownianNoiseInjector",
                "%s: %s%s" % (desc, err, " (integer data: the noise was truncated)" if trunc else ""),
                expected="column %d + walk from x0=%r with increments of magnitude 1/sqrt(%d)" % (c, a["x0"], t - f),
                observed=orows,
                sig="effect-BrownianNoiseInjector" + (":integer-truncation" if trunc else ""))
        ctx.count("walk_up_steps", ups)
        ctx.count("walk_down_steps", downs)
        if a.get("rs") is not None:
            out2, exc = self.run_call(call, obj, OwnedRng([], *self.caps, real=True))
            if exc is not None or not M.same_rows(orows, to_rows(out2) or []):
                raise Violation("effect-BrownianNoiseInjector",
                                "%s: the same random_state gave a different result on a second call" % desc,
                                expected=orows, observed=None if exc is not None else to_rows(out2),
                                sig="brownian-random-state-not-reproducible")
            ctx.count("real_rng_calls")

    def oracle_FeatureCoverInjector(self, ev, ctx, desc, obj, rows, out, orows, call, rng, kinds):
        a = ev["args"]
        keys, members = M.groups_of(rows, a["col"])
        n_per = a["ss"] // len(keys)
        err = M.check_cover(rows, a["col"], n_per, orows)
        if err:
            raise Violation("cover-sample", "%s: %s" % (desc, err),
                            expected="%d row(s) of each of the %d group(s), column %d removed" % (n_per, len(keys), a["col"]),
                            observed=orows)
        ctx.count("cover_groups_%d" % min(len(keys), 3))
        if n_per == 0:
            ctx.count("cover_empty_sample")
        if n_per and any(len(m) > n_per for m in members):
            ctx.count("cover_proper_subsample")
        if a.get("rs") is not None:
            ctx.count("real_rng_calls")

    def oracle_resample(self, ev, ctx, desc, rows, orows, rng, request):
        f, t, lc = ev["f"], ev["t"], ev["data"]["lc"]
        bad = M.check_resampled_rows(rows, orows, f, t)
        if bad:
            raise Violation("frame" if bad[0] == "frame" else "effect-" + self.name, "%s: %s" % (desc, bad[1]),
                            expected=rows, observed=orows)
        if t == f:
            ctx.count("resample_empty_window_ok")
            return
        draws = [cl for cl in rng.calls if cl["fn"] == "choice"]
        if len(draws) != 1:
            raise Violation("resample-distribution",
                            "%s: expected exactly one weighted draw through numpy.random.choice, saw %d" % (desc, len(draws)),
                            expected=1, observed=len(draws))
        d = draws[0]
        err, info = M.check_probability_vector(rows, f, t, lc, request, d["a"], d["p"])
        if err:
            listed = [k for k, _ in request]
            outside_only = [c for c in M.column_classes(rows, lc)
                            if not any(M.same_cell(c, w) for w in M.window_classes(rows, f, t, lc))
                            and not any(M.same_cell(c, k) for k in listed)]
            narrow = info["satisfiable"] and bool(outside_only)
            raise Violation("resample-distribution", "%s (request %r): %s%s" % (
                desc, request, err,
                " [un-listed class(es) %r occur only outside the window]" % (outside_only,) if narrow else ""),
                expected=request, observed={"candidates": d["a"], "weights": d["p"]},
                sig="resample-distribution" + (":unlisted-class-only-outside-window" if narrow else
                                               ":listed-class-absent-from-window" if info["absent_rule"] else ""))
        if not d["replace"]:
            raise Violation("resample-distribution", "%s: rows are drawn without replacement" % desc,
                            expected="replace=True", observed="replace=False")
        err = M.check_resample_draw(rows, orows, f, t, [d["a"][q] for q in d["pos"]])
        if err:
            raise Violation("effect-" + self.name, "%s: %s" % (desc, err), expected=rows, observed=orows)
        if info["listed_absent"]:
            ctx.count("absent_class_cases")
            if info["absent_rule"]:
                ctx.count("prob_absent_listed_rule_checked")
                if info["absent_mass"] > 0:
                    ctx.count("prob_absent_listed_positive_mass")
                    if info["absent_rule_readings_differ"]:
                        ctx.count("prob_absent_listed_unequal_class_sizes")
        elif info["satisfiable"]:
            ctx.count("prob_mass_checked")
            if info["all_in_window"]:
                ctx.count("prob_all_classes_in_window")
            if any(w == 0 for w in d["p"]):
                ctx.count("prob_zero_weight_rows")
        else:
            ctx.count("prob_unsatisfiable_request")
        tot = math.fsum(v for _, v in request)
        ctx.count("prob_full_vector" if abs(tot - 1) < 1e-12 else "prob_partial_vector")

    def oracle_LabelProbabilityInjector(self, ev, ctx, desc, obj, rows, out, orows, call, rng, kinds):
        lc = ev["data"]["lc"]
        request = [(cls_value(kinds[lc], k), v) for k, v in ev["args"]["probs"]]
        self.oracle_resample(ev, ctx, desc, rows, orows, rng, request)

    def oracle_LabelDirichletInjector(self, ev, ctx, desc, obj, rows, out, orows, call, rng, kinds):
        lc = ev["data"]["lc"]
        alpha = ev["args"]["alpha"]
        dd = [cl for cl in rng.calls if cl["fn"] == "dirichlet"]
        if len(dd) != 1 or dd[0]["alpha"] != [float(v) for _, v in alpha]:
            raise Violation("resample-distribution",
                            "%s: the Dirichlet weights handed to numpy.random.dirichlet are %r" % (desc, [c["alpha"] for c in dd]),
                            expected=[float(v) for _, v in alpha], observed=[c["alpha"] for c in dd])
        request = [(cls_value(kinds[lc], k), p) for (k, _), p in zip(alpha, dd[0]["ret"])]
        self.oracle_resample(ev, ctx, desc, rows, orows, rng, request)
        ctx.count("dirichlet_draws")


SYSTEMS = {name: InjectorSystem(name) for name in INJECTORS}

# ------------------------------------------------------------------ enumeration
PROBS = [
    [[0, 0.5]],
    [[0, 0.25], [1, 0.75]],
    [[1, 1.0]],
    [[0, 0.5], [1, 0.25], [2, 0.25]],
    [[2, 0.25]],
    [[0, 0.0], [1, 0.5]],
    [[0, 0.75], [1, 0.5]],  # exceeds 1  -> documented ValueError
    [[3, 0.5]],  # class not in the data -> documented ValueError
    # three listed classes with pairwise different probabilities / a partial vector: whichever listed class is missing
    # from the window, the classes that remain were asked for DIFFERENT probabilities and an un-listed class may
    # remain too, so "divide the missing probability uniformly" differs from re-normalising the request
    [[0, 0.125], [1, 0.5], [2, 0.375]],
    [[1, 0.5], [2, 0.25]],
]
PROBS_EVERYWHERE = 8  # the vectors from this position on are used only for windows that lack one of their classes
ALPHAS = [
    [[0, 1], [1, 1]],
    [[0, 4], [1, 1], [2, 1]],
    [[1, 2]],
    [[0, 1], [3, 1]],  # class not in the data -> documented ValueError
    # keys deliberately NOT in sorted order and weights all different: the i-th weight belongs to the i-th key
    [[1, 4], [0, 1]],
    [[2, 1], [0, 5], [1, 2]],
]
THREE_CLASS_EXTRA = {4: [[0, 1, 2, 0], [2, 2, 0, 1], [0, 0, 0, 2], [1, 2, 2, 1]],
                     5: [[0, 1, 2, 0, 1], [2, 2, 0, 1, 1], [0, 0, 0, 0, 2], [1, 0, 2, 2, 0]]}
DEFAULT_LAB = [0, 1, 0, 1, 2]


BINARY_FEW = {4: [[0, 0, 0, 0], [0, 1, 0, 1], [1, 1, 0, 0], [0, 1, 1, 1], [1, 0, 0, 0], [1, 1, 1, 1]],
              5: [[0, 0, 0, 0, 0], [0, 1, 0, 1, 0], [1, 1, 0, 0, 1], [0, 1, 1, 1, 0], [1, 0, 0, 0, 0], [1, 1, 1, 1, 1]]}


def label_vectors(n, level):
    """Class vectors of the label column.
    level 2: all over {0,1,2};  level 1: all over {0,1}, all over {0,1,2} for n <= 3, a few three-class
    ones beyond;  level 0: all over {0,1,2} for n <= 3, a few binary and three-class ones beyond."""
    if level >= 2 or n <= 3:
        return [list(v) for v in itertools.product((0, 1, 2), repeat=n)]
    if level == 1:
        return [list(v) for v in itertools.product((0, 1), repeat=n)] + THREE_CLASS_EXTRA[n]
    return BINARY_FEW[n] + THREE_CLASS_EXTRA[n]


def windows(n):
    return [(f, t) for f in range(n + 1) for t in range(f, n + 1)]


def numeric_cols(kinds):
    return [j for j, kd in enumerate(kinds) if kd != "s"]


# ------------------------------------------------------------------ histories of calls
HIST_N = 4
# label vectors: ndarray data sets / DataFrame data sets (another data set, not only another container): windows
# [0,2) and [2,4) hold two classes or one (a third / the others outside), [1,4) all three or two
HIST_LAB = {"nd": [0, 1, 2, 0], "df": [2, 0, 1, 1]}
HIST_WINDOWS = [(0, 0), (0, 2), (2, 4), (1, 4), (0, 4)]  # empty, two windows of the same length, a longer one, the full one
HIST_WINDOWS_NOISE = [(0, 0), (0, 2), (2, 4), (0, 3), (1, 4)]  # lengths 0, 2, 2, 3, 3
HIST_CAPS = (0, 0)  # one scripted answer per resample / group sample / Dirichlet draw; +-1 steps fully enumerated
# (container, columns, label column, cell pattern) of the data sets the calls of a history are made on; the first one
# is the ndarray that histories of three calls (thorough) are restricted to
HIST_SPECS = {
    "BrownianNoiseInjector": [("nd_float", 3, 2, 0), ("df_float", 3, 2, 1)],
    "FeatureShiftInjector": [("nd_float", 3, 2, 0), ("df_float", 3, 2, 1), ("nd_int", 3, 2, 1)],
    "FeatureSwapInjector": [("nd_float", 3, 2, 0), ("df_mixed", 3, 0, 0)],
    "FeatureCoverInjector": [("nd_float", 3, 2, 0), ("df_float", 3, 2, 0)],
    "LabelSwapInjector": [("nd_float", 3, 2, 0), ("df_strlab", 2, 1, 0)],
    "LabelJoinInjector": [("nd_float", 3, 2, 0), ("df_strlab", 2, 1, 0)],
    "LabelProbabilityInjector": [("nd_float", 3, 2, 0), ("df_float", 3, 2, 0)],
    "LabelDirichletInjector": [("nd_float", 3, 2, 0), ("df_float", 3, 2, 0)],
}
HIST_THOROUGH_EXTRA = {"BrownianNoiseInjector": [("df_mixed", 3, 0, 0)], "LabelProbabilityInjector": [("df_mixed", 3, 0, 0)]}


def hist_seeds(seed):
    r1 = 1 + derive(seed, "rs", "hist") % 1000
    return r1, r1 + 1


def hist_args(inj, seed):
    """-> (windows, argument dicts) of the menu of calls of one injector."""
    r1, r2 = hist_seeds(seed)
    if inj == "BrownianNoiseInjector":
        return HIST_WINDOWS_NOISE, [{"col": c, "x0": x0, "rs": rs} for c, x0 in ((0, 2), (1, -0.5)) for rs in (None, r1, r2)]
    if inj == "FeatureShiftInjector":
        return HIST_WINDOWS, [{"col": 0, "sf": -1, "alpha": None}, {"col": 1, "sf": 0.5, "alpha": 0.25}]
    if inj == "FeatureSwapInjector":
        return HIST_WINDOWS, [{"c1": 0, "c2": 1}, {"c1": 1, "c2": 2}, {"c1": 2, "c2": 0}]
    if inj == "FeatureCoverInjector":  # sample sizes: one row per group / a documented rejection (group too small)
        return [(0, HIST_N)], [{"col": c, "ss": ss, "rs": rs} for c in ("lc", "other") for ss in (3, 4, 6) for rs in (None, r1)]
    if inj == "LabelSwapInjector":
        return HIST_WINDOWS, [{"a": 0, "b": 1}, {"a": 1, "b": 2}, {"a": 0, "b": 3}]
    if inj == "LabelJoinInjector":
        return HIST_WINDOWS, [{"a": 0, "b": 1, "new": 5}, {"a": 1, "b": 2, "new": 5}, {"a": 0, "b": 3, "new": 0}]
    if inj == "LabelProbabilityInjector":
        return HIST_WINDOWS, [{"probs": PROBS[i]} for i in (0, 3, 6, 9)]  # partial, full, rejected, partial with 3 classes
    if inj == "LabelDirichletInjector":
        return HIST_WINDOWS, [{"alpha": ALPHAS[i]} for i in (0, 5, 3)]  # two classes, three classes unsorted, rejected
    raise HarnessError("unknown injector " + inj)


def hist_menu(inj, seed, tier, first_only=False):
    specs = list(HIST_SPECS[inj]) + (HIST_THOROUGH_EXTRA.get(inj, []) if tier == "thorough" else [])
    if first_only:
        specs = specs[:1]
    wins, args = hist_args(inj, seed)
    menu = []
    for ct, k, lc, pat in specs:
        sp = {"ct": ct, "n": HIST_N, "k": k, "lc": lc, "lab": list(HIST_LAB[ct[:2]]), "pat": pat}
        other = [j for j in range(k) if j != lc][0]
        for f, t in wins:
            for a in args:
                a = dict(a)
                if inj == "FeatureCoverInjector":
                    a["col"] = lc if a["col"] == "lc" else other
                if inj == "FeatureSwapInjector" and max(a["c1"], a["c2"]) >= k:
                    continue
                if inj in ("BrownianNoiseInjector", "FeatureShiftInjector") and col_kinds(ct, k, lc)[a["col"]] == "s":
                    continue
                menu.append({"data": sp, "f": f, "t": t, "args": a})
    return menu


def hist_events(cfg, seed):
    """All ordered pairs (depth 3: triples) of calls of the menu.  sharing 'same': one injector object makes all
    calls of the history; 'fresh': every call gets a new object (what is left is process-level state)."""
    inj, depth, sharing = cfg["inj"], cfg["depth"], cfg["sharing"]
    menu = hist_menu(inj, seed, cfg["tier"], first_only=cfg.get("first_only", False))
    if sharing == "fresh":
        menu = [c for c in menu if c["data"]["ct"].startswith("nd")] if depth == 2 else menu
    chunk, nchunks = cfg.get("chunk", 0), cfg.get("nchunks", 1)
    for i, first in enumerate(menu):
        if i % nchunks != chunk:
            continue
        for rest in itertools.product(menu, repeat=depth - 1):
            calls = [first] + list(rest)
            e = dict(calls[-1])
            e["hist"] = calls[:-1]
            if sharing == "fresh":
                e["fresh"] = True
            yield e


def calls_for(cfg, seed):
    """Generator of events (without the RNG script) for one task."""
    if cfg.get("fam") == "hist":
        yield from hist_events(cfg, seed)
        return
    inj, ct, n, k, lc = cfg["inj"], cfg["ct"], cfg["n"], cfg["k"], cfg["lc"]
    chunk, nchunks = cfg.get("chunk", 0), cfg.get("nchunks", 1)
    kinds = col_kinds(ct, k, lc)
    level = cfg["level"]  # enumeration level of label vectors / class pairs, see plan()

    def spec(lab, pat):
        return {"ct": ct, "n": n, "k": k, "lc": lc, "lab": list(lab), "pat": pat}

    def ev(sp, f, t, args, prime=False):
        e = {"data": sp, "f": f, "t": t, "args": args}
        if prime:
            e["prime"] = True
        return e

    def primes(f, t):
        return (False, True) if (f, t) == (0, n) and inj != "LabelDirichletInjector" else (False,)

    rs_real = 1 + derive(seed, "rs", cfg["id"]) % 1000

    if inj == "FeatureSwapInjector":
        for pat in (0, 1):
            sp = spec(DEFAULT_LAB[:n], pat)
            for f, t in windows(n):
                for c1 in range(k):
                    for c2 in range(k):
                        for pr in primes(f, t):
                            yield ev(sp, f, t, {"c1": c1, "c2": c2}, pr)
    elif inj == "FeatureShiftInjector":
        for pat in (0, 1):
            sp = spec(DEFAULT_LAB[:n], pat)
            for f, t in windows(n):
                for c in numeric_cols(kinds):
                    for sf in (-1, 0.5):
                        for alpha in (None, 0.25):
                            for pr in primes(f, t):
                                yield ev(sp, f, t, {"col": c, "sf": sf, "alpha": alpha}, pr)
    elif inj == "BrownianNoiseInjector":
        for pat in (0, 1):
            sp = spec(DEFAULT_LAB[:n], pat)
            for f, t in windows(n):
                for c in numeric_cols(kinds):
                    for x0 in (0, 2, -0.5):
                        for pr in primes(f, t):
                            yield ev(sp, f, t, {"col": c, "x0": x0, "rs": None}, pr)
                        if ct not in INT_CONTAINERS:
                            yield ev(sp, f, t, {"col": c, "x0": x0, "rs": rs_real})
    elif inj == "FeatureCoverInjector":
        labs = label_vectors(n, level)[chunk::nchunks]
        for lab in labs:
            for pat in (0, 1):
                sp = spec(lab, pat)
                for c in range(k):
                    if pat == 1 and c != lc:
                        continue
                    for ss in range(0, n + 2):
                        for pr in (False, True) if ss == n else (False,):
                            yield ev(sp, 0, n, {"col": c, "ss": ss, "rs": None}, pr)
                        if ss in (1, n):
                            yield ev(sp, 0, n, {"col": c, "ss": ss, "rs": rs_real})
    elif inj in ("LabelSwapInjector", "LabelJoinInjector"):
        labs = label_vectors(n, level)[chunk::nchunks]
        pairs = [(a, b) for a in (0, 1, 2, 3) for b in (0, 1, 2, 3)]
        if level == 1:
            pairs = [(a, b) for a, b in pairs if 3 not in (a, b)] + [(0, 3), (3, 1), (3, 3)]
        elif level == 0:
            pairs = [(0, 1), (1, 0), (0, 2), (1, 1), (2, 1), (0, 3), (3, 3)]
        for lab in labs:
            sp = spec(lab, 0)
            for f, t in windows(n):
                for a, b in pairs:
                    if inj == "LabelSwapInjector":
                        for pr in primes(f, t):
                            yield ev(sp, f, t, {"a": a, "b": b}, pr)
                    else:
                        for new in (5, a) if level else (5,):
                            for pr in primes(f, t):
                                yield ev(sp, f, t, {"a": a, "b": b, "new": new}, pr)
    elif inj == "LabelProbabilityInjector":
        labs = label_vectors(n, level if n <= 4 else min(level, 1))[chunk::nchunks]
        for lab in labs:
            sp = spec(lab, 0)
            for f, t in windows(n):
                for q, probs in enumerate(PROBS):
                    if q >= PROBS_EVERYWHERE and not any(c in lab and c not in lab[f:t] for c, _ in probs):
                        continue  # these vectors only where a listed class of the data is missing from the window
                    for pr in primes(f, t):
                        yield ev(sp, f, t, {"probs": probs}, pr)
    elif inj == "LabelDirichletInjector":
        labs = label_vectors(n, level if n <= 3 else min(level, 1))[chunk::nchunks]
        for lab in labs:
            sp = spec(lab, 0)
            for f, t in windows(n):
                for alpha in ALPHAS:
                    yield ev(sp, f, t, {"alpha": alpha})


def next_script(trace):
    """Successor of an answer script in depth-first order (None when exhausted)."""
    tr = [list(x) for x in trace]
    while tr and tr[-1][0] + 1 >= tr[-1][1]:
        tr.pop()
    if not tr:
        return None
    return [c for c, _ in tr[:-1]] + [tr[-1][0] + 1]


def enumerate_task(task, seed):
    t0 = time.time()
    c0 = time.process_time()
    cfg = task["cfg"]
    system = SYSTEMS[cfg["inj"]]
    system.caps = tuple(task["caps"])
    ev_caps = list(HIST_CAPS if cfg.get("fam") == "hist" else system.caps)
    ctx = Ctx(seed)
    st = ctx.stats
    violations, samples = [], []
    per_sig = {}
    for base in calls_for(cfg, seed):
        st["states"] += 1
        script = []
        while script is not None:
            ev = dict(base)
            ev["caps"] = list(ev_caps)  # the meaning of the script depends on the caps: keep events self-contained
            if script:
                ev["rng"] = list(script)
            ctx.marks = 0
            system.last_trace = []
            try:
                obs = system.step(cfg, {}, ev, 0, ctx)
                st["transitions"] += 1
            except Violation as v:
                st["violations_raw"] += 1
                per_sig[v.sig] = per_sig.get(v.sig, 0) + 1
                if per_sig[v.sig] <= 1:
                    _, v2 = run_path(system, cfg, [ev], seed)
                    if v2 is None or (v2.sub, v2.msg) != (v.sub, v.msg):
                        raise HarnessError("HARNESS-NONDET: violation %r did not reproduce on %r" % (v.msg, ev))
                    violations.append(artefact(PROPERTY, system, cfg, seed, [ev], v))
                obs = None
            trace = list(system.last_trace)
            if system.last_capped:
                st["rng_menu_instead_of_all_answers"] += 1
            st["executions"] += 1
            if ctx.marks:
                st["nontrivial_executions"] += 1
            if obs is not None:
                if st["executions"] % 503 == 1:
                    obs2, v2 = run_path(system, cfg, [ev], seed)
                    if v2 is not None or not _same(obs2, [obs]):
                        raise HarnessError("HARNESS-NONDET: re-execution differs on %r" % (ev,))
                    st["fresh_replays"] += 1
                if len(samples) < 1 or (ctx.marks and len(samples) < 2):
                    samples.append({"system": system.name, "cfg": jsonable(cfg), "events": [jsonable(ev)],
                                    "last_obs": jsonable(obs), "nontrivial_events": ctx.marks})
            script = next_script(trace) if trace else None
    system.cache.clear()
    st["cpu_ms_" + cfg["inj"]] += int(1000 * (time.process_time() - c0))
    return {"stats": dict(st), "violations": violations, "samples": samples, "wall": time.time() - t0}


# ------------------------------------------------------------------ tasks
ALL_LAYOUTS = [(2, 0), (2, 1), (3, 0), (3, 1), (3, 2)]  # (columns, position of the label column)
QUICK_LAYOUTS = {
    "nd_float": [(2, 1), (3, 0)],
    "nd_int": [(2, 1), (3, 0)],
    "df_float": [(2, 1)],
    "df_int": [(3, 0)],
    "df_mixed": [(3, 0)],  # int labels + float + str columns -> object array inside the injector
    "df_strlab": [(2, 1)],
}
THOROUGH_DF_LAYOUTS = {
    "df_float": [(2, 1), (3, 0)],
    "df_int": [(3, 0), (2, 0)],
    "df_mixed": [(3, 0), (2, 1)],  # (2, 1): int labels + float column -> float64 array inside the injector
    "df_strlab": [(2, 1), (3, 2)],
}
CHEAP = ("FeatureSwapInjector", "FeatureShiftInjector", "BrownianNoiseInjector")
TIERS = ("quick", "thorough")
# rough cost model (ms per execution, answer scripts per call) used only to size the tasks
MS = {"nd": 0.15, "df": 1.0}
SCRIPTS = {"LabelProbabilityInjector": {"quick": 3, "thorough": 12}, "LabelDirichletInjector": {"quick": 9, "thorough": 10},
           "FeatureCoverInjector": {"quick": 3, "thorough": 6}, "BrownianNoiseInjector": {"quick": 3, "thorough": 3}}


def plan(tier, inj, ct):
    """Bounds of one (tier, injector, container): layouts, enumeration level, RNG caps
    (resample vectors enumerated while |support|^window <= caps[0], ordered group samples while <= caps[1])."""
    nd = ct.startswith("nd")
    if tier == "quick":
        return {"layouts": ALL_LAYOUTS if inj in CHEAP[:2] else QUICK_LAYOUTS[ct],
                "level": 1 if nd and inj != "LabelDirichletInjector" else 0, "caps": (27, 24)}
    p = {"layouts": ALL_LAYOUTS if (nd or inj in CHEAP) else THOROUGH_DF_LAYOUTS[ct], "level": 2 if nd else 1,
         "caps": (256, 120)}
    if inj == "FeatureCoverInjector":
        p["level"] = 1
        p["caps"] = (256, 60)
    if inj == "LabelDirichletInjector":
        p["caps"] = (27, 24)  # the resample itself is LabelProbabilityInjector's, enumerated there with the large cap
    return p


def tasks(tier, seed):
    tier = tier if tier in TIERS else "quick"
    out = []
    for inj in INJECTORS:
        for ct in CONTAINERS:
            pl = plan(tier, inj, ct)
            for n in range(1, 6):
                for k, lc in pl["layouts"]:
                    cfg = {"inj": inj, "ct": ct, "n": n, "k": k, "lc": lc, "level": pl["level"]}
                    # size: calls per label vector x label vectors x scripts x ms
                    nlab = 1
                    if inj not in CHEAP:
                        lv = pl["level"]
                        if inj == "LabelProbabilityInjector" and n > 4 or inj == "LabelDirichletInjector" and n > 3:
                            lv = min(lv, 1)
                        nlab = len(label_vectors(n, lv))
                    per_lab = sum(1 for _ in calls_for(dict(cfg, id="size", chunk=0, nchunks=nlab), seed))
                    scripts = SCRIPTS.get(inj, {}).get(tier, 1)
                    if inj == "LabelProbabilityInjector" and tier == "thorough":
                        scripts = {1: 1, 2: 2, 3: 8}.get(n, 40)  # |support|^window answer vectors up to the cap of 256
                    est = per_lab * nlab * scripts * MS["nd" if ct.startswith("nd") else "df"] / 1000.0
                    target = 6.0 if tier == "quick" else 25.0
                    nch = max(1, min(nlab, int(math.ceil(est / target))))
                    for ch in range(nch):
                        cid = "%s|%s|n%d|k%d|lc%d|%d/%d" % (inj, ct, n, k, lc, ch, nch)
                        out.append({
                            "fn": "enumerate_task",
                            "system": inj,
                            "caps": list(pl["caps"]),
                            "cfg": dict(cfg, id=cid, chunk=ch, nchunks=nch),
                            "label": cid,
                            "cost": est / nch,
                        })
    out.extend(hist_tasks(tier, seed))
    return out


# two-call executions per second of one worker, very roughly (ndarray / DataFrame mix), to size the history tasks
HIST_MS = {"BrownianNoiseInjector": 2.5, "LabelProbabilityInjector": 2.5, "LabelDirichletInjector": 2.5,
           "FeatureCoverInjector": 6.0}


def hist_tasks(tier, seed):
    """History families: label '<Injector>|hist|<sharing>|d<depth>|chunk'."""
    out = []
    for inj in INJECTORS:
        fams = [("same", 2, False), ("fresh", 2, False)]
        if tier == "thorough":
            fams += [("same", 3, True), ("fresh", 3, True)]
        for sharing, depth, first_only in fams:
            cfg = {"inj": inj, "fam": "hist", "tier": tier, "depth": depth, "sharing": sharing, "first_only": first_only}
            m = len(hist_menu(inj, seed, tier, first_only))
            if sharing == "fresh" and depth == 2:
                m = sum(1 for c in hist_menu(inj, seed, tier) if c["data"]["ct"].startswith("nd"))
            est = (m ** depth) * HIST_MS.get(inj, 1.5) / 1000.0
            if depth > 2 and inj == "BrownianNoiseInjector":
                est *= 3  # unseeded walks: the answer scripts of three calls multiply
            nch = max(1, min(m, int(math.ceil(est / (4.0 if tier == "quick" else 20.0)))))
            for ch in range(nch):
                cid = "%s|hist|%s|d%d|%d/%d" % (inj, sharing, depth, ch, nch)
                out.append({"fn": "enumerate_task", "system": inj, "caps": list(HIST_CAPS),
                            "cfg": dict(cfg, id=cid, chunk=ch, nchunks=nch), "label": cid, "cost": est / nch})
    return out


REQUIRED = (
    ["windows_empty", "windows_full", "windows_interior", "absent_class_cases", "rng_answers_enumerated",
     "documented_rejections", "cover_oversample_rejected", "cover_proper_subsample", "walk_up_steps",
     "walk_down_steps", "twice-restores_checked", "involution_checked", "prob_mass_checked",
     "prob_all_classes_in_window", "prob_full_vector", "prob_partial_vector", "prob_zero_weight_rows",
     "dirichlet_draws", "primed_calls", "real_rng_calls", "equal_column_pairs", "equal_class_pairs",
     "shift_nonzero", "effect_visible",
     # a listed class missing from the window: the documented redistribution was checked, with a positive probability
     # to redistribute, and for windows whose classes have different sizes
     "prob_absent_listed_rule_checked", "prob_absent_listed_positive_mass", "prob_absent_listed_unequal_class_sizes",
     # histories of calls (none of these depends on VERIF_SEED: the seeds handed to the injectors only have to differ)
     "hist_executions", "hist_same_object", "hist_fresh_objects", "hist_containers_mixed",
     "hist_identical_consecutive_calls", "hist_seed_repeated", "hist_seed_repeated_same_length",
     "hist_seeded_and_unseeded_calls", "hist_call_after_rejected_call"]
    + ["container_" + c for c in CONTAINERS]
    + ["injector_" + i for i in INJECTORS]
)

TIME_BUDGET = {"quick": 600, "thorough": 3000}


def describe(tier):
    tier = tier if tier in TIERS else "quick"
    return {
        "rule": "every call (injector x container x data set x window x arguments) inside the bound is executed on the "
        "real injector once per possible answer script of the owned random generator (stateless depth-first search "
        "over the script: all +-1 walks, all index vectors of a resample while |support|^window <= cap, all ordered "
        "samples of a group while their number <= cap, a fixed menu beyond the caps and for Dirichlet draws); an "
        "execution is non-trivial when the result differs from the input or a documented rejection occurred; "
        "executions are distinct by construction (distinct call descriptions or distinct answer scripts); history "
        "families: every ordered pair (thorough: triple) of calls of a per-injector menu is made inside ONE execution, "
        "by one injector object or by a fresh object per call, every call judged by the complete oracle; process-level "
        "state of menelaus.injection is put back to its imported value before every execution",
        "bounds": {
            "injectors": list(INJECTORS),
            "containers": CONTAINERS,
            "rows": [1, 5],
            "per_injector_container": {
                inj: {ct: {"layouts(columns,label column)": plan(tier, inj, ct)["layouts"], "level": plan(tier, inj, ct)["level"],
                           "rng_caps": list(plan(tier, inj, ct)["caps"])} for ct in CONTAINERS}
                for inj in INJECTORS},
            "windows": "all 0 <= from <= to <= n",
            "label_vectors_by_level": "2: all over {0,1,2} (probability: n<=4, dirichlet: n<=3, beyond that level 1); "
            "1: all over {0,1}, all over {0,1,2} for n<=3, 4 three-class vectors for n=4,5; "
            "0: all over {0,1,2} for n<=3, 6 binary + 4 three-class vectors for n=4,5",
            "class_arguments": "level 2: all 16 ordered pairs over tokens 0..3 (3 never occurs in the data); level 1: all 9 over "
            "0..2 + (0,3),(3,1),(3,3); level 0: 7 pairs; join target: a new class / (level>=1) class_1 itself",
            "shift": {"shift_factor": [-1, 0.5], "alpha": ["default", 0.25]},
            "brownian_x0": [0, 2, -0.5],
            "probability_vectors": PROBS[:PROBS_EVERYWHERE],
            "probability_vectors_only_for_windows_lacking_a_listed_class_of_the_data": PROBS[PROBS_EVERYWHERE:],
            "dirichlet_alpha": ALPHAS,
            "dirichlet_answers": DIRICHLET_MENU,
            "cover_sample_sizes": "0..n+1",
            "rng_caps_meaning": "[c0, c1]: all index vectors of a resample are enumerated while |support|^window <= c0, "
            "all ordered samples of a group while their number <= c1, a fixed menu of 3-5 answers beyond",
            "histories": {
                "depth": "2 calls (all ordered pairs of the menu)" + (
                    "; 3 calls (all ordered triples of the menu restricted to the ndarray data set)" if tier == "thorough" else ""),
                "sharing": "same: one injector object makes all calls (every pair); fresh: a new object per call (pairs "
                "of the ndarray calls; triples: all)",
                "rows": HIST_N, "label_vectors": HIST_LAB,
                "data_sets(container, columns, label column, cell pattern)": {
                    i: HIST_SPECS[i] + (HIST_THOROUGH_EXTRA.get(i, []) if tier == "thorough" else []) for i in INJECTORS},
                "windows": HIST_WINDOWS, "windows_noise": HIST_WINDOWS_NOISE,
                "arguments": {i: hist_args(i, 0)[1] for i in INJECTORS},
                "seeds": "random_state in {None, r, r+1}, r derived from VERIF_SEED (shown for VERIF_SEED=0)",
                "menu_sizes": {i: len(hist_menu(i, 0, tier)) for i in INJECTORS},
                "rng": "one scripted answer per resample / group sample / Dirichlet draw, +-1 steps of unseeded walks "
                "fully enumerated over the whole history",
            },
        },
        "explanation": "states = distinct calls (RNG script not counted), transitions = executions that passed the oracle, "
        "traces_validated_against_impl = executions (call x answer script), each compared with the plain-Python "
        "specification; rng_menu_instead_of_all_answers counts executions in which a draw was too large to enumerate "
        "and a fixed menu of answers was used instead",
        "assumptions": [
            "randomness is drawn through numpy.random.choice / numpy.random.dirichlet (module-level functions, also what "
            "pandas' groupby.sample uses for random_state=None); they are replaced inside the harness only and restored "
            "after every call",
            "'class frequencies follow the requested probabilities' is decided on the weight vector handed to the "
            "generator (mass p_c on class c when every listed class occurs in the window and the request is satisfiable), "
            "not on empirical frequencies",
            "a listed class that is absent from the window (request otherwise satisfiable): its probability 'is "
            "uniformly divided into the remaining classes in the window' (docstring) — the weights must give every class "
            "of the window its own probability (listed: as requested, un-listed: uniform share of 1 - sum) plus either an "
            "equal share per class or an equal share per row of the missing probability (the two readings of "
            "'uniformly'; they coincide for classes of equal size; the pinned implementation follows the per-row one)",
            "an unsatisfiable request (sums to less than 1 and no un-listed class in the window) only requires a valid "
            "weight vector over rows of the window",
            "state kept by the code under test at process level is not itself a violation; it is reset between "
            "executions (counter note_process_level_state_put_back) and its effect is judged inside the histories. "
            "Only state reachable from the modules menelaus.injection.* as imported is reset",
            "numpy's global generator is seeded with a constant derived from VERIF_SEED before every call into menelaus",
            "documented ValueErrors (probabilities above 1, classes that do not occur in the data, a group smaller than "
            "the requested sample) are tolerated, never required",
            "dtype of the returned cells and the DataFrame row index are not part of the property; cells are compared by value",
        ],
    }
