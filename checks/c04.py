"""C04 - CUSUM and Page-Hinkley apply their sequential tests to the current observations.

Explored (DESIGN §4 C04): every history over the alphabet {-2, 0, 1, 4} up to the
stated depth (prefix-shared DFS over the real detectors) for grids of
burn_in x delta x threshold x direction x (given | estimated) statistics, plus
deviation-bounded level-shift histories of length 40 (every choice of <= k
positions replaced by every other symbol) that contain 4-6 alarms each.

Oracle: lock-step agreement, after every update, with the Fraction reference
models of models/seqtests.py - CUSUM: drift_state (and the documented
"standard deviation is 0" ValueError, an expected terminal outcome);
PageHinkley: drift_state and every column of to_dataframe().
"""
import itertools

import numpy as np

from menelaus.change_detection import CUSUM, PageHinkley

from mc.explorer import System, Violation
from mc.numeric import close, diff_keys, lockstep
from models.seqtests import PH_COLUMNS, CusumModel, PageHinkleyModel

PROPERTY = "C04"
ALPHABET = [-2, 0, 1, 4]


def _desc(cfg):
    return ", ".join("%s=%r" % kv for kv in sorted(cfg["params"].items()))


def _common_counters(ctx, prefix, model, last):
    """Anti-vacuity bookkeeping shared by both systems (model-side facts)."""
    if last.get("alarm"):
        if model.alarms == 3:
            ctx.count("histories_reaching_3_alarms")
            ctx.count(prefix + "_histories_reaching_3_alarms")
        if model.alarms == 4:
            ctx.count("histories_reaching_4_alarms")
        if model.epoch == 2:
            ctx.count("alarm_in_epoch2")
            ctx.count(prefix + "_alarm_in_epoch2")
        elif model.epoch >= 3:
            ctx.count("alarm_in_epoch3plus")
            ctx.count(prefix + "_alarm_in_epoch3plus")
        if last.get("first_eligible"):
            ctx.count("burnin_boundary_alarm_at_first_eligible_sample")
    if last.get("suppressed"):
        ctx.mark("burnin_boundary_test_fired_but_suppressed")
    if last.get("first_eligible_quiet"):
        ctx.count("burnin_boundary_first_eligible_sample_quiet")
    if last.get("tie"):
        ctx.mark("exact_ties_enforced")
        ctx.count(prefix + "_exact_ties_enforced")
    if last.get("exact"):
        ctx.count("decisions_in_exact_arithmetic")


class CusumSystem(System):
    name = "CUSUM"

    def init(self, cfg):
        p = cfg["params"]
        return {"det": CUSUM(**p), "model": CusumModel(**p)}

    def alphabet(self, cfg, state, pos):
        return ALPHABET

    def step(self, cfg, state, ev, pos, ctx):
        det = state["det"]
        err = None
        # "offset" families feed level + symbol: the same tests far away from 0, where a numerically careless
        # re-estimation (one-pass variance, say) loses all its digits; decisions within 1e-6 of the threshold are
        # undecidable there (the float mean / standard deviation of 3e7-sized data carry ~1e-8 relative error)
        x = float(ev) + float(cfg.get("offset", 0.0))
        if cfg.get("offset"):
            ctx.count("offset_level_steps")
        try:
            det.update(x)
        except ValueError as e:
            msg = " ".join(str(e).split())
            err = "ValueError" if msg.startswith("Standard deviation is 0") else "ValueError: " + msg[:120]
        except Exception as e:  # anything else is not allowed by the property
            err = "%s: %s" % (type(e).__name__, " ".join(str(e).split())[:120])
        obs = {
            "state": det.drift_state,
            "error": err,
            "total": int(det.total_samples),
            "since": int(det.samples_since_reset),
        }
        model, exp, ok = lockstep(
            state["model"],
            lambda m, D: m.step(x, D),
            lambda e: not diff_keys(e, obs),
            stats=ctx.stats,
            **({"tie": 1e-6} if cfg.get("offset") else {}),
        )
        state["model"] = model
        if not ok:
            later = model.epoch >= 2
            raise Violation(
                "CUSUM-spec",
                "CUSUM(%s) disagrees with the cumulative-sum test on the current observation on %s "
                "at sample %d (epoch %d, %d-th sample of the epoch; model: target=%s sd=%s s_h=%s s_l=%s)"
                % (
                    _desc(cfg),
                    diff_keys(exp, obs),
                    pos + 1,
                    model.epoch,
                    model.n,
                    model.target,
                    None if model.sd is None else float(model.sd),
                    float(model.hi),
                    float(model.lo),
                ),
                expected=exp,
                observed=obs,
                sig="CUSUM-spec-after-first-alarm" if later else "CUSUM-spec-first-epoch",
            )
        last = model.last
        d = cfg["params"].get("direction")
        if last.get("alarm"):
            if d is None:
                if last["up"]:
                    ctx.mark("cusum_alarm_twosided_upper")
                if last["dn"]:
                    ctx.mark("cusum_alarm_twosided_lower")
            else:
                ctx.mark("cusum_alarm_" + d)
            if cfg["params"].get("target") is None:
                ctx.count("cusum_alarm_estimated_stats" if model.epoch == 1 else "cusum_alarm_reestimated_stats")
            elif model.epoch >= 2:
                ctx.count("cusum_alarm_reestimated_stats")
        _common_counters(ctx, "cusum", model, last)
        if last.get("sd0"):
            ctx.mark("sd0_terminals")
            ctx.terminal = True
        elif exp["error"] is not None:
            ctx.terminal = True
        elif last.get("alarm") and model.burn_in == 0:
            # "re-estimated from the last burn_in observations" is undefined for
            # burn_in = 0: the history is checked up to and including its first alarm
            ctx.count("burnin0_first_alarm_closes_branch")
            ctx.terminal = True
        return obs


def _cell(v):
    return v.item() if isinstance(v, (np.ndarray, np.generic)) else v


class _Frozen:
    """Immutable holder (already verified frame rows): deepcopy shares it."""

    __slots__ = ("v",)

    def __init__(self, v):
        self.v = v

    def __deepcopy__(self, memo):
        return self


class PageHinkleySystem(System):
    """After every update the whole to_dataframe() is fetched.  Its last row is
    compared with the model's prediction for this observation; all earlier rows
    must be *identical* to the frame fetched (and verified row by row) after the
    previous update of the same epoch; the number of rows must be the number of
    observations of the epoch.  Together: frame == predicted frame, every step."""

    name = "PageHinkley"

    def init(self, cfg):
        p = cfg["params"]
        return {"det": PageHinkley(**p), "model": PageHinkleyModel(**p), "seen": _Frozen([])}

    def alphabet(self, cfg, state, pos):
        return ALPHABET

    def step(self, cfg, state, ev, pos, ctx):
        det = state["det"]
        err = None
        frame = None
        try:
            det.update(float(ev))
            df = det.to_dataframe()
            if list(df.columns) != list(PH_COLUMNS):
                df = df[list(PH_COLUMNS)]
            frame = [[_cell(c) for c in row] for row in df.to_numpy().tolist()]
        except Exception as e:
            err = "%s: %s" % (type(e).__name__, " ".join(str(e).split())[:160])
        if err is not None:
            raise Violation(
                "PageHinkley-exception",
                "PageHinkley(%s) raised %s at sample %d" % (_desc(cfg), err, pos + 1),
                expected={"error": None},
                observed={"error": err, "state": det.drift_state},
            )
        prev = state["seen"].v
        n = len(frame)
        if n == len(prev) + 1:
            unchanged = frame[:-1] == prev
        else:
            unchanged = n == 1  # a new epoch starts with an empty frame
        obs = {
            "state": det.drift_state,
            "nrows": n,
            "row": frame[-1] if frame else None,
            "earlier_rows_unchanged": unchanged,
            "total": int(det.total_samples),
            "since": int(det.samples_since_reset),
        }
        model, exp, ok = lockstep(
            state["model"],
            lambda m, D: m.step(ev, D),
            lambda e: not diff_keys(e, obs),
            stats=ctx.stats,
        )
        state["model"] = model
        state["seen"] = _Frozen(frame)
        if not ok:
            bad = diff_keys(exp, obs)
            cols = []
            if "row" in bad and obs["row"] is not None:
                cols = [PH_COLUMNS[j] for j in range(len(PH_COLUMNS)) if not close(exp["row"][j], obs["row"][j])]
            raise Violation(
                "PageHinkley-spec",
                "PageHinkley(%s) disagrees with the documented Page-Hinkley test on %s %s at sample %d "
                "(epoch %d, %d-th sample of the epoch)" % (_desc(cfg), bad, cols, pos + 1, model.epoch, model.t),
                expected=exp,
                observed=dict(obs, previous_frame=prev[-3:], frame_tail=frame[-4:]),
                sig="PageHinkley-spec-after-first-alarm" if model.epoch >= 2 else "PageHinkley-spec-first-epoch",
            )
        last = model.last
        if last.get("alarm"):
            ctx.mark("ph_alarm_" + cfg["params"]["direction"])
        if model.mean < 0 and last.get("fired"):
            ctx.count("ph_fired_with_negative_theta")
        _common_counters(ctx, "ph", model, last)
        ctx.count("ph_frame_rows_compared", n)
        return obs


SYSTEMS = {"CUSUM": CusumSystem(), "PageHinkley": PageHinkleySystem()}

# ----------------------------------------------------------------------------
# configurations
# ----------------------------------------------------------------------------
DIRS3 = [None, "positive", "negative"]
DIRS2 = ["positive", "negative"]
DELTAS = [0, 0.5]
THRESHOLDS = [1, 2, 5]
GIVEN_TS = [(0, 1), (1, 2), (1, 1), (0, 2)]  # (target, sd_hat): dyadic-closed with integer data
BURN_GIVEN = [0, 1, 3]
BURN_EST = [1, 2, 3]
BURN_PH = [0, 1, 3]


def _cid(kind, p):
    d = {None: "two", "positive": "pos", "negative": "neg"}[p.get("direction")]
    s = "%s-%s-b%d-d%s-h%s" % (kind, d, p["burn_in"], p["delta"], p["threshold"])
    if kind == "given":
        s += "-t%s-s%s" % (p["target"], p["sd_hat"])
    return s


def cusum_given_grid():
    out = []
    for (t, s), d, b, dl, h in itertools.product(GIVEN_TS, DIRS3, BURN_GIVEN, DELTAS, THRESHOLDS):
        out.append({"target": t, "sd_hat": s, "burn_in": b, "delta": dl, "threshold": h, "direction": d})
    return out


def cusum_est_grid():
    out = []
    for d, b, dl, h in itertools.product(DIRS3, BURN_EST, DELTAS, THRESHOLDS):
        out.append({"burn_in": b, "delta": dl, "threshold": h, "direction": d})
    return out


def ph_grid():
    out = []
    for d, b, dl, h in itertools.product(DIRS2, BURN_PH, DELTAS, THRESHOLDS):
        out.append({"burn_in": b, "delta": dl, "threshold": h, "direction": d})
    return out


def _cover(grid, keys, seed):
    """Covering subset: one configuration for every combination of ``keys``;
    the remaining parameters rotate with the combination index and VERIF_SEED."""
    groups = {}
    for p in grid:
        groups.setdefault(tuple(repr(p.get(k)) for k in keys), []).append(p)
    out = []
    for i, (_, ps) in enumerate(sorted(groups.items())):
        out.append(ps[(i + seed) % len(ps)])
    return out


# Exhaustive enumeration plan per family and tier: a list of levels
# (covering keys or None for the whole grid, depth).  A configuration is explored
# at the largest depth of the levels that contain it (the deeper tree contains
# the shallower one).
PLAN = {
    "quick": {
        "CUSUM-given": [(None, 6), (("direction", "burn_in", "threshold"), 8)],
        "CUSUM-est": [(None, 7), (("direction", "burn_in", "threshold"), 8)],
        "PageHinkley": [(None, 6), (("direction", "burn_in"), 7), (("direction",), 8)],
    },
    "thorough": {
        "CUSUM-given": [(None, 8), (("direction", "burn_in", "threshold"), 9), (("direction", "burn_in"), 10)],
        "CUSUM-est": [(None, 8), (("direction", "burn_in"), 10)],
        "PageHinkley": [(None, 7), (("direction", "burn_in"), 8), (("direction",), 9), ((), 10)],
    },
}
FAMILIES = {
    "CUSUM-given": ("CUSUM", "given", cusum_given_grid, CusumModel),
    "CUSUM-est": ("CUSUM", "est", cusum_est_grid, CusumModel),
    "PageHinkley": ("PageHinkley", "ph", ph_grid, PageHinkleyModel),
}
# largest subtree (depth below the task prefix) handed to one worker task
SUBTREE = {"CUSUM": 7, "PageHinkley": 6}
UNIT = {"CUSUM": 1, "PageHinkley": 6}  # relative cost of one transition

# level-shift default histories (L = 40): alternating low / high / negative levels
# of 5-8 samples with in-level variation, so that re-estimated standard
# deviations are non-zero and every history contains 4-6 alarms
DEV_DEFAULTS = {
    "shifts-A": [0, 1, 0, 1, 0, 1, 0, 1, 4, 4, 1, 4, 4, 1, 4, 4, 0, -2, 0, -2, 0, -2, 0, -2,
                 4, 1, 4, 1, 4, 1, 4, 1, 0, 1, 0, -2, 0, 1, 0, -2],
    "shifts-B": [1, 0, 1, 1, 0, -2, -2, 0, -2, -2, 0, 4, 1, 4, 4, 1, 4, 0, 1, 0, 0, 1, 0, 4,
                 4, 1, 4, 4, 1, -2, 0, -2, -2, 0, -2, 1, 4, 1, 4, 4],
    "shifts-C": [0, 1, 0, 0, 1, 0, 4, 4, 1, 4, 4, 1, 4, -2, 0, -2, -2, 0, -2, 0,
                 4, 1, 4, 4, 1, 4, 4, 0, 1, 0, -2, 0, 1, 0, 4, 4, 1, 4, 1, 4],
    "shifts-D": [1, 0, 1, 1, 0, 4, 4, 1, 4, 1, 0, 1, 0, 0, -2, 4, 1, 4, 4, 1,
                 -2, 0, -2, 0, -2, 4, 4, 1, 4, 4, 0, 0, 1, 0, -2, 4, 1, 4, 4, 1],
}
# (system, default, params, k in quick, k in thorough); alarms on the default history in brackets
DEV_CFGS = [
    ("CUSUM", "shifts-C", {"target": 0, "sd_hat": 1, "burn_in": 3, "delta": 0.5, "threshold": 2, "direction": None}, 2, 3),  # [6]
    ("CUSUM", "shifts-D", {"target": 1, "sd_hat": 2, "burn_in": 3, "delta": 0.5, "threshold": 2, "direction": None}, 2, 2),  # [6]
    ("CUSUM", "shifts-D", {"target": 1, "sd_hat": 1, "burn_in": 3, "delta": 0, "threshold": 1, "direction": "positive"}, 2, 2),  # [6]
    ("CUSUM", "shifts-D", {"target": 1, "sd_hat": 1, "burn_in": 3, "delta": 0, "threshold": 1, "direction": "negative"}, 2, 2),  # [5]
    ("CUSUM", "shifts-C", {"burn_in": 2, "delta": 0.5, "threshold": 2, "direction": None}, 2, 3),  # [6]
    ("CUSUM", "shifts-B", {"burn_in": 3, "delta": 0, "threshold": 5, "direction": None}, 2, 2),  # [6]
    ("CUSUM", "shifts-D", {"burn_in": 3, "delta": 0, "threshold": 1, "direction": "positive"}, 2, 2),  # [5]
    ("CUSUM", "shifts-D", {"burn_in": 3, "delta": 0, "threshold": 1, "direction": "negative"}, 2, 2),  # [5]
    ("PageHinkley", "shifts-C", {"burn_in": 3, "delta": 0, "threshold": 1, "direction": "positive"}, 2, 3),  # [6]
    ("PageHinkley", "shifts-D", {"burn_in": 3, "delta": 0, "threshold": 1, "direction": "negative"}, 1, 2),  # [6]
    ("PageHinkley", "shifts-B", {"burn_in": 3, "delta": 0.5, "threshold": 2, "direction": "positive"}, 1, 2),  # [5]
    ("PageHinkley", "shifts-A", {"burn_in": 1, "delta": 0.5, "threshold": 5, "direction": "negative"}, 1, 2),  # [6]
]


def _kind_of(system, p):
    if system == "PageHinkley":
        return "ph"
    return "given" if p.get("target") is not None else "est"


def _model_closes_at(model_cls, params, prefix):
    """Index of the prefix event after which the specification ends the history
    (sd = 0 ValueError; first alarm with burn_in = 0 for CUSUM), else None."""
    from mc.numeric import Decider

    m = model_cls(**params)
    for i, x in enumerate(prefix):
        exp = m.step(x, Decider())
        if exp.get("error") is not None:
            return i
        if model_cls is CusumModel and m.burn_in == 0 and exp["state"] == "drift":
            return i
    return None


def _dfs_tasks(system, kind, params, depth, model_cls):
    out = []
    cid = _cid(kind, params)
    split = max(1, depth - SUBTREE[system])
    for prefix in itertools.product(ALPHABET, repeat=split):
        dead = _model_closes_at(model_cls, params, prefix)
        if dead is not None and any(x != ALPHABET[0] for x in prefix[dead + 1:]):
            continue  # the same closed history is represented by the prefix padded with ALPHABET[0]
        out.append(
            {
                "system": system,
                "cfg": {"id": cid, "params": params},
                "prefix": list(prefix),
                "depth": depth - split,
                "label": "%s|%s|d%d|%s" % (system, cid, depth, ",".join(map(str, prefix))),
                "cost": UNIT[system] * 4 ** (depth - split),
                "validate_every": 997,
            }
        )
    return out


def _dev_tasks(idx, system, dname, params, k):
    """All histories that differ from the default in <= k positions, split by the
    position and value of the first deviation."""
    default = DEV_DEFAULTS[dname]
    L = len(default)
    cid = "dev%d-%s-%s" % (idx, dname, _cid(_kind_of(system, params), params))
    base = {"system": system, "cfg": {"id": cid, "params": params}, "mode": "dev", "default": default,
            "menu": ALPHABET, "validate_every": 199}
    out = [dict(base, k=0, label="%s|%s|L%d|k%d|none" % (system, cid, L, k), cost=UNIT[system] * L)]
    if k >= 1:
        for j in range(L):
            for alt in ALPHABET:
                if alt == default[j]:
                    continue
                rest = L - j - 1
                n_hist = sum((3 ** i) * _binom(rest, i) for i in range(k))
                out.append(
                    dict(
                        base,
                        k=k,  # total budget; the explorer subtracts the deviation used by the prefix
                        prefix=default[:j] + [alt],
                        label="%s|%s|L%d|k%d|%d:%d" % (system, cid, L, k, j, alt),
                        cost=UNIT[system] * max(1, n_hist * max(1, rest) // 3),
                    )
                )
    return out


def _binom(n, r):
    import math

    return math.comb(n, r) if 0 <= r <= n else 0


def plan_depths(tier, seed):
    """{family: {cfg id: (params, depth)}}"""
    res = {}
    for fam, levels in PLAN[tier].items():
        system, kind, gridf, model_cls = FAMILIES[fam]
        grid = gridf()
        best = {}
        for keys, depth in levels:
            sub = grid if keys is None else _cover(grid, keys, seed)
            for p in sub:
                cid = _cid(kind, p)
                if cid not in best or best[cid][1] < depth:
                    best[cid] = (p, depth)
        res[fam] = best
    return res


def tasks(tier, seed):
    out = []
    for fam, best in plan_depths(tier, seed).items():
        system, kind, gridf, model_cls = FAMILIES[fam]
        for cid, (p, depth) in sorted(best.items()):
            out.extend(_dfs_tasks(system, kind, p, depth, model_cls))
    for i, (system, dname, p, kq, kt) in enumerate(DEV_CFGS):
        out.extend(_dev_tasks(i, system, dname, p, kq if tier == "quick" else kt))
    # the same CUSUM tests at level 3e7 (estimated and re-estimated statistics only: given ones stay exact)
    for p in OFFSET_CFGS:
        for t in _dfs_tasks("CUSUM", "est", p, 8 if tier == "quick" else 9, CusumModel):
            t["cfg"] = {"id": t["cfg"]["id"] + "@3e7", "params": p, "offset": 3.0e7}
            t["label"] = t["label"].replace("CUSUM|", "CUSUM|offset3e7|", 1)
            out.append(t)
    return out


OFFSET_CFGS = [
    {"burn_in": 2, "delta": 0.5, "threshold": 1, "direction": None},
    {"burn_in": 3, "delta": 0, "threshold": 2, "direction": None},
    {"burn_in": 2, "delta": 0, "threshold": 2, "direction": "positive"},
]


REQUIRED = [
    "offset_level_steps",
    "cusum_alarm_twosided_upper",
    "cusum_alarm_twosided_lower",
    "cusum_alarm_positive",
    "cusum_alarm_negative",
    "cusum_alarm_estimated_stats",
    "cusum_alarm_reestimated_stats",
    "ph_alarm_positive",
    "ph_alarm_negative",
    "histories_reaching_3_alarms",
    "cusum_histories_reaching_3_alarms",
    "ph_histories_reaching_3_alarms",
    "histories_reaching_4_alarms",
    "cusum_alarm_in_epoch2",
    "cusum_alarm_in_epoch3plus",
    "ph_alarm_in_epoch2",
    "ph_alarm_in_epoch3plus",
    "exact_ties_enforced",
    "cusum_exact_ties_enforced",
    "ph_exact_ties_enforced",
    "burnin_boundary_alarm_at_first_eligible_sample",
    "burnin_boundary_test_fired_but_suppressed",
    "burnin_boundary_first_eligible_sample_quiet",
    "sd0_terminals",
    "ph_frame_rows_compared",
]

# wall-clock safety net only (the machine is shared; bounds are sized by CPU seconds / 16)
TIME_BUDGET = {"quick": 3600, "thorough": 21600}


def describe(tier):
    depth_hist = {}
    for fam, best in plan_depths(tier, 0).items():
        h = {}
        for _, (_, d) in best.items():
            h["depth_%d" % d] = h.get("depth_%d" % d, 0) + 1
        depth_hist[fam] = h
    return {
        "rule": "every history over {-2,0,1,4} of the stated depth (prefix-shared DFS over the real detector, "
        "snapshots by deepcopy, no transposition merging: both detectors keep their history) for every "
        "configuration of the grids, and every length-40 level-shift history with <= k replaced positions; "
        "a history is non-trivial when at least one of its updates alarmed, hit an exact tie, fired inside "
        "the burn-in (suppressed) or ended in the documented sd=0 ValueError; histories are distinct by "
        "construction (distinct event sequences or configurations)",
        "bounds": {
            "alphabet": ALPHABET,
            "dfs_configurations_per_depth": depth_hist,
            "dfs_levels": {
                fam: [["whole grid" if k is None else ("one per " + "x".join(k) if k else "one configuration"), d] for k, d in lv]
                for fam, lv in PLAN[tier].items()
            },
            "covering_subsets": "one configuration per combination of the named parameters, the remaining "
            "parameters rotating with the combination index and VERIF_SEED",
            "parameters": {
                "direction": ["None", "positive", "negative"],
                "delta": DELTAS,
                "threshold": THRESHOLDS,
                "cusum_given_(target,sd_hat)": [list(x) for x in GIVEN_TS],
                "burn_in": {"CUSUM-given": BURN_GIVEN, "CUSUM-est": BURN_EST, "PageHinkley": BURN_PH},
            },
            "deviation_mode": {
                "L": 40,
                "configurations": [
                    {"system": sy, "default": dn, "params": pp, "k": kq if tier == "quick" else kt}
                    for sy, dn, pp, kq, kt in DEV_CFGS
                ],
            },
        },
        "explanation": "states = tree nodes; traces_validated_against_impl = maximal executions on which the real "
        "detector and the Fraction model were compared after every update (CUSUM: drift_state and the "
        "sd=0 ValueError; PageHinkley: drift_state and all eight to_dataframe() columns, all rows, every step)",
        "assumptions": [
            "CUSUM with estimated statistics: the sums stay 0 for the first burn_in-1 observations and the "
            "statistic starts with the burn_in-th observation (DESIGN §4 C04); in every later epoch target/sd "
            "are the mean / population sd of the last burn_in observations fed and the sums restart at 0",
            "CUSUM burn_in=0: 're-estimated from the last burn_in observations' is undefined, the history is "
            "checked up to and including its first alarm and the branch closed; CUSUM(target=None, burn_in=0) "
            "is not explored",
            "sd = 0 past the burn-in is the documented ValueError (test_zero_sd) and ends the branch",
            "PageHinkley tests ph_difference > threshold * running mean (property anchor), also when the mean "
            "is negative",
            "comparisons are enforced strictly (ties included) whenever all operands are dyadic rationals so "
            "that float arithmetic is exact; otherwise relative margins <= 1e-9 follow the implementation "
            "(near_tie_steered); math.sqrt is trusted for irrational standard deviations",
            "only drift_state (and to_dataframe()) decide; total/since counters are recorded, not compared (C01)",
        ],
    }
